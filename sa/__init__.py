"""Repository-specific static analyser for elfi (see /verif/DESIGN.md).

Pure standard library.  Nothing in this package imports or runs elfi.
"""

REPO_ROOT = '/repo'
PACKAGE = 'elfi'


class AnalysisError(Exception):
    """The analyser could not decide (missing anchor, unrecognised shape, floor not met).

    Never a property violation and never a silent pass: the runner turns it into
    ``ANALYSIS-ERROR`` / exit status 2.
    """


class AnchorMissing(AnalysisError):
    """A construct that an obligation is anchored on was not found in the source."""
