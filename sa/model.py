"""Layer 0 - source model: modules, import tables, classes with MRO, functions.

Parses every ``elfi/**/*.py`` under the repository root on every run (or from an in-memory
overlay ``{relpath: text}`` used by the self-test).  Nothing is imported or executed.
"""

import ast
import hashlib
import os

from . import AnchorMissing, AnalysisError, PACKAGE, REPO_ROOT


class _CounterForm(ast.NodeTransformer):
    """Normal form for counter updates: `T = T + k` / `T = k + T` / `T = T - k` with a numeric
    constant k and a plain target T (name, attribute chain, constant-key subscript) is read as
    `T += k` / `T -= k`.  For the immutable scalars such statements are written for the two
    are the same statement; rules then need to know one form only.  (Nothing else is
    normalised: `x = x + e` with a non-constant e stays a rebinding, which matters for the
    in-place rules.)"""

    @staticmethod
    def _plain(t):
        if isinstance(t, ast.Name):
            return True
        if isinstance(t, ast.Attribute):
            return _CounterForm._plain(t.value)
        if isinstance(t, ast.Subscript):
            return isinstance(t.slice, ast.Constant) and _CounterForm._plain(t.value)
        return False

    @staticmethod
    def _same(a, b):
        def strip(x):
            return ast.dump(x).replace('ctx=Store()', 'ctx=Load()')
        return strip(a) == strip(b)

    def visit_AnnAssign(self, node):
        # `x: T = e` is read as `x = e` (a bare declaration `x: T` stays as it is)
        self.generic_visit(node)
        if node.value is None:
            return node
        return self.visit_Assign(ast.copy_location(
            ast.Assign(targets=[node.target], value=node.value), node), visited=True)

    def visit_Assign(self, node, visited=False):
        if not visited:
            self.generic_visit(node)
        if len(node.targets) != 1 or not self._plain(node.targets[0]) or \
                not isinstance(node.value, ast.BinOp) or \
                not isinstance(node.value.op, (ast.Add, ast.Sub)):
            return node
        t, v = node.targets[0], node.value

        def num(x):
            return isinstance(x, ast.Constant) and isinstance(x.value, (int, float)) and \
                not isinstance(x.value, bool)
        if self._same(t, v.left) and num(v.right):
            return ast.copy_location(ast.AugAssign(target=t, op=v.op, value=v.right), node)
        if isinstance(v.op, ast.Add) and self._same(t, v.right) and num(v.left):
            return ast.copy_location(ast.AugAssign(target=t, op=v.op, value=v.left), node)
        return node


def _set_parents(tree):
    for node in ast.walk(tree):
        for child in ast.iter_child_nodes(node):
            child._parent = node
    tree._parent = None


class FunctionInfo:
    """A function or method definition (also nested functions and lambdas are indexed)."""

    def __init__(self, module, node, cls=None, outer=None):
        self.module = module
        self.node = node
        self.cls = cls
        self.outer = outer  # enclosing FunctionInfo for nested defs
        self.name = getattr(node, 'name', '<lambda>')
        if outer is not None:
            self.qname = '{}.<locals>.{}'.format(outer.qname, self.name)
        elif cls is not None:
            self.qname = '{}:{}.{}'.format(module.name, cls.name, self.name)
        else:
            self.qname = '{}:{}'.format(module.name, self.name)
        self.decorators = []
        for d in getattr(node, 'decorator_list', []):
            self.decorators.append(ast.unparse(d))
        self.is_static = 'staticmethod' in self.decorators
        self.is_classmethod = 'classmethod' in self.decorators
        self.is_property = ('property' in self.decorators or
                            any(d.endswith('.setter') or d.endswith('.getter')
                                for d in self.decorators))
        self.is_setter = any(d.endswith('.setter') for d in self.decorators)
        node._fninfo = self

    @property
    def params(self):
        a = self.node.args
        names = [x.arg for x in a.posonlyargs + a.args]
        return names

    @property
    def all_params(self):
        a = self.node.args
        names = [x.arg for x in a.posonlyargs + a.args + a.kwonlyargs]
        if a.vararg:
            names.append(a.vararg.arg)
        if a.kwarg:
            names.append(a.kwarg.arg)
        return names

    @property
    def self_name(self):
        """Name of the instance / class parameter, or None."""
        if self.cls is None or self.is_static or self.outer is not None:
            return None
        p = self.params
        return p[0] if p else None

    @property
    def body(self):
        b = self.node.body
        return b if isinstance(b, list) else [ast.Return(value=b)]

    @property
    def relpath(self):
        return self.module.relpath

    @property
    def lineno(self):
        return self.node.lineno

    def where(self, node=None):
        n = node if node is not None else self.node
        return '{}:{}'.format(self.module.relpath, getattr(n, 'lineno', self.node.lineno))

    def __repr__(self):
        return '<fn {}>'.format(self.qname)


ALIASES = {}   # canonical private helper name -> current name (filled by sa.roles per run)


class _AliasDict(dict):
    """dict whose lookups accept the canonical name of a renamed private helper."""

    def _k(self, k):
        if isinstance(k, str) and k not in self.keys() and k in ALIASES:
            return ALIASES[k]
        return k

    def __getitem__(self, k):
        return dict.__getitem__(self, self._k(k))

    def get(self, k, d=None):
        return dict.get(self, self._k(k), d)

    def __contains__(self, k):
        return dict.__contains__(self, self._k(k))


class ClassInfo:
    def __init__(self, module, node):
        self.module = module
        self.node = node
        self.name = node.name
        self.qname = '{}:{}'.format(module.name, node.name)
        self.methods = _AliasDict()   # name -> FunctionInfo (setters kept apart)
        self.setters = _AliasDict()
        self.class_assigns = {}  # name -> value ast
        self.base_exprs = [ast.unparse(b) for b in node.bases]
        self.bases = []        # resolved ClassInfo (repo classes only)
        self.external_bases = []
        self.subclasses = []
        self._mro = None
        node._clsinfo = self

    def mro(self):
        if self._mro is None:
            self._mro = _c3(self)
        return self._mro

    def lookup(self, name, after=None):
        """Find method `name` through the MRO; `after` = start after that class (super())."""
        mro = self.mro()
        if after is not None:
            if after in mro:
                mro = mro[mro.index(after) + 1:]
            else:
                mro = after.mro()[1:]
        for c in mro:
            if name in c.methods:
                return c.methods[name]
        return None

    def all_subclasses(self):
        out, todo = [], list(self.subclasses)
        while todo:
            c = todo.pop()
            if c not in out:
                out.append(c)
                todo.extend(c.subclasses)
        return out

    def is_subclass_of(self, other):
        return other in self.mro()

    def overrides(self, name):
        """All definitions of method `name` in this class and its subclasses."""
        out = []
        for c in [self] + self.all_subclasses():
            if name in c.methods:
                out.append(c.methods[name])
        return out

    def __repr__(self):
        return '<class {}>'.format(self.qname)


def _c3(cls):
    def merge(seqs):
        res = []
        seqs = [list(s) for s in seqs if s]
        while seqs:
            for s in seqs:
                cand = s[0]
                if not any(cand in t[1:] for t in seqs):
                    break
            else:
                # inconsistent hierarchy: fall back to depth-first
                cand = seqs[0][0]
            res.append(cand)
            seqs = [[x for x in s if x is not cand] for s in seqs]
            seqs = [s for s in seqs if s]
        return res
    return [cls] + merge([b.mro() for b in cls.bases] + [list(cls.bases)])


class Module:
    def __init__(self, name, relpath, text):
        self.name = name
        self.relpath = relpath
        self.text = text
        self.digest = 'sha256:' + hashlib.sha256(text.encode('utf-8')).hexdigest()[:16]
        self.tree = ast.fix_missing_locations(
            _CounterForm().visit(ast.parse(text, filename=relpath)))
        _set_parents(self.tree)
        self.imports = {}     # local name -> dotted target
        self.star_imports = []
        self.functions = _AliasDict()
        self.classes = {}
        self.assigns = {}     # module level NAME = value
        self.all_functions = []  # every FunctionInfo incl. methods, nested, lambdas
        self.is_package = relpath.endswith('__init__.py')
        self._index()

    # ------------------------------------------------------------------
    def _pkg(self):
        return self.name if self.is_package else self.name.rpartition('.')[0]

    def _index(self):
        for node in ast.walk(self.tree):
            if isinstance(node, ast.Import):
                for a in node.names:
                    if a.asname:
                        self.imports[a.asname] = a.name
                    else:
                        top = a.name.split('.')[0]
                        self.imports[top] = top
            elif isinstance(node, ast.ImportFrom):
                base = node.module or ''
                if node.level:
                    pkg = self._pkg().split('.')
                    pkg = pkg[:len(pkg) - (node.level - 1)]
                    base = '.'.join(pkg + ([node.module] if node.module else []))
                for a in node.names:
                    if a.name == '*':
                        self.star_imports.append(base)
                    else:
                        self.imports[a.asname or a.name] = base + '.' + a.name
        for node in self.tree.body:
            if isinstance(node, (ast.FunctionDef, ast.AsyncFunctionDef)):
                self.functions[node.name] = self._index_function(node)
            elif isinstance(node, ast.ClassDef):
                self._index_class(node)
            elif isinstance(node, ast.Assign):
                for t in node.targets:
                    if isinstance(t, ast.Name):
                        self.assigns[t.id] = node.value
            elif isinstance(node, (ast.If, ast.Try)):
                # definitions under module-level conditionals (rare in elfi)
                for sub in ast.walk(node):
                    if isinstance(sub, ast.FunctionDef) and sub._parent in (node,) + tuple(
                            getattr(node, 'handlers', [])):
                        self.functions.setdefault(sub.name, self._index_function(sub))

    def _index_class(self, node):
        ci = ClassInfo(self, node)
        self.classes[node.name] = ci
        for item in node.body:
            if isinstance(item, (ast.FunctionDef, ast.AsyncFunctionDef)):
                fi = self._index_function(item, cls=ci)
                if fi.is_setter:
                    ci.setters[item.name] = fi
                else:
                    ci.methods[item.name] = fi
            elif isinstance(item, ast.Assign):
                for t in item.targets:
                    if isinstance(t, ast.Name):
                        ci.class_assigns[t.id] = item.value
            elif isinstance(item, ast.ClassDef):
                pass
        return ci

    def _index_function(self, node, cls=None, outer=None):
        fi = FunctionInfo(self, node, cls=cls, outer=outer)
        self.all_functions.append(fi)
        # nested functions and lambdas
        for sub in _direct_nested(node):
            self._index_function(sub, cls=cls, outer=fi)
        return fi


def _direct_nested(fnode):
    """Function/lambda nodes nested directly inside `fnode` (not inside a deeper def)."""
    out = []
    body = fnode.body if isinstance(fnode.body, list) else [fnode.body]
    todo = list(body)
    # default values and decorators belong to the enclosing scope; ignore them here
    while todo:
        n = todo.pop()
        if isinstance(n, (ast.FunctionDef, ast.AsyncFunctionDef, ast.Lambda)):
            out.append(n)
            continue
        if isinstance(n, ast.ClassDef):
            continue
        todo.extend(ast.iter_child_nodes(n))
    out.sort(key=lambda n: (n.lineno, n.col_offset))
    return out


class Repo:
    """The parsed `elfi` package."""

    def __init__(self, root=REPO_ROOT, overlay=None, package=PACKAGE):
        self.root = root
        self.package = package
        self.overlay = dict(overlay or {})
        self.modules = {}
        self.by_relpath = {}
        self._load()
        self._link_classes()

    # ------------------------------------------------------------------
    def _load(self):
        pkgdir = os.path.join(self.root, self.package)
        paths = []
        for dirpath, dirnames, filenames in os.walk(pkgdir):
            dirnames[:] = sorted(d for d in dirnames if d != '__pycache__')
            for f in sorted(filenames):
                if f.endswith('.py'):
                    paths.append(os.path.relpath(os.path.join(dirpath, f), self.root))
        for rel in self.overlay:
            if rel not in paths and rel.endswith('.py'):
                paths.append(rel)
        for rel in paths:
            if rel in self.overlay:
                text = self.overlay[rel]
                if text is None:
                    continue
            else:
                with open(os.path.join(self.root, rel), encoding='utf-8') as f:
                    text = f.read()
            name = rel[:-3].replace(os.sep, '.')
            if name.endswith('.__init__'):
                name = name[:-len('.__init__')]
            try:
                m = Module(name, rel, text)
            except SyntaxError as e:
                raise AnalysisError('cannot parse {}: {}'.format(rel, e))
            self.modules[name] = m
            self.by_relpath[rel] = m

    def _link_classes(self):
        for m in self.modules.values():
            for c in m.classes.values():
                for b in c.node.bases:
                    r = self.resolve_expr(m, b)
                    if r and r[0] == 'class':
                        c.bases.append(r[1])
                        r[1].subclasses.append(c)
                    else:
                        c.external_bases.append(ast.unparse(b))

    # ------------------------------------------------------------------
    def module(self, name):
        try:
            return self.modules[name]
        except KeyError:
            raise AnchorMissing('module {} not found'.format(name))

    def cls(self, qname):
        """`elfi.store:NpyArray`"""
        mod, _, name = qname.partition(':')
        m = self.module(mod)
        if name not in m.classes:
            raise AnchorMissing('class {} not found'.format(qname))
        return m.classes[name]

    def function(self, qname):
        """`elfi.store:NpyArray.truncate` (looked up through the MRO) or `elfi.utils:get_sub_seed`."""
        mod, _, name = qname.partition(':')
        m = self.module(mod)
        if '.' in name:
            cname, _, mname = name.partition('.')
            if cname not in m.classes:
                raise AnchorMissing('class {}:{} not found'.format(mod, cname))
            f = m.classes[cname].lookup(mname)
            if f is None:
                raise AnchorMissing('method {} not found (MRO searched)'.format(qname))
            return f
        if name in m.functions:
            return m.functions[name]
        # re-exported function
        r = self.resolve_dotted(mod + '.' + name)
        if r and r[0] == 'func':
            return r[1]
        raise AnchorMissing('function {} not found'.format(qname))

    def has_function(self, qname):
        try:
            self.function(qname)
            return True
        except AnchorMissing:
            return False

    def own_method(self, cls_qname, mname):
        """Method defined in exactly this class (None when inherited)."""
        return self.cls(cls_qname).methods.get(mname)

    def all_functions(self):
        for m in self.modules.values():
            for f in m.all_functions:
                yield f

    def all_classes(self):
        for m in self.modules.values():
            for c in m.classes.values():
                yield c

    # ------------------------------------------------------------------
    def resolve_dotted(self, dotted, _depth=0):
        """Resolve a dotted global name.

        Returns ('module', Module) | ('class', ClassInfo) | ('func', FunctionInfo) |
        ('var', Module, name) | ('external', dotted).
        """
        if _depth > 12:
            return ('external', dotted)
        parts = dotted.split('.')
        if parts[0] != self.package:
            return ('external', dotted)
        # longest module prefix
        for i in range(len(parts), 0, -1):
            mn = '.'.join(parts[:i])
            if mn in self.modules:
                m = self.modules[mn]
                rest = parts[i:]
                break
        else:
            return ('external', dotted)
        if not rest:
            return ('module', m)
        head = rest[0]
        if head in m.classes:
            c = m.classes[head]
            if len(rest) == 1:
                return ('class', c)
            f = c.lookup(rest[1])
            if f is not None and len(rest) == 2:
                return ('func', f)
            if len(rest) == 2 and rest[1] in c.class_assigns:
                return ('classvar', c, rest[1])
            return ('external', dotted)
        if head in m.functions:
            if len(rest) == 1:
                return ('func', m.functions[head])
            return ('external', dotted)
        if head in m.imports:
            return self.resolve_dotted('.'.join([m.imports[head]] + rest[1:]), _depth + 1)
        if head in m.assigns:
            if len(rest) == 1:
                return ('var', m, head)
            return ('external', dotted)
        for star in m.star_imports:
            r = self.resolve_dotted('.'.join([star] + rest), _depth + 1)
            if r and r[0] != 'external':
                return r
        return ('external', dotted)

    def dotted_of(self, module, expr):
        """Dotted global name of a Name/Attribute chain in `module`, or None."""
        chain = []
        n = expr
        while isinstance(n, ast.Attribute):
            chain.append(n.attr)
            n = n.value
        if not isinstance(n, ast.Name):
            return None
        chain.reverse()
        head = n.id
        if head in module.imports:
            return '.'.join([module.imports[head]] + chain)
        if head in module.classes or head in module.functions or head in module.assigns:
            return '.'.join([module.name, head] + chain)
        for star in module.star_imports:
            r = self.resolve_dotted('.'.join([star, head]))
            if r and r[0] != 'external':
                return '.'.join([star, head] + chain)
        return None

    def resolve_expr(self, module, expr):
        d = self.dotted_of(module, expr)
        if d is None:
            return None
        return self.resolve_dotted(d)

    def canonical_dotted(self, module, expr):
        """Like dotted_of, but repo re-exports are followed to the defining module."""
        d = self.dotted_of(module, expr)
        if d is None:
            return None
        r = self.resolve_dotted(d)
        if r[0] == 'func':
            f = r[1]
            if f.cls is not None:
                return '{}.{}.{}'.format(f.module.name, f.cls.name, f.name)
            return '{}.{}'.format(f.module.name, f.name)
        if r[0] == 'class':
            return '{}.{}'.format(r[1].module.name, r[1].name)
        if r[0] == 'module':
            return r[1].name
        if r[0] == 'var':
            return '{}.{}'.format(r[1].name, r[2])
        return r[1] if r[0] == 'external' else d

    # ------------------------------------------------------------------
    def digests(self, relpaths=None):
        out = {}
        for rel, m in sorted(self.by_relpath.items()):
            if relpaths is None or rel in relpaths:
                out[rel] = m.digest
        return out

    def stats(self):
        nf = sum(len(m.all_functions) for m in self.modules.values())
        nc = sum(len(m.classes) for m in self.modules.values())
        return {'modules': len(self.modules), 'classes': nc, 'functions': nf}


def enclosing_function(node):
    n = getattr(node, '_parent', None)
    while n is not None:
        if isinstance(n, (ast.FunctionDef, ast.AsyncFunctionDef, ast.Lambda)):
            return getattr(n, '_fninfo', None)
        n = getattr(n, '_parent', None)
    return None


def enclosing_stmt(node):
    n = node
    while n is not None and not isinstance(n, ast.stmt):
        n = getattr(n, '_parent', None)
    return n


def own_nodes(fnode):
    """Walk the nodes that belong to function `fnode` itself (not to nested defs/lambdas)."""
    body = fnode.body if isinstance(fnode.body, list) else [fnode.body]
    todo = list(reversed(body))
    while todo:
        n = todo.pop()
        yield n
        if isinstance(n, (ast.FunctionDef, ast.AsyncFunctionDef, ast.Lambda, ast.ClassDef)):
            continue
        todo.extend(reversed(list(ast.iter_child_nodes(n))))
