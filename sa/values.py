"""Layer 2 - value terms, reaching definitions, expansion, pattern matching.

Terms are plain nested tuples (hashable, structurally comparable):

  ('const', v) ('name', id) ('param', id) ('global', dotted) ('attr', base, name)
  ('sub', base, index) ('slice', lo, hi, step) ('call', func, args, kwargs)
  ('binop', op, l, r) ('unary', op, x) ('cmp', op, l, r) ('bool', op, items)
  ('tuple', items) ('list', items) ('set', items) ('dict', pairs) ('ifexp', t, a, b)
  ('phi', items) ('elem', iterable, loop_id) ('item', value, i) ('comp', kind, elt, gens)
  ('lambda', params, body) ('starred', x) ('loop', name) ('unknown', why) ('localfn', qname)

This is value numbering over the CFG, not execution: no path conditions, no solver.
"""

import ast

from .cfg import cfg_of
from .model import own_nodes

_BINOPS = {ast.Add: '+', ast.Sub: '-', ast.Mult: '*', ast.Div: '/', ast.FloorDiv: '//',
           ast.Mod: '%', ast.Pow: '**', ast.MatMult: '@', ast.BitAnd: '&', ast.BitOr: '|',
           ast.BitXor: '^', ast.LShift: '<<', ast.RShift: '>>'}
_UNARY = {ast.USub: '-', ast.UAdd: '+', ast.Not: 'not', ast.Invert: '~'}
_CMPS = {ast.Eq: '==', ast.NotEq: '!=', ast.Lt: '<', ast.LtE: '<=', ast.Gt: '>', ast.GtE: '>=',
         ast.Is: 'is', ast.IsNot: 'is not', ast.In: 'in', ast.NotIn: 'not in'}

PATTERN_ALIASES = {'np': 'numpy', 'ss': 'scipy.stats', 'nx': 'networkx', 'sl': 'scipy.linalg',
                   'npformat': 'numpy.lib.format'}

NONE = ('const', None)


def const(v):
    return ('const', v)


def is_const(t, v=None):
    return t[0] == 'const' and (v is None or t[1] == v and type(t[1]) is type(v))


class Scope:
    """Name resolution context for converting an AST expression into a term."""

    def __init__(self, repo=None, module=None, fn=None, expander=None, at=None, bound=None,
                 pattern=False):
        self.repo = repo
        self.module = module
        self.fn = fn
        self.expander = expander
        self.at = at
        self.bound = bound or {}
        self.pattern = pattern

    def child(self, bound):
        b = dict(self.bound)
        b.update(bound)
        return Scope(self.repo, self.module, self.fn, self.expander, self.at, b, self.pattern)


def _mk_cmp(op, l, r):
    if op == '>=':
        return ('cmp', '<=', r, l)
    if op == '>':
        return ('cmp', '<', r, l)
    return ('cmp', op, l, r)


_POSITIVE = {'is not': 'is', '!=': '==', 'not in': 'in'}


def _mk_ifexp(t, a, b):
    """Canonical conditional expression: the test is never a negation nor a negative
    comparison (`a if not c else b` == `b if c else a`, `a if x is not None else b` ==
    `b if x is None else a`)."""
    while True:
        if t[0] == 'unary' and t[1] == 'not':
            t, a, b = t[2], b, a
        elif t[0] == 'cmp' and t[1] in _POSITIVE:
            t, a, b = ('cmp', _POSITIVE[t[1]], t[2], t[3]), b, a
        else:
            return ('ifexp', t, a, b)


def _mk_attr(base, name):
    if base[0] == 'global':
        return ('global', base[1] + '.' + name)
    if name == 'T':
        return ('call', ('global', 'numpy.transpose'), (base,), ())
    return ('attr', base, name)


def _mk_slice(lo, hi, step):
    if lo == ('const', 0):
        lo = NONE
    if step == ('const', 1):
        step = NONE
    return ('slice', lo, hi, step)


def _mk_call(func, args, kwargs):
    # d.get(k)  ==  d[k]   (one-argument form only)
    if func[0] == 'attr' and func[2] == 'get' and len(args) == 1 and not kwargs \
            and args[0][0] != 'starred':
        return ('sub', func[1], args[0])
    # dict(a=1, b=2) == {'a': 1, 'b': 2}
    if func in (('global', 'dict'), ('name', 'dict'), ('pname', 'dict'), ('global', 'builtins.dict')) \
            and not args and kwargs and all(k is not None for (k, v) in kwargs):
        return _mk_dict([(('const', k), v) for (k, v) in kwargs])
    # x.transpose() == np.transpose(x)
    if func[0] == 'attr' and func[2] == 'transpose' and not args and not kwargs:
        return ('call', ('global', 'numpy.transpose'), (func[1],), ())
    return ('call', func, tuple(args), tuple(kwargs))


def _mk_dict(pairs):
    if all(k[0] == 'const' for (k, v) in pairs):
        pairs = sorted(pairs, key=lambda kv: repr(kv[0][1]))
    return ('dict', tuple(pairs))


def term_kwargs(t):
    """{name: value term} of a call's keyword arguments or of a constant-key dict term."""
    if t[0] == 'call':
        return dict((k, v) for (k, v) in t[3] if k is not None)
    if t[0] == 'dict':
        return dict((k[1], v) for (k, v) in t[1] if k[0] == 'const')
    return {}


def to_term(e, sc):
    """Convert AST expression `e` to a term in scope `sc`."""
    if e is None:
        return NONE
    T = type(e)
    if T is ast.Constant:
        v = e.value
        try:
            hash(v)
        except TypeError:
            v = repr(v)
        return ('const', v)
    if T is ast.Name:
        return _name_term(e, sc)
    if T is ast.Attribute:
        return _mk_attr(to_term(e.value, sc), e.attr)
    if T is ast.Subscript:
        return ('sub', to_term(e.value, sc), to_term(e.slice, sc))
    if T is ast.Slice:
        return _mk_slice(to_term(e.lower, sc), to_term(e.upper, sc), to_term(e.step, sc))
    if T is ast.Call:
        func = to_term(e.func, sc)
        args = []
        for a in e.args:
            args.append(to_term(a, sc))
        kwargs = []
        for k in e.keywords:
            kwargs.append((k.arg, to_term(k.value, sc)))
        kwargs.sort(key=lambda kv: (kv[0] is None, kv[0] or ''))
        return _mk_call(func, args, kwargs)
    if T is ast.BinOp:
        return ('binop', _BINOPS[type(e.op)], to_term(e.left, sc), to_term(e.right, sc))
    if T is ast.UnaryOp:
        x = to_term(e.operand, sc)
        op = _UNARY[type(e.op)]
        if op == '-' and x[0] == 'const' and isinstance(x[1], (int, float)) \
                and not isinstance(x[1], bool):
            return ('const', -x[1])
        return ('unary', op, x)
    if T is ast.Compare:
        left = to_term(e.left, sc)
        parts = []
        for op, c in zip(e.ops, e.comparators):
            right = to_term(c, sc)
            parts.append(_mk_cmp(_CMPS[type(op)], left, right))
            left = right
        if len(parts) == 1:
            return parts[0]
        return ('bool', 'and', tuple(parts))
    if T is ast.BoolOp:
        return ('bool', 'and' if isinstance(e.op, ast.And) else 'or',
                tuple(to_term(v, sc) for v in e.values))
    if T is ast.Tuple:
        return ('tuple', tuple(to_term(x, sc) for x in e.elts))
    if T is ast.List:
        return ('list', tuple(to_term(x, sc) for x in e.elts))
    if T is ast.Set:
        return ('set', tuple(to_term(x, sc) for x in e.elts))
    if T is ast.Dict:
        pairs = []
        for k, v in zip(e.keys, e.values):
            pairs.append((to_term(k, sc) if k is not None else ('starred', NONE), to_term(v, sc)))
        return _mk_dict(pairs)
    if T is ast.IfExp:
        return _mk_ifexp(to_term(e.test, sc), to_term(e.body, sc), to_term(e.orelse, sc))
    if T is ast.Starred:
        return ('starred', to_term(e.value, sc))
    if T in (ast.ListComp, ast.SetComp, ast.GeneratorExp, ast.DictComp):
        return _comp_term(e, sc)
    if T is ast.Lambda:
        params = tuple(a.arg for a in e.args.args)
        inner = sc.child({p: ('param', p) for p in params})
        return ('lambda', params, to_term(e.body, inner))
    if T is ast.NamedExpr:
        return to_term(e.value, sc)
    if T is ast.JoinedStr:
        return ('unknown', 'fstring')
    if T is ast.Await:
        return to_term(e.value, sc)
    return ('unknown', T.__name__)


def _comp_term(e, sc):
    kind = {ast.ListComp: 'list', ast.SetComp: 'set', ast.GeneratorExp: 'gen',
            ast.DictComp: 'dict'}[type(e)]
    gens = []
    inner = sc
    for g in e.generators:
        it = to_term(g.iter, inner)
        loop_id = '{}:{}'.format(g.iter.lineno, g.iter.col_offset) if not sc.pattern else '*'
        bound = _bind_target(g.target, ('elem', it, loop_id))
        inner = inner.child(bound)
        ifs = tuple(to_term(c, inner) for c in g.ifs)
        gens.append((it, ifs))
    if kind == 'dict':
        elt = ('tuple', (to_term(e.key, inner), to_term(e.value, inner)))
    else:
        elt = to_term(e.elt, inner)
    return ('comp', kind, elt, tuple(gens))


def _bind_target(target, value):
    """Map names in an assignment target to terms derived from `value`."""
    out = {}
    if isinstance(target, ast.Name):
        out[target.id] = value
    elif isinstance(target, (ast.Tuple, ast.List)):
        for i, t in enumerate(target.elts):
            if isinstance(t, ast.Starred):
                out.update(_bind_target(t.value, ('item', value, '*')))
            else:
                if value[0] in ('tuple', 'list') and i < len(value[1]) and \
                        not any(x[0] == 'starred' for x in value[1]):
                    out.update(_bind_target(t, value[1][i]))
                else:
                    out.update(_bind_target(t, ('item', value, i)))
    return out


def _name_term(e, sc):
    name = e.id
    if name in sc.bound:
        return sc.bound[name]
    if sc.pattern:
        if name == '_':
            return ('wild',)
        if name.startswith('_') and name[1:].isalnum() and len(name) <= 3:
            return ('var', name[1:])
        if name in PATTERN_ALIASES:
            return ('global', PATTERN_ALIASES[name])
        return ('pname', name)
    if name in ('True', 'False', 'None'):
        return ('const', {'True': True, 'False': False, 'None': None}[name])
    if sc.expander is not None and sc.expander.is_local(name):
        if sc.at is not None:
            return sc.expander.value_of(name, sc.at)
        return ('name', name)
    # closure variable of an enclosing function
    if sc.fn is not None and sc.fn.outer is not None:
        o = sc.fn.outer
        while o is not None:
            ex = expander_of(sc.repo, o)
            if ex.is_local(name):
                return ('closure', name, o.qname)
            o = o.outer
    if sc.repo is not None and sc.module is not None:
        d = sc.repo.canonical_dotted(sc.module, e)
        if d is not None:
            return ('global', d)
    elif sc.module is not None and name in sc.module.imports:
        return ('global', sc.module.imports[name])
    return ('global', name) if name in _BUILTINS else ('name', name)


_BUILTINS = set(dir(__builtins__)) if not isinstance(__builtins__, dict) else set(__builtins__)


# ---------------------------------------------------------------------------
# Reaching definitions
# ---------------------------------------------------------------------------

class Def:
    __slots__ = ('var', 'node', 'kind', 'payload', 'index')

    def __init__(self, var, node, kind, payload=None, index=None):
        self.var = var
        self.node = node        # CFG node (None for parameters)
        self.kind = kind        # param assign aug for with exc import localfn del walrus
        self.payload = payload  # ast of the value / target
        self.index = index      # unpack path, tuple of ints / '*'

    def __repr__(self):
        return '<def {} {} L{}>'.format(self.var, self.kind, self.node.lineno if self.node else 0)


def _target_defs(target, node, kind, value, path=()):
    out = []
    if isinstance(target, ast.Name):
        out.append(Def(target.id, node, kind, value, path))
    elif isinstance(target, (ast.Tuple, ast.List)):
        for i, t in enumerate(target.elts):
            if isinstance(t, ast.Starred):
                out += _target_defs(t.value, node, kind, value, path + ('*',))
            else:
                out += _target_defs(t, node, kind, value, path + (i,))
    return out


class Expander:
    """Reaching definitions and term expansion for one function."""

    MAX_DEPTH = 14

    def __init__(self, repo, fn):
        self.repo = repo
        self.fn = fn
        self.cfg = cfg_of(fn)
        self.locals = set()
        self.nonlocal_names = set()
        self.defs_at = {}     # cfg node id -> [Def]
        self._collect()
        self._solve()
        self._memo = {}
        self._stack = []

    # -- collection ----------------------------------------------------
    def _collect(self):
        fn = self.fn
        a = fn.node.args
        self.param_defs = []
        for p in fn.all_params:
            self.param_defs.append(Def(p, None, 'param'))
            self.locals.add(p)
        for n in own_nodes(fn.node):
            if isinstance(n, (ast.Global, ast.Nonlocal)):
                self.nonlocal_names.update(n.names)
        for node in self.cfg.nodes:
            ds = []
            s = node.ast
            if node.kind == 'stmt':
                if isinstance(s, ast.Assign):
                    for t in s.targets:
                        ds += _target_defs(t, node, 'assign', s.value)
                elif isinstance(s, ast.AnnAssign) and s.value is not None:
                    ds += _target_defs(s.target, node, 'assign', s.value)
                elif isinstance(s, ast.AugAssign):
                    if isinstance(s.target, ast.Name):
                        ds.append(Def(s.target.id, node, 'aug', s))
                elif isinstance(s, (ast.Import, ast.ImportFrom)):
                    for al in s.names:
                        nm = (al.asname or al.name).split('.')[0]
                        ds.append(Def(nm, node, 'import', s))
                elif isinstance(s, (ast.FunctionDef, ast.AsyncFunctionDef, ast.ClassDef)):
                    ds.append(Def(s.name, node, 'localfn', s))
                elif isinstance(s, ast.Delete):
                    for t in s.targets:
                        if isinstance(t, ast.Name):
                            ds.append(Def(t.id, node, 'del'))
            elif node.kind == 'for':
                ds += _target_defs(node.stmt.target, node, 'for', node.stmt.iter)
            elif node.kind == 'with':
                for item in node.stmt.items:
                    if item.optional_vars is not None:
                        ds += _target_defs(item.optional_vars, node, 'with', item.context_expr)
            elif node.kind == 'exc':
                if node.ast.name:
                    ds.append(Def(node.ast.name, node, 'exc'))
            # walrus
            if node.ast is not None and node.kind in ('stmt', 'test', 'for'):
                root = node.ast
                for sub in ast.walk(root) if not isinstance(root, (ast.FunctionDef, ast.ClassDef)) \
                        else []:
                    if isinstance(sub, ast.NamedExpr) and isinstance(sub.target, ast.Name):
                        ds.append(Def(sub.target.id, node, 'assign', sub.value, ()))
            ds = [d for d in ds if d.var not in self.nonlocal_names]
            self.defs_at[node.id] = ds
            for d in ds:
                self.locals.add(d.var)

    def is_local(self, name):
        return name in self.locals

    # -- dataflow --------------------------------------------------------
    def _solve(self):
        cfg = self.cfg
        IN = {n.id: {} for n in cfg.nodes}
        OUT = {n.id: {} for n in cfg.nodes}
        init = {}
        for d in self.param_defs:
            init[d.var] = frozenset([d])
        OUT[cfg.entry.id] = init
        work = [n for n in cfg.nodes if n is not cfg.entry]
        inwork = set(n.id for n in work)
        work.reverse()
        while work:
            n = work.pop()
            inwork.discard(n.id)
            new_in = {}
            for (p, lab) in n.pred:
                for var, ds in OUT[p.id].items():
                    if var in new_in:
                        new_in[var] = new_in[var] | ds
                    else:
                        new_in[var] = ds
            IN[n.id] = new_in
            new_out = dict(new_in)
            byvar = {}
            for d in self.defs_at.get(n.id, []):
                byvar.setdefault(d.var, []).append(d)
            for var, ds in byvar.items():
                new_out[var] = frozenset(ds)
            if new_out != OUT[n.id]:
                OUT[n.id] = new_out
                for (m, lab) in n.succ:
                    if m.id not in inwork:
                        inwork.add(m.id)
                        work.append(m)
        self.IN = IN
        self.OUT = OUT

    def reaching(self, name, at, after=False):
        """Definitions of `name` reaching the entry (or exit) of CFG node `at`."""
        table = self.OUT if after else self.IN
        return sorted(table.get(at.id, {}).get(name, ()),
                      key=lambda d: (d.node.id if d.node else -1))

    # -- expansion -------------------------------------------------------
    def scope(self, at=None):
        return Scope(self.repo, self.fn.module, self.fn, self, at)

    def term(self, expr, at=None):
        """Term of `expr` evaluated at CFG node `at` (default: the node containing expr)."""
        if at is None:
            at = self.cfg.node_of(expr)
        key = (id(expr), at.id if at is not None else None)
        if key in self._memo:
            return self._memo[key]
        t = to_term(expr, self._comp_scope(expr, self.scope(at)))
        self._memo[key] = t
        return t

    def _comp_scope(self, expr, sc):
        """Bind the variables of comprehensions / lambdas that enclose `expr`."""
        chain = []
        n = getattr(expr, '_parent', None)
        child = expr
        while n is not None and not isinstance(n, ast.stmt):
            if isinstance(n, (ast.ListComp, ast.SetComp, ast.GeneratorExp, ast.DictComp)):
                chain.append((n, child))
            elif isinstance(n, ast.Lambda) and child is n.body:
                chain.append((n, child))
            child = n
            n = getattr(n, '_parent', None)
        for (comp, child) in reversed(chain):
            if isinstance(comp, ast.Lambda):
                sc = sc.child({a.arg: ('param', a.arg) for a in comp.args.args})
                continue
            for g in comp.generators:
                if child is g.iter and g is comp.generators[0]:
                    break
                it = to_term(g.iter, sc)
                loop_id = '{}:{}'.format(g.iter.lineno, g.iter.col_offset)
                sc = sc.child(_bind_target(g.target, ('elem', it, loop_id)))
                if child is g.iter or child in g.ifs:
                    break
        return sc

    def raw(self, expr):
        """Unexpanded term (local names stay ('name', id))."""
        return to_term(expr, self._comp_scope(expr, self.scope(None)))

    def _single_temps(self):
        """{name: defining expr} of locals assigned exactly once from a non-name expression."""
        if getattr(self, '_temps', None) is None:
            cnt, payload = {}, {}
            for ds in self.defs_at.values():
                for d in ds:
                    cnt[d.var] = cnt.get(d.var, 0) + 1
                    if d.kind == 'assign' and not d.index and not isinstance(d.payload, ast.Name):
                        payload[d.var] = d.payload
            params = set(d.var for d in self.param_defs)
            loads = {}
            for n in ast.walk(self.fn.node):
                if isinstance(n, ast.Name) and isinstance(n.ctx, ast.Load):
                    loads[n.id] = loads.get(n.id, 0) + 1
            # a temporary: assigned once, read once
            self._temps = {k: v for k, v in payload.items()
                           if cnt[k] == 1 and k not in params and loads.get(k, 0) == 1}
        return self._temps

    def raw_t(self, expr, depth=2):
        """raw() with single-assignment temporaries replaced by their defining expression."""
        t = self.raw(expr)
        temps = self._single_temps()
        for _ in range(depth):
            mapping = {}
            for s in subterms(t):
                if s[0] == 'name' and s[1] in temps:
                    mapping[s] = self.raw(temps[s[1]])
            if not mapping:
                break
            t = subst(t, mapping)
        return t

    def raw1(self, expr):
        """Like raw(), but a name that is a temporary (assigned once, read once, or the
        single-assignment value that is returned) is replaced by its defining expression."""
        if isinstance(expr, ast.Name) and self.is_local(expr.id):
            n_defs = sum(1 for ds in self.defs_at.values() for d in ds if d.var == expr.id)
            is_param = any(d.var == expr.id for d in self.param_defs)
            if n_defs == 1 and not is_param:
                for ds in self.defs_at.values():
                    for d in ds:
                        if d.var == expr.id and d.kind == 'assign' and not d.index and \
                                not isinstance(d.payload, ast.Name):
                            return self.raw(d.payload)
        return self.raw(expr)

    def value_of(self, name, at, after=False):
        defs = self.reaching(name, at, after=after)
        if not defs:
            return ('name', name)
        vals = []
        for d in defs:
            v = self._def_value(d)
            if v not in vals:
                vals.append(v)
        if len(vals) == 1:
            return vals[0]
        vals.sort(key=repr)
        return ('phi', tuple(vals))

    def _def_value(self, d):
        if d.kind == 'param':
            return ('param', d.var)
        key = ('def', id(d))
        if key in self._memo:
            return self._memo[key]
        if key in self._stack or len(self._stack) > self.MAX_DEPTH:
            return ('loop', d.var)
        self._stack.append(key)
        try:
            v = self._def_value_inner(d)
        finally:
            self._stack.pop()
        if not _mentions_loop_in_progress(v, self._stack):
            self._memo[key] = v
        return v

    def _def_value_inner(self, d):
        if d.kind == 'assign':
            v = to_term(d.payload, self.scope(d.node))
            return _project(v, d.index)
        if d.kind == 'aug':
            s = d.payload
            prev = self.value_of(d.var, d.node)
            return ('binop', _BINOPS[type(s.op)], prev, to_term(s.value, self.scope(d.node)))
        if d.kind == 'for':
            it = to_term(d.payload, self.scope(d.node))
            loop_id = '{}:{}'.format(d.payload.lineno, d.payload.col_offset)
            return _project(('elem', it, loop_id), d.index)
        if d.kind == 'with':
            return _project(('with', to_term(d.payload, self.scope(d.node))), d.index)
        if d.kind == 'exc':
            return ('unknown', 'exception')
        if d.kind == 'import':
            s = d.payload
            for al in s.names:
                nm = (al.asname or al.name).split('.')[0]
                if nm == d.var:
                    if isinstance(s, ast.Import):
                        return ('global', al.name if al.asname else nm)
                    base = s.module or ''
                    dotted = base + '.' + al.name
                    if self.repo is not None:
                        r = self.repo.resolve_dotted(dotted)
                        if r[0] == 'func':
                            f = r[1]
                            return ('global', '{}.{}'.format(f.module.name, f.name)
                                    if f.cls is None else
                                    '{}.{}.{}'.format(f.module.name, f.cls.name, f.name))
                        if r[0] == 'class':
                            return ('global', '{}.{}'.format(r[1].module.name, r[1].name))
                    return ('global', dotted)
            return ('unknown', 'import')
        if d.kind == 'localfn':
            fi = getattr(d.payload, '_fninfo', None)
            return ('localfn', fi.qname if fi else d.var)
        if d.kind == 'del':
            return ('unknown', 'deleted')
        return ('unknown', d.kind)


def _mentions_loop_in_progress(v, stack):
    return bool(stack) and _contains_kind(v, 'loop')


def _contains_kind(t, kind):
    if not isinstance(t, tuple):
        return False
    if t and t[0] == kind:
        return True
    return any(_contains_kind(x, kind) for x in t[1:] if isinstance(x, tuple))


def _project(value, path):
    if not path:
        return value
    for i in path:
        if value[0] in ('tuple', 'list') and isinstance(i, int) and i < len(value[1]) and \
                not any(x[0] == 'starred' for x in value[1]):
            value = value[1][i]
        elif value[0] == 'comp' and value[1] in ('list', 'gen') and isinstance(i, int) and \
                len(value[3]) == 1 and not value[3][0][1] and \
                value[3][0][0][0] in ('tuple', 'list') and i < len(value[3][0][0][1]) and \
                not any(x[0] == 'starred' for x in value[3][0][0][1]):
            # [f(k) for k in (a, b)][i]  ->  f(i-th item)
            it = value[3][0][0]
            mapping = {}
            for s in subterms(value[2]):
                if s[0] == 'elem' and s[1] == it:
                    mapping[s] = it[1][i]
            value = subst(value[2], mapping)
        else:
            value = ('item', value, i)
    return value


_EXP_CACHE = {}


def expander_of(repo, fn):
    key = id(fn.node)
    e = _EXP_CACHE.get(key)
    if e is None or e.fn is not fn:
        e = Expander(repo, fn)
        _EXP_CACHE[key] = e
    return e


def clear_cache():
    _EXP_CACHE.clear()


# ---------------------------------------------------------------------------
# Term utilities
# ---------------------------------------------------------------------------

def children(t):
    """Immediate sub-terms of t."""
    k = t[0]
    if k in ('const', 'name', 'param', 'global', 'unknown', 'loop', 'localfn', 'wild', 'var',
             'pname', 'closure'):
        return ()
    if k == 'attr':
        return (t[1],)
    if k in ('sub',):
        return (t[1], t[2])
    if k == 'slice':
        return (t[1], t[2], t[3])
    if k == 'call':
        return (t[1],) + tuple(t[2]) + tuple(v for (_, v) in t[3])
    if k == 'binop':
        return (t[2], t[3])
    if k == 'unary':
        return (t[2],)
    if k == 'cmp':
        return (t[2], t[3])
    if k == 'bool':
        return tuple(t[2])
    if k in ('tuple', 'list', 'set', 'phi'):
        return tuple(t[1])
    if k == 'dict':
        out = []
        for a, b in t[1]:
            out += [a, b]
        return tuple(out)
    if k == 'ifexp':
        return (t[1], t[2], t[3])
    if k == 'elem':
        return (t[1],)
    if k == 'item':
        return (t[1],)
    if k == 'comp':
        out = [t[2]]
        for it, ifs in t[3]:
            out.append(it)
            out += list(ifs)
        return tuple(out)
    if k == 'lambda':
        return (t[2],)
    if k in ('starred', 'with'):
        return (t[1],)
    return ()


def subterms(t):
    todo = [t]
    while todo:
        x = todo.pop()
        yield x
        todo.extend(children(x))


def match(t, p, b=None):
    """Match term t against pattern p; returns bindings dict or None."""
    b = {} if b is None else b
    return b if _match(t, p, b) else None


def _match(t, p, b):
    pk = p[0]
    if pk == 'wild':
        return True
    if pk == 'var':
        if p[1] in b:
            return b[p[1]] == t
        b[p[1]] = t
        return True
    if pk == 'pname':
        if t[0] in ('param', 'name') and t[1] == p[1]:
            return True
        if t[0] == 'global' and (t[1] == p[1] or t[1].endswith('.' + p[1])):
            return True
        if t[0] == 'localfn' and t[1].endswith('.' + p[1]):
            return True
        if t[0] == 'closure' and t[1] == p[1]:
            return True
        return False
    if pk == 'phi_any':
        # matches if t (or any phi alternative of t) matches the inner pattern
        alts = t[1] if t[0] == 'phi' else (t,)
        return any(_match(a, p[1], b) for a in alts)
    if t[0] == 'phi' and pk != 'phi':
        # a pattern matches a phi when it matches every alternative ("on all paths")
        saved = dict(b)
        for a in t[1]:
            if not _match(a, p, b):
                b.clear()
                b.update(saved)
                return False
        return True
    if pk == 'attr' and t[0] == 'global':
        # pattern  X.name  against a folded dotted global  a.b.X.name
        d = t[1]
        if not d.endswith('.' + p[2]):
            return False
        return _match(('global', d[:-(len(p[2]) + 1)]), p[1], b)
    if pk != t[0]:
        return False
    if pk == 'global':
        return t[1] == p[1] or t[1].endswith('.' + p[1])
    if pk == 'const':
        return t[1] == p[1] and type(t[1]) is type(p[1])
    if pk in ('name', 'param', 'loop', 'localfn', 'unknown'):
        return t[1:] == p[1:]
    if pk == 'attr':
        return t[2] == p[2] and _match(t[1], p[1], b)
    if pk == 'call':
        if not _match(t[1], p[1], b):
            return False
        pargs, targs = list(p[2]), list(t[2])
        rest_any = False
        if pargs and pargs[-1][0] == 'starred' and pargs[-1][1][0] in ('wild', 'var'):
            rest_any = True
            pargs.pop()
        if rest_any:
            if len(targs) < len(pargs):
                return False
        elif len(targs) != len(pargs):
            return False
        for ta, pa in zip(targs, pargs):
            if not _match(ta, pa, b):
                return False
        tk = dict((k, v) for (k, v) in t[3] if k is not None)
        for (k, v) in p[3]:
            if k is None:
                continue
            if k not in tk or not _match(tk[k], v, b):
                return False
        return True
    if pk in ('tuple', 'list', 'set', 'phi', 'bool'):
        ti = t[1] if pk != 'bool' else t[2]
        pi = p[1] if pk != 'bool' else p[2]
        if pk == 'bool' and t[1] != p[1]:
            return False
        if len(ti) != len(pi):
            return False
        return all(_match(a, c, b) for a, c in zip(ti, pi))
    if pk == 'cmp' and t[1] == p[1] and t[1] in ('==', '!='):
        saved = dict(b)
        if _match(t[2], p[2], b) and _match(t[3], p[3], b):
            return True
        b.clear()
        b.update(saved)
        if _match(t[2], p[3], b) and _match(t[3], p[2], b):
            return True
        b.clear()
        b.update(saved)
        return False
    if pk == 'binop' and p[1] in ('+', '*'):
        # IEEE addition and multiplication commute: match either operand order
        if t[1] != p[1]:
            return False
        saved = dict(b)
        if _match(t[2], p[2], b) and _match(t[3], p[3], b):
            return True
        b.clear()
        b.update(saved)
        if _match(t[2], p[3], b) and _match(t[3], p[2], b):
            return True
        b.clear()
        b.update(saved)
        return False
    if pk in ('binop', 'unary', 'cmp'):
        if t[1] != p[1]:
            return False
        return all(_match(a, c, b) for a, c in zip(t[2:], p[2:]))
    if pk == 'elem':
        return _match(t[1], p[1], b)
    if pk == 'item':
        return t[2] == p[2] and _match(t[1], p[1], b)
    if pk == 'dict':
        if len(t[1]) != len(p[1]):
            return False
        return all(_match(a[0], c[0], b) and _match(a[1], c[1], b) for a, c in zip(t[1], p[1]))
    if pk == 'comp':
        if t[1] != p[1] or len(t[3]) != len(p[3]):
            return False
        if not _match(t[2], p[2], b):
            return False
        for (ti, tifs), (pi, pifs) in zip(t[3], p[3]):
            if not _match(ti, pi, b):
                return False
        return True
    # generic structural
    tc, pc = children(t), children(p)
    if len(tc) != len(pc):
        return False
    return all(_match(a, c, b) for a, c in zip(tc, pc))


_PAT_CACHE = {}
ALIASES = {}      # canonical private helper name -> current name (sa.roles)
_ALIAS_RE = [None]


def set_aliases(d):
    import re
    ALIASES.clear()
    ALIASES.update(d or {})
    _PAT_CACHE.clear()
    if ALIASES:
        _ALIAS_RE[0] = re.compile(r'(?<![A-Za-z0-9_])(' + '|'.join(
            re.escape(k) for k in sorted(ALIASES, key=len, reverse=True)) + r')(?![A-Za-z0-9_])')
    else:
        _ALIAS_RE[0] = None


def alias(name):
    """Current name of a private helper known under its canonical name."""
    return ALIASES.get(name, name)


def apply_aliases(src):
    if _ALIAS_RE[0] is None:
        return src
    return _ALIAS_RE[0].sub(lambda m: ALIASES[m.group(1)], src)


def pattern(src):
    """Compile a pattern written as a Python expression.

    `_` matches anything, `_a` (one or two alphanumerics) is a metavariable, `np`/`ss`/`nx`
    denote the libraries, any other bare name matches a parameter / local / global of
    that name.  `f(*_)` accepts any further positional arguments; extra keyword
    arguments in the matched call are always accepted.
    """
    if isinstance(src, tuple):
        return src
    p = _PAT_CACHE.get(src)
    if p is None:
        e = ast.parse(apply_aliases(src), mode='eval').body
        p = to_term(e, Scope(pattern=True))
        _PAT_CACHE[src] = p
    return p


def match_any(t, pats):
    """Bindings of the first pattern in `pats` that matches t, else None ({} is a match)."""
    for p in pats:
        b = match(t, pattern(p))
        if b is not None:
            return b
    return None


def find(t, pat):
    """First sub-term of t matching pat -> (subterm, bindings) or None."""
    p = pattern(pat)
    for s in subterms(t):
        b = match(s, p)
        if b is not None:
            return s, b
    return None


def find_all(t, pat):
    p = pattern(pat)
    out = []
    for s in subterms(t):
        b = match(s, p)
        if b is not None:
            out.append((s, b))
    return out


def contains(t, pat):
    return find(t, pat) is not None


def leaves(t):
    """Leaf sources a term depends on."""
    out = set()
    for s in subterms(t):
        if s[0] in ('param', 'name', 'global', 'const', 'loop', 'unknown', 'closure', 'localfn'):
            out.add(s)
    return out


def depends_on(t, pat):
    return contains(t, pat)


def show(t, depth=0):
    """Compact human-readable rendering of a term."""
    k = t[0]
    if depth > 8:
        return '…'
    d = depth + 1
    if k == 'const':
        return repr(t[1])
    if k in ('name', 'param', 'pname'):
        return t[1]
    if k == 'closure':
        return t[1]
    if k == 'global':
        return t[1]
    if k == 'attr':
        return '{}.{}'.format(show(t[1], d), t[2])
    if k == 'sub':
        return '{}[{}]'.format(show(t[1], d), show(t[2], d))
    if k == 'slice':
        f = lambda x: '' if x == NONE else show(x, d)
        s = '{}:{}'.format(f(t[1]), f(t[2]))
        if t[3] != NONE:
            s += ':' + show(t[3], d)
        return s
    if k == 'call':
        args = [show(a, d) for a in t[2]] + ['{}={}'.format(n or '**', show(v, d)) for n, v in t[3]]
        return '{}({})'.format(show(t[1], d), ', '.join(args))
    if k == 'binop':
        return '({} {} {})'.format(show(t[2], d), t[1], show(t[3], d))
    if k == 'unary':
        return '({} {})'.format(t[1], show(t[2], d))
    if k == 'cmp':
        return '({} {} {})'.format(show(t[2], d), t[1], show(t[3], d))
    if k == 'bool':
        return '(' + (' %s ' % t[1]).join(show(x, d) for x in t[2]) + ')'
    if k in ('tuple', 'list', 'set'):
        br = {'tuple': '()', 'list': '[]', 'set': '{}'}[k]
        return br[0] + ', '.join(show(x, d) for x in t[1]) + br[1]
    if k == 'phi':
        return 'φ(' + ' | '.join(show(x, d) for x in t[1]) + ')'
    if k == 'dict':
        return '{' + ', '.join('{}: {}'.format(show(a, d), show(b, d)) for a, b in t[1]) + '}'
    if k == 'ifexp':
        return '({} if {} else {})'.format(show(t[2], d), show(t[1], d), show(t[3], d))
    if k == 'elem':
        return 'elem({})'.format(show(t[1], d))
    if k == 'item':
        return '{}#{}'.format(show(t[1], d), t[2])
    if k == 'comp':
        return '[{} for … in {}]'.format(show(t[2], d), ', '.join(show(g[0], d) for g in t[3]))
    if k == 'lambda':
        return 'λ{}: {}'.format(','.join(t[1]), show(t[2], d))
    if k == 'starred':
        return '*' + show(t[1], d)
    if k == 'wild':
        return '_'
    if k == 'var':
        return '_' + t[1]
    if k == 'loop':
        return 'loop<{}>'.format(t[1])
    if k == 'localfn':
        return 'fn<{}>'.format(t[1])
    if k == 'with':
        return 'with({})'.format(show(t[1], d))
    return '?{}'.format(k)


def subst(t, mapping):
    """Replace sub-terms (exact equality on keys) by mapping values."""
    if t in mapping:
        return mapping[t]
    k = t[0]
    if k in ('const', 'name', 'param', 'global', 'unknown', 'loop', 'localfn', 'closure'):
        return t
    if k == 'attr':
        return _mk_attr(subst(t[1], mapping), t[2])
    if k == 'sub':
        return ('sub', subst(t[1], mapping), subst(t[2], mapping))
    if k == 'slice':
        return ('slice',) + tuple(subst(x, mapping) for x in t[1:])
    if k == 'call':
        return ('call', subst(t[1], mapping), tuple(subst(a, mapping) for a in t[2]),
                tuple((n, subst(v, mapping)) for n, v in t[3]))
    if k in ('binop', 'cmp'):
        return (k, t[1], subst(t[2], mapping), subst(t[3], mapping))
    if k == 'unary':
        return (k, t[1], subst(t[2], mapping))
    if k == 'bool':
        return (k, t[1], tuple(subst(x, mapping) for x in t[2]))
    if k in ('tuple', 'list', 'set', 'phi'):
        return (k, tuple(subst(x, mapping) for x in t[1]))
    if k == 'dict':
        return (k, tuple((subst(a, mapping), subst(b, mapping)) for a, b in t[1]))
    if k == 'ifexp':
        return (k,) + tuple(subst(x, mapping) for x in t[1:])
    if k == 'elem':
        return (k, subst(t[1], mapping), t[2])
    if k == 'item':
        return (k, subst(t[1], mapping), t[2])
    if k == 'comp':
        return (k, t[1], subst(t[2], mapping),
                tuple((subst(it, mapping), tuple(subst(c, mapping) for c in ifs))
                      for it, ifs in t[3]))
    if k == 'lambda':
        return (k, t[1], subst(t[2], mapping))
    if k in ('starred', 'with'):
        return (k, subst(t[1], mapping))
    return t
