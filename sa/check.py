"""CLI:  python -m sa.check C06 --tier quick|thorough [--replay file] [--root DIR] [--list]

Exit 0: every obligation discharged (or only listed known findings).
Exit 1: `VIOLATION property=<id> replay=<path>` for every violation not listed.
Exit 2: `ANALYSIS-ERROR` - missing anchor, unrecognised shape, instance floor, self-test failure,
        or any internal error.  Never a silent pass, never reported as a violation.
"""

import argparse
import importlib
import json
import os
import sys
import time
import traceback

from . import AnalysisError, REPO_ROOT
from . import report


def run_property(prop, tier='quick', root=REPO_ROOT, overlay=None, verbose=False, only=None):
    """Run all obligations of `prop`. Returns a result dict (no printing, no files)."""
    from .model import Repo
    from .callgraph import CallGraph, verify_field_table
    from .rules import base
    from . import cfg as cfgmod, values as valmod
    cfgmod.clear_cache()
    valmod.clear_cache()
    repo = Repo(root=root, overlay=overlay)
    from . import roles, model as modelmod
    aliases = roles.discover_aliases(repo)
    valmod.set_aliases(aliases)
    modelmod.ALIASES.clear()
    modelmod.ALIASES.update(aliases)
    cg = CallGraph(repo)
    errors = []
    for p in verify_field_table(repo):
        errors.append({'obligation': 'field-table', 'error': p})
    importlib.import_module('sa.rules.' + prop)
    obligations = base.REGISTRY.get(prop, [])
    if not obligations:
        raise AnalysisError('no obligations registered for ' + prop)
    ctx = base.Ctx(repo, cg, prop, tier)
    status = {}
    for ob in obligations:
        if only and ob.id not in only:
            continue
        ctx.current = ob
        before = len(ctx.instances)
        try:
            ob.func(ctx)
        except AnalysisError as e:
            errors.append({'obligation': ob.id, 'error': '{}: {}'.format(type(e).__name__, e)})
            status[ob.id] = 'undecided'
            continue
        except RecursionError:
            errors.append({'obligation': ob.id, 'error': 'RecursionError'})
            status[ob.id] = 'undecided'
            continue
        except Exception as e:
            tb = traceback.format_exc(limit=6)
            errors.append({'obligation': ob.id,
                           'error': 'internal {}: {}'.format(type(e).__name__, e),
                           'traceback': tb})
            status[ob.id] = 'undecided'
            continue
        mine = ctx.instances[before:]
        if any(i['verdict'] == 'violated' for i in mine):
            status[ob.id] = 'violated'
        elif len(mine) < ob.floor:
            errors.append({'obligation': ob.id,
                           'error': 'instance floor not met: {} < {}'.format(len(mine), ob.floor)})
            status[ob.id] = 'undecided'
        else:
            status[ob.id] = 'discharged'
    ctx.current = None
    return {'repo': repo, 'cg': cg, 'ctx': ctx, 'obligations': obligations, 'status': status,
            'errors': errors}


def main(argv=None):
    ap = argparse.ArgumentParser(prog='sa.check')
    ap.add_argument('prop')
    ap.add_argument('--tier', default=os.environ.get('VERIF_TIER', 'quick'),
                    choices=['quick', 'thorough'])
    ap.add_argument('--root', default=REPO_ROOT)
    ap.add_argument('--replay')
    ap.add_argument('--list', action='store_true')
    ap.add_argument('--verbose', '-v', action='store_true')
    ap.add_argument('--no-evidence', action='store_true')
    ap.add_argument('--jobs', type=int, default=16)
    args = ap.parse_args(argv)
    t0 = time.time()
    prop = args.prop
    try:
        seed = int(os.environ.get('VERIF_SEED', '0') or 0)
    except ValueError:
        seed = 0
    only = None
    if args.replay:
        with open(args.replay) as f:
            rp = json.load(f)
        only = {rp['obligation']}
        args.verbose = True
        args.no_evidence = True
    try:
        res = run_property(prop, args.tier, root=args.root, only=only)
    except AnalysisError as e:
        print('ANALYSIS-ERROR property={} {}: {}'.format(prop, type(e).__name__, e))
        return 2
    except Exception as e:
        traceback.print_exc()
        print('ANALYSIS-ERROR property={} internal {}: {}'.format(prop, type(e).__name__, e))
        return 2
    ctx = res['ctx']
    obligations = res['obligations']
    status = res['status']
    errors = res['errors']
    known = report.load_known_findings()

    print('property {}  tier {}  root {}'.format(prop, args.tier, args.root))
    st = res['repo'].stats()
    print('analysed: {} modules, {} classes, {} functions parsed; {} functions examined by '
          'this property'.format(st['modules'], st['classes'], st['functions'],
                                 len(ctx.functions_touched)))
    violations, known_hits = [], []
    for ob in obligations:
        if only and ob.id not in only:
            continue
        insts = [i for i in ctx.instances if i['obligation'] == ob.id]
        print('  [{}] {} ({})  {}  instances={} floor={}'.format(
            status.get(ob.id, '?').upper(), ob.id, ob.templates, ob.title, len(insts), ob.floor))
        for i in insts:
            if i['verdict'] == 'violated' or args.verbose:
                print('      {} {}:{}  {}  role={}  {}'.format(
                    'VIOLATED' if i['verdict'] == 'violated' else 'ok', i['file'], i['line'],
                    i['construct'], i['role'], i['detail']))
    for i in ctx.instances:
        if i['verdict'] != 'violated':
            continue
        e = report.match_known(prop, i, known)
        if e is not None:
            known_hits.append(e)
            print('KNOWN-FINDING: property={} rule={} construct={} role={} -- {}'.format(
                prop, i['obligation'], i['construct'], i['role'], e.get('what', i['detail'])))
        else:
            violations.append(i)
    for e in errors:
        print('ANALYSIS-ERROR property={} obligation={} {}'.format(prop, e['obligation'],
                                                                  e['error']))
        if args.verbose and e.get('traceback'):
            print(e['traceback'])

    selftest = None
    if args.tier == 'thorough' and not args.replay:
        try:
            from . import selftest as st_mod
            selftest = st_mod.run(prop, root=args.root, jobs=args.jobs, baseline=res)
            print('selftest: {} must-fire variants ({} fired), {} neutral variants ({} silent)'
                  .format(selftest['must_fire'], selftest['fired'], selftest['neutral'],
                          selftest['silent']))
            for f in selftest['failures']:
                print('ANALYSIS-ERROR property={} SELFTEST-FAILED {}'.format(prop, f))
                errors.append({'obligation': 'selftest', 'error': f})
        except Exception as e:
            traceback.print_exc()
            errors.append({'obligation': 'selftest', 'error': 'internal {}: {}'.format(
                type(e).__name__, e)})
            print('ANALYSIS-ERROR property={} selftest internal error {}'.format(prop, e))

    for i in violations:
        path = report.write_replay(prop, i)
        print('VIOLATION property={} replay={}'.format(prop, path))
        print('    rule={} construct={} role={} at {}:{} -- {}'.format(
            i['obligation'], i['construct'], i['role'], i['file'], i['line'], i['detail']))

    wall = time.time() - t0
    if not args.no_evidence:
        cmd = '/venv/bin/python -m sa.check {} --tier {}'.format(prop, args.tier)
        report.write_evidence(prop, args.tier, seed, wall, ctx, obligations, status, violations,
                              known_hits, errors, res['repo'], res['cg'], selftest=selftest,
                              cmd=cmd)
    n_dis = sum(1 for o in obligations if status.get(o.id) == 'discharged')
    print('summary: {} obligations, {} discharged, {} instances, {} violations, {} known '
          'findings, {} analysis errors, {:.2f}s'.format(
              len(obligations), n_dis, len(ctx.instances), len(violations), len(known_hits),
              len(errors), wall))
    if violations:
        return 1
    if errors:
        return 2
    return 0


if __name__ == '__main__':
    try:
        rc = main()
    except SystemExit:
        raise
    except BaseException as e:   # never exit 1 on an internal error
        traceback.print_exc()
        print('ANALYSIS-ERROR internal {}: {}'.format(type(e).__name__, e))
        rc = 2
    sys.stdout.flush()
    sys.exit(rc)
