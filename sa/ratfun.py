"""Exact rational-function normal forms for formula terms (no evaluation, no solver).

A formula read off the syntax tree (a value term of `sa.values`) built from + - * / **int,
`numpy.exp` and `numpy.log` is normalised to a quotient of multivariate polynomials over Q.
Two formulas denote the same function iff their cross products are the same polynomial, which is
decided exactly by coefficient comparison.  `exp(y)` of the designated variable becomes the symbol
`u`, so logit-type transforms (rational in e^y) and their log-Jacobians are in reach; the derivative
with respect to y is u * d/du, computed on the normal form.

This is a syntax-directed computation over the formula AST: it never runs the analysed code.
"""

from fractions import Fraction


class Unsupported(Exception):
    pass


class DividesByZero(Unsupported):
    """The formula divides by a quantity that is identically zero."""


class Poly:
    """Multivariate polynomial: {((sym, exp), ...) sorted: Fraction}."""

    __slots__ = ('c',)

    def __init__(self, c=None):
        self.c = dict((k, v) for k, v in (c or {}).items() if v != 0)

    @staticmethod
    def const(v):
        return Poly({(): Fraction(v)})

    @staticmethod
    def sym(s):
        return Poly({((s, 1),): Fraction(1)})

    def __add__(self, o):
        c = dict(self.c)
        for k, v in o.c.items():
            c[k] = c.get(k, 0) + v
        return Poly(c)

    def __neg__(self):
        return Poly(dict((k, -v) for k, v in self.c.items()))

    def __sub__(self, o):
        return self + (-o)

    def __mul__(self, o):
        c = {}
        for k1, v1 in self.c.items():
            for k2, v2 in o.c.items():
                d = dict(k1)
                for s, e in k2:
                    d[s] = d.get(s, 0) + e
                k = tuple(sorted((s, e) for s, e in d.items() if e))
                c[k] = c.get(k, 0) + v1 * v2
        return Poly(c)

    def __eq__(self, o):
        return self.c == o.c

    def __hash__(self):
        return hash(tuple(sorted(self.c.items())))

    def is_zero(self):
        return not self.c

    def diff(self, s):
        c = {}
        for k, v in self.c.items():
            d = dict(k)
            e = d.get(s, 0)
            if not e:
                continue
            d[s] = e - 1
            k2 = tuple(sorted((a, b) for a, b in d.items() if b))
            c[k2] = c.get(k2, 0) + v * e
        return Poly(c)

    def symbols(self):
        return set(s for k in self.c for s, _ in k)

    def __repr__(self):
        if not self.c:
            return '0'
        out = []
        for k, v in sorted(self.c.items()):
            m = '*'.join(s if e == 1 else '{}^{}'.format(s, e) for s, e in k)
            out.append('{}{}'.format(v if (v != 1 or not m) else '', ('*' if v != 1 and m else '') + m))
        return ' + '.join(out)


class Rat:
    """Quotient of two polynomials; equality by cross multiplication."""

    __slots__ = ('n', 'd')

    def __init__(self, n, d=None):
        self.n = n
        self.d = d if d is not None else Poly.const(1)
        if self.d.is_zero():
            raise DividesByZero('division by the zero polynomial')

    @staticmethod
    def const(v):
        return Rat(Poly.const(v))

    @staticmethod
    def sym(s):
        return Rat(Poly.sym(s))

    def __add__(self, o):
        return Rat(self.n * o.d + o.n * self.d, self.d * o.d)

    def __sub__(self, o):
        return Rat(self.n * o.d - o.n * self.d, self.d * o.d)

    def __neg__(self):
        return Rat(-self.n, self.d)

    def __mul__(self, o):
        return Rat(self.n * o.n, self.d * o.d)

    def __truediv__(self, o):
        if o.n.is_zero():
            raise DividesByZero('division by zero')
        return Rat(self.n * o.d, self.d * o.n)

    def __pow__(self, k):
        if k < 0:
            return Rat.const(1) / (self ** (-k))
        r = Rat.const(1)
        for _ in range(k):
            r = r * self
        return r

    def same(self, o):
        return (self.n * o.d) == (o.n * self.d)

    def diff(self, s):
        return Rat(self.n.diff(s) * self.d - self.n * self.d.diff(s), self.d * self.d)

    def subst(self, s, r):
        """Replace symbol s by the rational function r."""
        def ev(p):
            tot = Rat.const(0)
            for k, v in p.c.items():
                t = Rat.const(v)
                for sy, e in k:
                    t = t * ((r ** e) if sy == s else (Rat.sym(sy) ** e))
                tot = tot + t
            return tot
        return ev(self.n) / ev(self.d)

    def symbols(self):
        return self.n.symbols() | self.d.symbols()

    def __repr__(self):
        return '({}) / ({})'.format(self.n, self.d)


_EXP = ('numpy.exp', 'math.exp')
_LOG = ('numpy.log', 'math.log')


def _is_call(t, names):
    return t[0] == 'call' and t[1][0] == 'global' and t[1][1] in names and len(t[2]) == 1 \
        and not t[3]


def _num(t):
    if t[0] == 'const' and isinstance(t[1], (int, float)) and not isinstance(t[1], bool):
        return Fraction(t[1])
    if t[0] == 'unary' and t[1] == '-':
        v = _num(t[2])
        return -v if v is not None else None
    return None


def to_rat(t, leaf, expvar=None):
    """Rational normal form of term t.

    leaf(term) -> symbol name or None.  `exp(<term whose leaf symbol is expvar>)` becomes 'u'.
    """
    s = leaf(t)
    if s is not None:
        if expvar is not None and s == expvar:
            raise Unsupported('the exponent variable occurs outside exp()')
        return Rat.sym(s)
    v = _num(t)
    if v is not None:
        return Rat.const(v)
    if t[0] == 'binop':
        op = t[1]
        if op == '**':
            k = _num(t[3])
            if k is None or k.denominator != 1:
                raise Unsupported('non-integer power')
            return to_rat(t[2], leaf, expvar) ** int(k)
        a, b = to_rat(t[2], leaf, expvar), to_rat(t[3], leaf, expvar)
        if op == '+':
            return a + b
        if op == '-':
            return a - b
        if op == '*':
            return a * b
        if op == '/':
            return a / b
        raise Unsupported('operator ' + op)
    if t[0] == 'unary' and t[1] == '-':
        return -to_rat(t[2], leaf, expvar)
    if t[0] == 'unary' and t[1] == '+':
        return to_rat(t[2], leaf, expvar)
    if _is_call(t, _EXP):
        return exp_of(t[2][0], leaf, expvar)
    raise Unsupported('not a rational formula: ' + repr(t)[:80])


def exp_of(t, leaf, expvar):
    """Rational normal form of exp(t): t is a signed integer combination of the exponent variable
    and of log(<rational>) terms."""
    s = leaf(t)
    if s is not None:
        if expvar is not None and s == expvar:
            return Rat.sym('u')
        raise Unsupported('exp of a variable that is not the exponent variable')
    v = _num(t)
    if v is not None:
        if v == 0:
            return Rat.const(1)
        raise Unsupported('exp of a non-zero constant')
    if _is_call(t, _LOG):
        return to_rat(t[2][0], leaf, expvar)
    if t[0] == 'unary' and t[1] == '-':
        return Rat.const(1) / exp_of(t[2], leaf, expvar)
    if t[0] == 'unary' and t[1] == '+':
        return exp_of(t[2], leaf, expvar)
    if t[0] == 'binop':
        op = t[1]
        if op == '+':
            return exp_of(t[2], leaf, expvar) * exp_of(t[3], leaf, expvar)
        if op == '-':
            return exp_of(t[2], leaf, expvar) / exp_of(t[3], leaf, expvar)
        if op == '*':
            for (k, x) in ((t[2], t[3]), (t[3], t[2])):
                kv = _num(k)
                if kv is not None and kv.denominator == 1:
                    return exp_of(x, leaf, expvar) ** int(kv)
        raise Unsupported('exponent with operator ' + op)
    raise Unsupported('exponent not in log-linear form: ' + repr(t)[:80])


def selfcheck():
    x, a, b, u = (Rat.sym(s) for s in 'xabu')
    one = Rat.const(1)
    # logit: u = (x-a)/(b-x);  back = a/(1+u) + b/(1+1/u)
    fwd = (x - a) / (b - x)
    back = a / (one + u) + b / (one + one / u)
    assert back.subst('u', fwd).same(x)
    jac = (b - a) / (one / u + Rat.const(2) + u)
    assert (u * back.diff('u')).same(jac)
    assert not (u * back.diff('u')).same(jac * u)
    # one-sided upper bound: x = b - 1/u -> dx/dy = 1/u
    back1 = b - one / u
    assert (u * back1.diff('u')).same(one / u)
    assert not (u * back1.diff('u')).same(u)
    return True


class LinForm:
    """Linear combination of opaque atoms with rational-function coefficients:
    sum_i c_i(symbols) * atom_i  (+ c_0 * 1).  Atoms are compared by a caller-supplied key."""

    def __init__(self):
        self.items = []     # [(key, coeff Rat)]   key None = the constant 1

    def add(self, key, c, same_key):
        for i, (k, v) in enumerate(self.items):
            if (k is None and key is None) or (k is not None and key is not None and
                                               same_key(k, key)):
                self.items[i] = (k, v + c)
                return
        self.items.append((key, c))

    def scaled(self, r):
        out = LinForm()
        out.items = [(k, v * r) for (k, v) in self.items]
        return out

    def plus(self, o, same_key, sign=1):
        out = LinForm()
        out.items = list(self.items)
        for (k, v) in o.items:
            out.add(k, v if sign > 0 else -v, same_key)
        return out

    def coeff(self, key, same_key):
        for (k, v) in self.items:
            if (k is None and key is None) or (k is not None and key is not None and
                                               same_key(k, key)):
                return v
        return Rat.const(0)

    def nonzero(self):
        return [(k, v) for (k, v) in self.items if not v.n.is_zero()]


def to_linform(t, leaf, atom, same_key):
    """Normalise t to a LinForm.  leaf(term) -> polynomial symbol or None;
    atom(term) -> atom key or None (opaque, e.g. log(..) / special-function calls)."""
    try:
        r = to_rat(t, lambda x: None if atom(x) is not None else leaf(x))
        lf = LinForm()
        lf.add(None, r, same_key)
        return lf
    except Unsupported:
        pass
    k = atom(t)
    if k is not None:
        lf = LinForm()
        lf.add(k, Rat.const(1), same_key)
        return lf
    if t[0] == 'unary' and t[1] == '-':
        return to_linform(t[2], leaf, atom, same_key).scaled(Rat.const(-1))
    if t[0] == 'binop':
        op = t[1]
        if op in '+-':
            a = to_linform(t[2], leaf, atom, same_key)
            b = to_linform(t[3], leaf, atom, same_key)
            return a.plus(b, same_key, 1 if op == '+' else -1)
        if op == '*':
            for (c, x) in ((t[2], t[3]), (t[3], t[2])):
                try:
                    r = to_rat(c, lambda y: None if atom(y) is not None else leaf(y))
                except Unsupported:
                    continue
                return to_linform(x, leaf, atom, same_key).scaled(r)
            raise Unsupported('product of two non-polynomial factors')
        if op == '/':
            r = to_rat(t[3], lambda y: None if atom(y) is not None else leaf(y))
            return to_linform(t[2], leaf, atom, same_key).scaled(Rat.const(1) / r)
    raise Unsupported('not a linear form: ' + repr(t)[:80])
