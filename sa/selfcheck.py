"""Engine unit self-check (MANIFEST.setup_cmd): CFG, dominators, reaching definitions, patterns.

Runs on small in-memory sources, independent of /repo.  Exit 0 when every assertion holds.
"""

import ast
import sys

from .model import Module, FunctionInfo
from .cfg import CFG
from .values import Expander, pattern, match, contains, show, find

SRC = '''
import numpy as np

class K:
    def f(self, a, b=None):
        o = self.objective
        if b is None:
            b = 3
        x = a + 1
        for k, v in self.d.items():
            v[:] = v[x]
        while a > 0:
            a -= 1
            if a == 5:
                break
        else:
            self.done()
        try:
            y = self.g(x)
        except ValueError:
            raise RuntimeError('no')
        if o.get('t') is None:
            return
        self.first()
        if y >= o['t']:
            self.second()
        return np.transpose(y).T
'''


SRC2 = '''
class G:
    def h(self, a, b, n: int = 0):
        if not a:
            raise ValueError('a')
        if b:
            raise ValueError('b')
        if a.x is not None and not b.y:
            self.both()
        n = n + 1
        k: int = 2
        v = 1 if a is not None else 2
        if b.z:
            return v
        raise KeyError(n)
'''


def _guard_policy_checks():
    """The guard policies the rules rely on (added late in the build round)."""
    from .rules.base import Ctx
    m = Module('m2', 'm2.py', SRC2)
    f = m.classes['G'].methods['h']

    class _Repo:
        modules = {'m2': m}
    ctx = Ctx(_Repo, None, 'SELF')
    ctx.touch = lambda fn: None
    out = []
    raises = sorted((n for n in ast.walk(f.node) if isinstance(n, ast.Raise)),
                    key=lambda n: n.lineno)
    g1 = [(show(t), p) for (t, p, _) in ctx.guards(f, raises[0])]
    out.append(('explicit not handed out unwrapped only', g1 == [('a', False)]))
    g2 = [(show(t), p) for (t, p, _) in ctx.guards(f, raises[1])]
    out.append(('second refusal does not inherit the first test', g2 == [('b', True)]))
    g2all = [(show(t), p) for (t, p, _) in ctx.guards(f, raises[1], all_dominating=True)]
    out.append(('all_dominating restores inherited tests', ('a', True) in g2all))
    g3 = [(show(t), p) for (t, p, _) in ctx.guards(f, raises[2])]
    out.append(('a raise keeps an earlier test whose other branch returns',
                ('b.z', False) in g3 and ('a', True) not in g3))
    both = [n for n in ast.walk(f.node) if isinstance(n, ast.Call) and
            getattr(n.func, 'attr', '') == 'both'][0]
    gb = [(show(t), p) for (t, p, _) in ctx.guards(f, both)]
    out.append(('atoms implied by a true conjunction',
                ('(a.x is None)', False) in gb and ('b.y', False) in gb))
    augs = [n for n in ast.walk(f.node) if isinstance(n, ast.AugAssign)]
    out.append(('counter normal form: n = n + 1 is read as n += 1', len(augs) == 1))
    anns = [n for n in ast.walk(f.node) if isinstance(n, ast.AnnAssign)]
    out.append(('annotated assignment read as plain assignment', not anns))
    out.append(('conditional term has a positive test',
                pattern('1 if a is not None else 2') == pattern('2 if a is None else 1')))
    return out


def main():
    m = Module('m', 'm.py', SRC)
    f = m.classes['K'].methods['f']
    cfg = CFG(f.node)
    ex = Expander(None, f)

    def stmt(pred):
        for n in ast.walk(f.node):
            if isinstance(n, ast.stmt) and pred(n):
                return n
        raise AssertionError('stmt not found')

    def call(name):
        for n in ast.walk(f.node):
            if isinstance(n, ast.Call) and isinstance(n.func, ast.Attribute) and n.func.attr == name:
                return n
        raise AssertionError(name)
    first = cfg.node_of(call('first'))
    second = cfg.node_of(call('second'))
    g = cfg.node_of(call('g'))
    done = cfg.node_of(call('done'))
    checks = []
    checks.append(('first dominates second', cfg.dominates(first, second)))
    checks.append(('second does not dominate return', not cfg.dominates(second, cfg.ret)))
    checks.append(('g must precede first', cfg.must_precede([g], first)))
    checks.append(('done does not dominate g (break path)', not cfg.dominates(done, g)))
    checks.append(('first does not post-dominate g (early return)',
                   not cfg.postdominates(first, g)))
    checks.append(('must_follow g -> first fails (early return)',
                   not cfg.must_follow(g, [first])))
    # guards
    gs = cfg.guards_of(second)
    terms = [(show(ex.term(t.ast, t)), pol) for (t, pol) in gs if t.kind == 'test']
    checks.append(('second guarded by t <= y', ("(self.objective['t'] <= self.g((a + 1)))", True)
                   in terms))
    checks.append(('second guarded by not (t is None)',
                   ("(self.objective['t'] is None)", False) in terms))
    # values
    asg = stmt(lambda n: isinstance(n, ast.Assign) and isinstance(n.targets[0], ast.Subscript))
    t = ex.term(asg.value)
    checks.append(('loop element term', show(t) == 'elem(self.d.items())#1[(a + 1)]'))
    ret = stmt(lambda n: isinstance(n, ast.Return) and n.value is not None)
    t = ex.term(ret.value)
    checks.append(('.T normalised', contains(t, 'np.transpose(np.transpose(_))')))
    bdef = ex.value_of('b', cfg.node_of(call('first')))
    checks.append(('phi of param and const', bdef[0] == 'phi' and ('const', 3) in bdef[1]))
    checks.append(('pattern metavariable', match(ex.term(call('g')), pattern('self.g(_a)'))
                   == {'a': ('binop', '+', ('param', 'a'), ('const', 1))}))
    checks.append(('mirrored comparison', pattern('x >= y') == pattern('y <= x')))
    checks.append(('slice normalisation', pattern('v[0:n]') == pattern('v[:n]')))
    checks.append(('get == subscript', pattern("o.get('k')") == pattern("o['k']")))
    checks.extend(_guard_policy_checks())
    bad = [name for (name, ok) in checks if not ok]
    for name, ok in checks:
        print('{} {}'.format('ok  ' if ok else 'FAIL', name))
    if bad:
        print('SELFCHECK-FAILED', bad)
        return 2
    print('engine self-check: {} assertions hold'.format(len(checks)))
    return 0


if __name__ == '__main__':
    sys.exit(main())
