"""Regenerate /verif/MANIFEST.json from the rule modules that exist (python -m sa.mkmanifest)."""

import json
import os

HERE = os.path.dirname(os.path.dirname(os.path.abspath(__file__)))

NOT_DECIDED = {
    'C01': 'that the returned rows equal the best draws for all data (ties, NaN, dtype, argsort '
           'stability): arithmetic on run-time arrays',
    'C02': 'bit-identity across clients and processes, purity of user operations, numpy\'s own '
           'reproducibility',
    'C03': 'value equality of outputs for arbitrary graphs (semantic equivalence over programs)',
    'C04': 'equality of results under every interleaving (needs schedule exploration), behaviour '
           'of the process pools themselves',
    'C05': 'equality of results with and without a pool (run-time values)',
    'C06': 'byte-level .npy conformity for every dtype, OS and memmap semantics, torn writes '
           'inside one low-level write',
    'C07': 'numeric equality of weights / covariance with an independent recomputation, prior '
           'positivity for arbitrary models',
    'C08': 'numeric agreement with scipy, shapes for scalar/vector/matrix inputs, gradient = '
           'derivative',
    'C09': 'NUTS and dual averaging as a correct sampler (only the pairing of tree ends, step '
           'signs and the textbook shape of leapfrog / slice / U-turn test are decided), moments '
           'on standard targets',
    'C10': 'equality of the fast GP path with GPy for general input_dim and evidence size (the GP '
           'equations and their derivatives are decided in the scalar specialisation only), '
           'GPy itself, hyper-parameter dependence',
    'C11': 'the numerical gradient of ExpIntVar (only its being taken of the class\'s own '
           'evaluate is decided), optimiser end points, schedule independence of the fit',
    'C12': 'numeric equality with scipy metrics for run-time arrays, floating-point error of the '
           'moment recurrence (its exactness over the reals is decided by induction)',
    'C13': 'monotonicity in alpha and rescale invariance of the quantile for all inputs '
           '(arithmetic on run-time values)',
    'C14': 'equality of seeded outputs between original, copy and re-loaded model',
    'C15': 'distinctness of sub-seeds for all seeds (a loop-invariant argument about a PRNG '
           'stream) - only its necessary scaffolding is decided',
    'C16': 'invariances of ESS / split R-hat for all inputs, the FFT autocovariance, JSON/CSV '
           'round-trip equality of values',
    'C17': 'least-squares optimality, affine invariance, numeric values',
    'C18': 'dtype handling, stdout parsing, subprocess behaviour',
    'C19': 'density integrates to one, orthonormality, numerical containment under rounding',
    'C20': 'the semi-parametric likelihood, the Warton / graphical-lasso estimators themselves '
           '(library code), numerical stability of the formulas',
}

TECHNIQUE = {
    'C01': 'AST/CFG/def-use static analysis: uniform-index (row consistency), sort-then-prefix '
           'ordering, comparison roles, linear index forms, attribute resolution'
           '; frozen guard table for buffer initialisation and output validation',
    'C02': 'static provenance and effect analysis over the call graph (seed dataflow, ambient '
           'RNG/clock reachability, ordered-iteration check)'
           '; frozen guard table for the choice of the batch generator'
           '; role-classified sweep of every read of max_parallel_batches / num_cores',
    'C03': 'static table agreement between compiler and loader, guard dominance, pairing of '
           'output/operation stores on all CFG paths'
           '; execute() dispatch (operation runs exactly under `operation in node`, value stored, operation dropped), execution order = filtered topological order under a complete cache key; frozen guard table for compilers and loaders (which side of which test adds an instruction node, edge or value)',
    'C04': 'static ordering and ownership analysis (FIFO pop, cancel-before-replan dominance, '
           'who-may-remove pending ids, schedule-taint of the objective)'
           '; role-classified sweep of every read of max_parallel_batches / num_cores; proposal draw followed into helpers (one draw of batch_size per batch)',
    'C05': 'static pairing / guard analysis of the pool loader, callback ownership and refusal '
           'guards'
           '; frozen guard table for the pool (serve / write / create store)'
           '; sibling cross-check of the two pool-naming sites (existing path refused on every path after naming)',
    'C06': 'path-sensitive abstract interpretation of file effects over the CFG of every '
           'NpyArray method (header/shape/disk relation automaton), who-may-touch-the-file scan'
           '; frozen guard table for the array state machine with the definitions of its state predicates'
           '; feasibility-filtered CFG paths to every store through the memory map (header write + flush first)',
    'C07': 'static polarity (sign lattice) of weight dependence, argument binding and ordering '
           'over the CFG'
           '; adaptive-threshold SMC round state machine (guard facts and ordering)'
           '; dtype-inheritance sweep over the sampler modules',
    'C08': 'static table agreement (pdf/mul, logpdf/add), domain agreement of product and '
           'override sets, column-order dataflow'
           "; package sweep for returned result buffers that inherit the dtype of a caller's array",
    'C09': 'static RNG provenance, guard dominance, polarity of the acceptance ratio, linear '
           'index forms of allocation and warm-up slice, pairing of NUTS tree ends with the '
           'state they update, formula-shape patterns for leapfrog and slice'
           '; NUTS selection conditions, ordering of the eligible counts against the draws that read them, boolean structure of the validity flags'
           '; dtype-inheritance sweep over the kernel module',
    'C10': 'static argument-role/unit typestate for norm.logcdf, cache-field table agreement, '
           'comparison roles of the bounds test, sibling agreement of fast and regular path on '
           '`noiseless`, syntax-directed symbolic differentiation with exact rational-function '
           'normalisation of the gradient formulas (no evaluation, no solver)'
           '; evidence update (guard table, rebuild arguments bound by name); dtype-inheritance sweep',
    'C11': 'static taint/sanitiser analysis of acquire() return values over all overrides, '
           'truncation-limit polarity, evidence pairing, MRO pairing of evaluate / '
           'evaluate_gradient, syntax-directed symbolic differentiation (exp, log, sqrt, normal '
           'cdf, Owen T) with exact normal forms for the closed-form acquisition gradients'
           '; control-flow rules of the optimisation loop (prior phase exactly t < 0, base refusal honoured, batch returned, optimisation recorded when it ran), zero-variance column skipped'
           '; definitions of the predicates the submission gate reads'
           '; objective / gradient pairing at every call of the optimiser wrapper (closures and wrappers resolved over value terms); dtype-inheritance sweep',
    'C12': 'static dataflow of distance arguments, append-only history ownership, unit '
           'typestate of the adaptive scale, def-use ordering of the Welford update, abstract '
           'interpretation of the straight-line update over sample-sum normal forms (inductive '
           'invariant of the batched moment recurrence, decided exactly)'
           '; forwarding of every popped metric argument guarded by presence only; key-test polarity of the re-sort'
           '; absolute-tolerance sweep; dtype-inheritance sweep',
    'C13': 'static comparison-role, uniform-permutation and lock-step counter analysis; exact '
           'normal forms over sample sums for the variance / ESS formulas (no evaluation)'
           '; defaults substituted only under `is None`, every exit returns the accumulated value (CFG fall-through check), pinned last cumulative weight'
           '; absolute-tolerance sweep; dtype-inheritance sweep',
    'C14': 'static ownership-after-copy analysis, snapshot-before-mutation ordering, guard '
           'dominance for the acyclicity check'
           '; rebinding (not in-place) observed setter that copy() relies on, setter loop without early exit, flag typestate of the observed-data move, reference fields after become()',
    'C15': 'static guard dominance, generator provenance, loop bookkeeping in linear form, '
           'call-site argument order'
           '; cache written back as a (generator, seen-set) pair under one test, matching starting pair',
    'C16': 'static column-order dataflow, uniform weight argument, slice/axis forms, '
           'getstate/setstate tuple agreement, exact normal forms of the R-hat / ESS formulas '
           'over the chain statistics'
           '; accessor wiring (name -> statistic of its own column, all exits return), save() dispatch per extension with the file opened from fname, FFT autocovariance form and lag progress of the ESS loop'
           '; absolute-tolerance sweep; dtype-inheritance sweep',
    'C17': 'static mask-index uniformity, opposite polarity of regressor operands, comparison '
           'roles of the partition'
           '; fit/adjust wiring (fields stored on every path, fit(X, y) argument order, accessors, returned sample) with argument binding by parameter name'
           '; absolute-tolerance sweep; dtype-inheritance sweep',
    'C18': 'static uniform-index analysis of the batch loop, copy-before-mutate, call ordering '
           'in run_external'
           '; constant detection / batch length / dtype-dependent result assembly of run_vectorized with feasibility-filtered CFG paths, data flow of the external command pipeline, exact default-parser condition'
           '; dtype-inheritance sweep',
    'C19': 'static frame typestate (box/world), polarity of centre shifts, sibling agreement of '
           'serial and parallel weight code, CFG must-pass rule for the line-search retract, '
           'library-fact rule for scalar conversions'
           '; verdict structure of contains(), bounded advance phase of the line search, lock-step of the region and distance-function lists (exhaustive and exclusive flag conditions), surrogate_used derived from the flags that choose the distance functions'
           '; argument binding of threshold and search parameters from the entry point to the line search; vectorised form of the membership test recognised, inverse rotation on every alternative of the value term; dtype-inheritance sweep',
    'C20': 'static space typestate (theta / theta-tilde) at transform call sites, case-table '
           'agreement of the three helpers, polarity of the MH log-ratio, exact rational-function '
           '/ log-linear normal forms of the transform, Jacobian and unbiased-estimator formulas '
           'read off the syntax tree (coefficient comparison, no evaluation, no solver), scale '
           'typestate with a feasibility-filtered CFG path rule'
           '; frozen guard table for the branches of the BSL step and the standard likelihood'
           '; sibling cross-check of the rejection sites (chain state carried forward as a whole); dtype-inheritance sweep',
}


KNOWN = {
    'C14': ' One obligation (C14-c, node-level state of AdaptiveDistance shared by copy()) is '
           'violated on the current tree and listed as a known finding (F29): the check prints '
           'KNOWN-FINDING lines for it and exits 0; any other violation exits 1.',
}


def main():
    props = [json.loads(l) for l in open(os.path.join(HERE, 'properties.jsonl'))]
    checks, na = [], []
    for p in props:
        pid = p['id']
        if os.path.exists(os.path.join(HERE, 'sa', 'rules', pid + '.py')):
            checks.append({
                'property_id': pid,
                'quick_cmd': '/venv/bin/python -m sa.check {} --tier quick'.format(pid),
                'thorough_cmd': '/venv/bin/python -m sa.check {} --tier thorough'.format(pid),
                'evidence_file': '/verif/evidence/{}.json'.format(pid),
                'replay_cmd_template': '/venv/bin/python -m sa.check {} --replay {{path}}'
                                       .format(pid),
                'engine': 'sa',
                'level_claimed': {
                    'category': 'other',
                    'text': 'Static analysis of /repo\'s current source: every structural '
                            'obligation (necessary condition) that {} imposes on the code is '
                            'discharged on all paths / call sites / overrides of the analysed '
                            'functions. This decides the shape of the code, not the run-time '
                            'behaviour; the thorough tier adds a both-ways self-test of the '
                            'rules (seeded must-fire edits and behaviour-preserving rewrites '
                            'generated from the live source).'.format(pid),
                    'design_ref': 'DESIGN.md section 5, ' + pid,
                },
                'level_note': 'Not decided by this technique: {}. Trusted base: Python ast, the '
                              'library facts listed in the evidence file, closed world over '
                              'package elfi.'.format(NOT_DECIDED[pid]) + KNOWN.get(pid, ''),
                'technique': TECHNIQUE[pid],
            })
        else:
            na.append({'property_id': pid,
                       'reason': 'check not built yet in this round (design in DESIGN.md '
                                 'section 5); not claimed until its rule module exists'})
    man = {
        'version': 1,
        'setup_cmd': '/venv/bin/python -m compileall -q sa && /venv/bin/python -m sa.selfcheck',
        'hooks': {
            'guard': 'ELFI_VERIF',
            'enable': 'no hooks: the analyser reads /repo\'s source and never runs it; the guard '
                      'is declared and unused',
            'baseline_off_cmd': 'cd /repo && /venv/bin/python -m pytest -ra -q -p no:cacheprovider '
                                '--timeout=900 --continue-on-collection-errors',
            'source_commits': [],
            'add_only': True,
        },
        'engines': [{
            'name': 'sa',
            'path': '/verif/sa',
            'serves_properties': [c['property_id'] for c in checks],
            'kind_free_text': 'repository-specific static analyser (stdlib ast): source model + '
                              'MRO, statement CFG with dominators, reaching-definition value '
                              'terms with pattern matching, call graph, per-property '
                              'obligations',
        }],
        'checks': checks,
        'not_applicable': na,
        'notes': 'Technique family: static analysis only. Exit 0 pass / exit 1 with VIOLATION '
                 'line / exit 2 ANALYSIS-ERROR (missing anchor, unrecognised shape, floor, '
                 'self-test). Known findings: /verif/known_findings.jsonl (one recorded and not repaired: F29 under C14, copy() of a model with an AdaptiveDistance node shares its node-level state; see DESIGN.md 12.7). Fixes of genuine '
                 'defects are the "fix:" commits in /repo, recorded there as fixed entries.',
    }
    with open(os.path.join(HERE, 'MANIFEST.json'), 'w') as f:
        json.dump(man, f, indent=1)
    print('MANIFEST.json: {} checks, {} not applicable'.format(len(checks), len(na)))


if __name__ == '__main__':
    main()
