"""Evidence writer, known-findings matcher, replay files."""

import hashlib
import json
import os

VERIF = os.path.dirname(os.path.dirname(os.path.abspath(__file__)))
EVIDENCE_DIR = os.path.join(VERIF, 'evidence')
REPLAY_DIR = os.path.join(EVIDENCE_DIR, 'replay')
KNOWN_FINDINGS = os.path.join(VERIF, 'known_findings.jsonl')


def load_known_findings(path=KNOWN_FINDINGS):
    out = []
    if not os.path.exists(path):
        return out
    with open(path) as f:
        for line in f:
            line = line.strip()
            if not line or line.startswith('#'):
                continue
            out.append(json.loads(line))
    return out


def finding_key(prop, inst):
    return (prop, inst['obligation'], inst['construct'], inst['role'])


def match_known(prop, inst, known):
    k = finding_key(prop, inst)
    for e in known:
        if e.get('status') != 'known':
            continue
        if (e.get('property'), e.get('rule'), e.get('construct'), e.get('role')) == k:
            return e
    return None


def write_replay(prop, inst):
    os.makedirs(REPLAY_DIR, exist_ok=True)
    h = hashlib.sha256(repr(finding_key(prop, inst)).encode()).hexdigest()[:10]
    path = os.path.join(REPLAY_DIR, '{}-{}-{}.json'.format(prop, inst['obligation'], h))
    with open(path, 'w') as f:
        json.dump({'property': prop, 'obligation': inst['obligation'],
                   'construct': inst['construct'], 'role': inst['role'],
                   'file': inst['file'], 'line': inst['line'], 'detail': inst['detail'],
                   'anchors': inst['anchors']}, f, indent=1)
    return path


def write_evidence(prop, tier, seed, wall_s, ctx, obligations, ob_status, violations, known_hits,
                   errors, repo, cg, selftest=None, cmd=''):
    os.makedirs(EVIDENCE_DIR, exist_ok=True)
    insts = ctx.instances
    n_ok = sum(1 for i in insts if i['verdict'] == 'ok')
    distinct = len(set((i['obligation'], i['construct'], i['role']) for i in insts))
    fns = sorted(ctx.functions_touched)
    relpaths = sorted(set(f.module.relpath for f in ctx.functions_touched.values()))
    cfg_nodes = 0
    from .cfg import cfg_of
    for f in ctx.functions_touched.values():
        cfg_nodes += len(cfg_of(f).nodes)
    discharged = sum(1 for o in obligations if ob_status.get(o.id) == 'discharged')
    samples = []
    seen_ob = set()
    for i in insts:
        if i['obligation'] in seen_ob and i['verdict'] == 'ok':
            continue
        seen_ob.add(i['obligation'])
        samples.append({'obligation': i['obligation'], 'construct': i['construct'],
                        'role': i['role'], 'verdict': i['verdict'],
                        'where': '{}:{}'.format(i['file'], i['line']), 'detail': i['detail']})
    ob_list = [{'id': o.id, 'templates': o.templates, 'title': o.title,
                'status': ob_status.get(o.id, 'not run'), 'floor': o.floor,
                'instances': sum(1 for i in insts if i['obligation'] == o.id),
                'necessary_because': o.necessary} for o in obligations]
    explanation = (
        'Static analysis of {} ({} functions in {} files, {} CFG nodes): {} obligations '
        '(structural necessary conditions of {}, templates {}), {} discharged, {} rule '
        'instances examined ({} ok, {} violated), {} analysis errors. The verdict is '
        'computed from the source text of /repo on this run (AST -> class hierarchy / call '
        'graph -> per-function CFG -> reaching-definition value terms); elfi is never '
        'executed. Numerical / behavioural clauses listed in DESIGN.md section 6 are not '
        'decided.'.format(
            ', '.join(relpaths[:6]) + (' …' if len(relpaths) > 6 else ''), len(fns),
            len(relpaths), cfg_nodes, len(obligations), prop,
            ' '.join(sorted(set(t for o in obligations for t in o.templates.split()))),
            discharged, len(insts), n_ok, len(insts) - n_ok, len(errors)))
    cov = {
        'explanation': explanation,
        'obligations': len(obligations),
        'discharged': discharged,
        'rule_instances': len(insts),
        'evaluations': max(len(insts), 1),
        'distinct_nontrivial': distinct,
        'rule': 'one evaluation = one rule instance (obligation x anchored construct x role); '
                'non-trivial = the construct was found in today\'s source and a fact was '
                'computed for it; distinct = distinct (obligation, construct, role) triples',
        'samples': samples[:60],
        'obligation_list': ob_list,
        'functions_analysed': fns,
        'cfg_nodes': cfg_nodes,
        'modules': repo.digests(relpaths),
        'repo_stats': repo.stats(),
        'call_sites': cg.resolution_stats(list(ctx.functions_touched.values())),
        'trusted_base': ctx.library_facts,
        'checker_cmd': cmd,
        'known_findings_matched': [
            {'rule': k['rule'], 'construct': k['construct'], 'role': k['role']}
            for k in known_hits],
        'analysis_errors': errors,
        'exhaustive': False,
    }
    if selftest is not None:
        cov['selftest'] = selftest
    ev = {
        'property_id': prop,
        'tier': tier,
        'seed': seed,
        'level': 'other',
        'coverage': cov,
        'assumptions': [
            'closed world over package elfi: no monkey-patching, exec or getattr-by-string on '
            'the analysed paths',
            'library semantics used by a rule are the explicit facts listed in trusted_base',
            'a discharged obligation is a necessary condition of the property, not the '
            'property: run-time values are not bounded by this technique',
        ] + ctx.assumptions,
        'wall_s': round(wall_s, 3),
        'violations': len(violations),
    }
    path = os.path.join(EVIDENCE_DIR, prop + '.json')
    tmp = path + '.tmp'
    with open(tmp, 'w') as f:
        json.dump(ev, f, indent=1, sort_keys=False, default=str)
    os.replace(tmp, path)
    return path
