"""Private helpers are addressed by role, never by name.

The rule modules write patterns with the helper names the repository uses today
(`self._init_new_round()`); this module discovers, on every run, which function currently
plays each role and installs an alias map (canonical name -> current name) that the pattern
compiler and the lookup functions consult.  Renaming, say, `_init_new_round` therefore does not
move an anchor: the role predicate finds the renamed function.

A role = (owner class or module, predicate over candidate functions).  If a function with the
canonical name still exists it is used directly; otherwise exactly one candidate must satisfy
the predicate, else the role is left unresolved (the rule that needs it reports AnchorMissing).
"""

import ast

from .model import own_nodes


def _src(f):
    try:
        return ast.unparse(f.node)
    except Exception:
        return ''


def _calls(f, name):
    return [n for n in own_nodes(f.node) if isinstance(n, ast.Call) and (
        (isinstance(n.func, ast.Attribute) and n.func.attr == name) or
        (isinstance(n.func, ast.Name) and n.func.id == name))]


def _returns(f):
    return [n for n in own_nodes(f.node) if isinstance(n, ast.Return) and n.value is not None]


def _has(f, text):
    return text in _src(f)


PI = 'elfi.methods.inference.parameter_inference:ParameterInference'
SMC = 'elfi.methods.inference.samplers:SMC'

# canonical name -> (owner, kind, predicate)   kind: 'method' (class + subclasses) | 'function'
ROLES = {
    '_allow_submit': (PI, 'method', lambda f: f.params[1:2] == ['batch_index'] and
                      _has(f, 'max_parallel_batches') and _has(f, 'num_pending')),
    '_has_batches_to_submit': (PI, 'method', lambda f: f.is_property and _has(f, 'num_pending')
                               and _has(f, "state['n_batches']")),
    '_objective_n_batches': (PI, 'method', lambda f: f.is_property and
                             _has(f, "'n_batches' in self.objective")),
    '_extract_result_kwargs': (PI, 'method', lambda f: _has(f, "'method_name'") and
                               _has(f, "'n_sim'") and not f.is_property),
    '_init_new_round': (SMC, 'method', lambda f: _has(f, 'set_objective(') and
                        _has(f, 'threshold=') and not _has(f, 'def set_objective')),
    '_set_rejection_round': (SMC, 'method', lambda f: bool(_calls(f, 'Rejection'))),
    '_extract_population': (SMC, 'method', lambda f: _has(f, '.extract_result()') and
                            f.name != 'extract_result' and _has(f, 'weights')),
    '_update_objective': (SMC, 'method', lambda f: _has(f, "objective['n_batches']") and
                          _has(f, 'n_batches for') and f.name != 'set_objective'),
    '_set_threshold': (SMC, 'method', lambda f: _has(f, "objective['thresholds'][") and
                       f.name not in ('set_objective',) and not f.is_property),
    '_compute_weights_means_and_cov': (SMC, 'method', lambda f: _has(f, 'weighted_var(') and
                                       _has(f, 'GMDistribution.logpdf(')),
    '_gm_params': (SMC, 'method', lambda f: f.is_property and _has(f, '_populations[-1]')),
    '_to_slice': ('elfi.store:ArrayStore', 'method',
                  lambda f: any(isinstance(r.value, ast.Call) and
                                getattr(r.value.func, 'id', None) == 'slice' for r in _returns(f))),
    '_init_from_file_header': ('elfi.store:NpyArray', 'method',
                               lambda f: _has(f, 'read_array_header_2_0')),
    '_prepare_header_data': ('elfi.store:NpyArray', 'method',
                             lambda f: _has(f, 'write_array_header_2_0') and
                             _has(f, '_header_bytes_to_write = ') and f.params == ['self']),
    '_write_header_data': ('elfi.store:NpyArray', 'method',
                           lambda f: f.params == ['self'] and _has(f, '_header_bytes_to_write')
                           and not _has(f, 'write_array_header_2_0') and
                           _has(f, 'self.fs.write(') and f.name not in ('flush', 'close')),
    '_get_store_for': ('elfi.store:OutputPool', 'method',
                       lambda f: f.params[1:2] == ['node'] and _has(f, 'self.stores[node] is None')),
    '_evaluate_pdf': ('elfi.model.extensions:ModelPrior', 'method',
                      lambda f: 'log' in f.all_params and _has(f, 'client.compute(')),
    '_to_batch': ('elfi.model.extensions:ModelPrior', 'method',
                  lambda f: _has(f, 'enumerate(self.parameter_names)') and
                  any(isinstance(r.value, ast.DictComp) for r in _returns(f))),
    '_add_distribution_nodes': ('elfi.model.augmenter', 'function',
                                lambda f: _has(f, 'getattr(') and _has(f, '.distribution') and
                                bool(_calls(f, 'Operation'))),
    '_make_gpy_instance': ('elfi.methods.bo.gpy_regression:GPyRegression', 'method',
                           lambda f: _has(f, 'GPy.models.GPRegression(')),
    '_init_gp': ('elfi.methods.bo.gpy_regression:GPyRegression', 'method',
                 lambda f: _has(f, 'self._kernel_is_default = ') and f.name != '__init__'),
    '_add_noise': ('elfi.methods.bo.acquisition:AcquisitionBase', 'method',
                   lambda f: _has(f, 'truncnorm.rvs(')),
    '_get_acquisition_index': ('elfi.methods.inference.bolfi:BayesianOptimization', 'method',
                               lambda f: f.params[1:2] == ['batch_index'] and _has(f, '//') and
                               _has(f, 'n_initial_evidence')),
    '_should_optimize': ('elfi.methods.inference.bolfi:BayesianOptimization', 'method',
                         lambda f: f.params == ['self'] and _has(f, "'last_GP_update'") and
                         _has(f, 'update_interval') and not f.is_property and
                         f.name not in ('__init__', 'update')),
    '_normalize_params': ('elfi.methods.utils:GMDistribution', 'method',
                          lambda f: bool(_calls(f, 'normalize_weights'))),
    '_adjust': ('elfi.methods.post_processing:RegressionAdjustment', 'method',
                lambda f: f.params[1:] == ['i', 'theta_i', 'regression_model']),
    '_input_variables': ('elfi.methods.post_processing:RegressionAdjustment', 'method',
                         lambda f: f.params[1:] == ['model', 'sample', 'summary_names'] and
                         f.name != 'fit'),
    '_init_samples_lazy': ('elfi.methods.inference.samplers:Rejection', 'method',
                           lambda f: f.params == ['self', 'batch'] and
                           _has(f, "self.state['samples'] = ") and _has(f, 'np.empty(')),
    '_update_distances': ('elfi.methods.inference.samplers:Rejection', 'method',
                          lambda f: bool(_calls(f, 'update_distance')) and f.params == ['self']),
    '_set_adaptive_quantile': ('elfi.methods.inference.samplers:AdaptiveThresholdSMC', 'method',
                               lambda f: _has(f, '.densratio.fit(') and f.params == ['self']),
    '_make_store_for': ('elfi.store:OutputPool', 'method',
                        lambda f: f.params == ['self', 'node'] and len(_returns(f)) == 1 and
                        not _has(f, 'self.stores[') and not f.is_property and
                        f.name not in ('get_store', 'has_store', 'remove_store')),
    '_get_mh_ratio': ('elfi.methods.inference.bsl:BSL', 'method',
                      lambda f: f.params == ['self'] and _has(f, "['logposterior'][n - 1]") and
                      _has(f, 'np.exp(') and not _has(f, 'self.likelihood(')),
    '_propagate_state': ('elfi.methods.inference.bsl:BSL', 'method',
                         lambda f: f.params == ['self'] and
                         _has(f, 'self.random_state.multivariate_normal(')),
    '_jacobian_logit_transform': ('elfi.methods.inference.bsl:BSL', 'method',
                                  lambda f: f.params[-2:] == ['theta_tilde', 'bound'] and
                                  _has(f, 'logJ') or (f.params[-1:] == ['bound'] and
                                                      _has(f, 'Jacobian') and
                                                      not _has(f, 'back'))),
    '_para_logit_back_transform': ('elfi.methods.inference.bsl:BSL', 'method',
                                   lambda f: f.params[-1:] == ['bound'] and
                                   _has(f, 'theta_tilde') and _has(f, 'np.exp(') and
                                   not _has(f, 'Jacobian') and not _has(f, 'logJ')),
    '_run': ('elfi.executor:Executor', 'method',
             lambda f: f.params[-1:] == ['G'] and _has(f, '.predecessors(') and
             _has(f, "['param']")),
    '_fit1': ('elfi.methods.post_processing:RegressionAdjustment', 'method',
              lambda f: _has(f, 'self._regression_model(') and len(f.params) == 3),
    '_pairs': ('elfi.methods.post_processing:RegressionAdjustment', 'method',
               lambda f: any(isinstance(n, ast.Yield) for n in own_nodes(f.node))),
    '_check_fitted': ('elfi.methods.post_processing:RegressionAdjustment', 'method',
                      lambda f: f.params == ['self'] and not f.is_property and
                      _has(f, 'raise ') and _has(f, 'self._fitted')),
    '_find_rotation_vector': ('elfi.methods.inference.romc:RegionConstructor', 'method',
                              lambda f: _has(f, 'np.linalg.eig(')),
    '_define_posterior': ('elfi.methods.inference.romc:ROMC', 'method',
                          lambda f: bool(_calls(f, 'RomcPosterior'))),
    '_pdf_unnorm_single_point': ('elfi.methods.posteriors:RomcPosterior', 'method',
                                 lambda f: _has(f, 'self.surrogate_used') and
                                 f.name != '__init__'),
    '_process_simulated': ('elfi.methods.inference.parameter_inference:ModelBased', 'method',
                           lambda f: f.params == ['self'] and not f.is_property and
                           (_has(f, 'self.likelihood(') or
                            (_has(f, 'NotImplementedError') and _has(f, 'simulated')))),
    '_init_round': ('elfi.methods.inference.parameter_inference:ModelBased', 'method',
                    lambda f: f.params == ['self'] and _has(f, "['n_sim_round'] = 0") and
                    not _has(f, "['n_batches'] = 0") and f.name != '__init__'),
    '_update_state_meta': ('elfi.methods.inference.samplers:Rejection', 'method',
                           lambda f: _has(f, "['threshold'] = ") and _has(f, "['accept_rate']") and
                           f.name not in ('set_objective', '__init__')),
}


def discover_aliases(repo):
    """{canonical private name: current name} for every role that could be resolved."""
    out = {}
    for canon, (owner, kind, pred) in ROLES.items():
        try:
            if kind == 'function':
                m = repo.modules.get(owner)
                if m is None:
                    continue
                if canon in m.functions:
                    continue
                cands = [f for f in m.functions.values() if _safe(pred, f)]
            else:
                mod, _, cname = owner.partition(':')
                m = repo.modules.get(mod)
                if m is None or cname not in m.classes:
                    continue
                c = m.classes[cname]
                classes = [c] + c.all_subclasses()
                if any(canon in k.methods or canon in k.setters for k in classes):
                    continue
                cands = []
                for k in classes:
                    for f in k.methods.values():
                        if _safe(pred, f) and f.name not in [x.name for x in cands]:
                            cands.append(f)
            names = sorted(set(f.name for f in cands))
            if len(names) == 1:
                out[canon] = names[0]
        except Exception:
            continue
    return out


def _safe(pred, f):
    try:
        return bool(pred(f))
    except Exception:
        return False
