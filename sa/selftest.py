"""Thorough tier: both-ways self-test of the rules on in-memory overlays of today's source.

* must-stay-silent - behaviour-preserving rewrites of every file the property examined
  (unparse round trip, alpha-renaming of locals, mirrored comparisons, slice normalisation,
  inserted no-op statements, temporaries for returned expressions).  Any change of verdict is
  a SELFTEST failure (exit 2): the rule would raise a false alarm on a refactoring.
* must-fire
  - every confirmed seeded change under /verif/seeded/<id>/ for this property (applied to a
    copy of the affected files; skipped when the patch no longer applies to today's tree);
  - anchor mutants: one-construct edits generated from the AST nodes that today's discharged
    instances are anchored on (comparison flipped, statement deleted, operands or arguments
    swapped, keyword dropped, index +-1, condition negated).  They measure how much of the
    anchored code the rules actually constrain; the kill ratio is reported, survivors listed.
No scratch copy is written: variants are {relpath: text} overlays handed to the analyser.
"""

import ast
import copy
import json
import os
import subprocess
import tempfile
import shutil
import time
from concurrent.futures import ProcessPoolExecutor

from . import REPO_ROOT
from . import report

HERE = os.path.dirname(os.path.dirname(os.path.abspath(__file__)))


# ---------------------------------------------------------------------------
# verdict of one variant (runs in a worker process)
# ---------------------------------------------------------------------------

def _verdict(args):
    prop, root, overlay = args
    from .check import run_property
    try:
        res = run_property(prop, 'quick', root=root, overlay=overlay)
    except Exception as e:
        return {'status': {}, 'violations': [], 'errors': ['{}: {}'.format(type(e).__name__, e)]}
    known = report.load_known_findings()
    viol = []
    for i in res['ctx'].instances:
        if i['verdict'] == 'violated' and report.match_known(prop, i, known) is None:
            viol.append((i['obligation'], i['construct'], i['role'], i['file'], i['line']))
    return {'status': dict(res['status']), 'violations': viol,
            'errors': ['{}: {}'.format(e['obligation'], e['error'][:160]) for e in res['errors']]}


# ---------------------------------------------------------------------------
# neutral rewrites
# ---------------------------------------------------------------------------

class _Mirror(ast.NodeTransformer):
    SW = {ast.Lt: ast.Gt, ast.Gt: ast.Lt, ast.LtE: ast.GtE, ast.GtE: ast.LtE, ast.Eq: ast.Eq,
          ast.NotEq: ast.NotEq}

    def visit_Compare(self, node):
        self.generic_visit(node)
        if len(node.ops) == 1 and type(node.ops[0]) in self.SW:
            return ast.Compare(left=node.comparators[0], ops=[self.SW[type(node.ops[0])]()],
                               comparators=[node.left])
        return node


class _SliceNorm(ast.NodeTransformer):
    def visit_Slice(self, node):
        self.generic_visit(node)
        if node.lower is None and node.upper is not None and node.step is None:
            return ast.Slice(lower=ast.Constant(value=0), upper=node.upper, step=None)
        return node


class _ReturnTemp(ast.NodeTransformer):
    def _block(self, stmts):
        out = []
        for s in stmts:
            if isinstance(s, ast.Return) and s.value is not None and \
                    not isinstance(s.value, (ast.Name, ast.Constant)):
                out.append(ast.Assign(targets=[ast.Name(id='_sa_ret', ctx=ast.Store())],
                                      value=s.value, lineno=0))
                out.append(ast.Return(value=ast.Name(id='_sa_ret', ctx=ast.Load())))
            else:
                out.append(s)
        return out

    def generic_visit(self, node):
        super().generic_visit(node)
        for fld in ('body', 'orelse', 'finalbody'):
            v = getattr(node, fld, None)
            if isinstance(v, list) and v and isinstance(v[0], ast.stmt) and \
                    not isinstance(node, ast.Lambda):
                setattr(node, fld, self._block(v))
        return node

    def visit_FunctionDef(self, node):
        # generators: `return x` is fine too; properties etc. unaffected
        return self.generic_visit(node)


class _NoOps(ast.NodeTransformer):
    def visit_FunctionDef(self, node):
        self.generic_visit(node)
        body = list(node.body)
        k = 1 if body and isinstance(body[0], ast.Expr) and \
            isinstance(getattr(body[0], 'value', None), ast.Constant) and \
            isinstance(body[0].value.value, str) else 0
        probe = ast.Assign(targets=[ast.Name(id='_sa_probe', ctx=ast.Store())],
                           value=ast.Constant(value=0), lineno=0)
        body.insert(k, probe)
        body.insert(k + 1, ast.Pass())
        node.body = body
        return node


class _Commute(ast.NodeTransformer):
    """a + b -> b + a and a * b -> b * a where one operand is a numeric constant or a call into
    numpy / scipy / math (IEEE addition and multiplication commute; sequences are left alone)."""

    @staticmethod
    def _numeric(e):
        if isinstance(e, ast.Constant) and isinstance(e.value, (int, float)) and \
                not isinstance(e.value, bool):
            return True
        if isinstance(e, ast.UnaryOp) and isinstance(e.op, ast.USub):
            return _Commute._numeric(e.operand)
        if isinstance(e, ast.Call):
            f = e.func
            while isinstance(f, ast.Attribute):
                f = f.value
            if isinstance(f, ast.Name) and f.id in ('np', 'numpy', 'ss', 'math', 'scipy'):
                return True
        return False

    @staticmethod
    def _sequence(e):
        return isinstance(e, (ast.List, ast.Tuple, ast.JoinedStr, ast.ListComp)) or \
            (isinstance(e, ast.Constant) and isinstance(e.value, (str, bytes)))

    def visit_BinOp(self, node):
        self.generic_visit(node)
        if isinstance(node.op, (ast.Add, ast.Mult)) and \
                (self._numeric(node.left) or self._numeric(node.right)) and \
                not (self._sequence(node.left) or self._sequence(node.right)) and \
                not (isinstance(node.op, ast.Add) and
                     (isinstance(node.left, ast.Constant) and isinstance(node.left.value, str))):
            return ast.BinOp(left=node.right, op=node.op, right=node.left)
        return node


class _DictLiteral(ast.NodeTransformer):
    """dict(a=1, b=2)  ->  {'a': 1, 'b': 2}"""

    def visit_Call(self, node):
        self.generic_visit(node)
        if isinstance(node.func, ast.Name) and node.func.id == 'dict' and not node.args and \
                node.keywords and all(k.arg is not None for k in node.keywords):
            return ast.Dict(keys=[ast.Constant(value=k.arg) for k in node.keywords],
                            values=[k.value for k in node.keywords])
        return node


class _HoistArg(ast.NodeTransformer):
    """f(g(x), y)  ->  _sa_arg = g(x); f(_sa_arg, y)   (first argument of statement-level
    calls only: evaluation order is preserved when the callee expression has no call)."""

    def _callee_pure(self, f):
        while isinstance(f, ast.Attribute):
            f = f.value
        return isinstance(f, ast.Name)

    def _block(self, stmts):
        out = []
        for s in stmts:
            call = None
            if isinstance(s, ast.Expr) and isinstance(s.value, ast.Call):
                call = s.value
            elif isinstance(s, ast.Assign) and isinstance(s.value, ast.Call) and \
                    len(s.targets) == 1 and isinstance(s.targets[0], ast.Name):
                call = s.value
            if call is not None and call.args and self._callee_pure(call.func) and \
                    isinstance(call.args[0], (ast.BinOp, ast.Call, ast.Subscript)) and \
                    not any(isinstance(x, (ast.Starred, ast.Lambda, ast.NamedExpr, ast.Yield,
                                           ast.GeneratorExp))
                            for x in ast.walk(call.args[0])):
                self.k = getattr(self, 'k', 0) + 1
                nm = '_sa_arg{}'.format(self.k)
                out.append(ast.Assign(targets=[ast.Name(id=nm, ctx=ast.Store())],
                                      value=call.args[0], lineno=0))
                call.args[0] = ast.Name(id=nm, ctx=ast.Load())
            out.append(s)
        return out

    def generic_visit(self, node):
        super().generic_visit(node)
        for fld in ('body', 'orelse', 'finalbody'):
            v = getattr(node, fld, None)
            if isinstance(v, list) and v and isinstance(v[0], ast.stmt) and \
                    not isinstance(node, (ast.Lambda, ast.Module, ast.ClassDef)):
                setattr(node, fld, self._block(v))
        return node


class _SwapIfElse(ast.NodeTransformer):
    def visit_If(self, node):
        self.generic_visit(node)
        if node.orelse and not (len(node.orelse) == 1 and isinstance(node.orelse[0], ast.If)):
            return ast.If(test=ast.UnaryOp(op=ast.Not(), operand=node.test), body=node.orelse,
                          orelse=node.body)
        return node


class _SplitAnd(ast.NodeTransformer):
    """if a and b: body        ->   if a:\n    if b: body       (no else branch)"""

    def visit_If(self, node):
        self.generic_visit(node)
        if not node.orelse and isinstance(node.test, ast.BoolOp) and \
                isinstance(node.test.op, ast.And) and len(node.test.values) == 2:
            inner = ast.If(test=node.test.values[1], body=node.body, orelse=[])
            return ast.If(test=node.test.values[0], body=[inner], orelse=[])
        return node


class _SwapAssigns(ast.NodeTransformer):
    """Swap two adjacent assignments `a = e1; b = e2` to distinct local names when both right-hand
    sides are call-free and neither reads the other's target."""

    @staticmethod
    def _simple(s):
        if not (isinstance(s, ast.Assign) and len(s.targets) == 1 and
                isinstance(s.targets[0], ast.Name)):
            return None
        for n in ast.walk(s.value):
            if isinstance(n, (ast.Call, ast.Await, ast.Yield, ast.YieldFrom, ast.NamedExpr,
                              ast.Lambda, ast.ListComp, ast.SetComp, ast.DictComp,
                              ast.GeneratorExp)):
                return None
        reads = set(n.id for n in ast.walk(s.value) if isinstance(n, ast.Name))
        return s.targets[0].id, reads

    def _block(self, stmts):
        out = list(stmts)
        i = 0
        while i + 1 < len(out):
            a, b = self._simple(out[i]), self._simple(out[i + 1])
            if a and b and a[0] != b[0] and a[0] not in b[1] and b[0] not in a[1]:
                out[i], out[i + 1] = out[i + 1], out[i]
                i += 2
            else:
                i += 1
        return out

    def generic_visit(self, node):
        super().generic_visit(node)
        for fld in ('body', 'orelse', 'finalbody'):
            v = getattr(node, fld, None)
            if isinstance(v, list) and v and isinstance(v[0], ast.stmt) and \
                    not isinstance(node, (ast.Module, ast.ClassDef)):
                setattr(node, fld, self._block(v))
        return node


class _AugExpand(ast.NodeTransformer):
    """x += e  ->  x = x + e   for a local name x and a scalar-looking e (a number, a name or a
    call-free arithmetic expression).  For immutable scalars (counters, offsets) the two are the
    same statement; targets that are arrays in this code base (subscripts, attributes, names
    assigned from array constructors) are left alone because `+=` on an array is an in-place
    operation and the expansion is not."""

    OPS = {ast.Add: ast.Add, ast.Sub: ast.Sub, ast.Mult: ast.Mult}

    def visit_FunctionDef(self, node):
        self.generic_visit(node)
        arrays = set()
        for n in ast.walk(node):
            if isinstance(n, ast.Assign) and len(n.targets) == 1 and \
                    isinstance(n.targets[0], ast.Name) and isinstance(n.value, ast.Call):
                arrays.add(n.targets[0].id)          # anything produced by a call may be an array
        params = set(a.arg for a in node.args.args + node.args.kwonlyargs)

        class T(ast.NodeTransformer):
            def visit_AugAssign(s, a):
                # counters kept in attributes / under constant keys: self.n += 1, d['k'] += 1
                def plain(t):
                    if isinstance(t, ast.Name):
                        return True
                    if isinstance(t, ast.Attribute):
                        return plain(t.value)
                    if isinstance(t, ast.Subscript):
                        return isinstance(t.slice, ast.Constant) and plain(t.value)
                    return False
                if not isinstance(a.target, ast.Name) and plain(a.target) and \
                        type(a.op) in (ast.Add, ast.Sub) and isinstance(a.value, ast.Constant) \
                        and isinstance(a.value.value, int) and \
                        not isinstance(a.value.value, bool):
                    import copy as _copy
                    load = _copy.deepcopy(a.target)
                    for x in ast.walk(load):
                        if hasattr(x, 'ctx'):
                            x.ctx = ast.Load()
                    return ast.copy_location(ast.Assign(
                        targets=[a.target],
                        value=ast.BinOp(left=load, op=type(a.op)(), right=a.value)), a)
                if isinstance(a.target, ast.Name) and type(a.op) in _AugExpand.OPS and \
                        a.target.id not in arrays and a.target.id not in params and \
                        isinstance(a.value, ast.Constant) and \
                        isinstance(a.value.value, (int, float)) and \
                        not isinstance(a.value.value, bool):
                    return ast.copy_location(ast.Assign(
                        targets=[ast.Name(id=a.target.id, ctx=ast.Store())],
                        value=ast.BinOp(left=ast.Name(id=a.target.id, ctx=ast.Load()),
                                        op=type(a.op)(), right=a.value)), a)
                return a

            def visit_FunctionDef(s, f):
                return f if f is not node else s.generic_visit(f)
        return T().visit(node)


class _ContinueToIf(ast.NodeTransformer):
    """loop body  `if c: continue` + rest   ->   `if not c: rest`   (c without else branch; the
    guard is the first such statement of the body and rest is not empty)."""

    def _rewrite(self, body):
        for i, st in enumerate(body):
            if isinstance(st, ast.If) and not st.orelse and len(st.body) == 1 and \
                    isinstance(st.body[0], ast.Continue) and i + 1 < len(body):
                rest = body[i + 1:]
                new_if = ast.If(test=ast.UnaryOp(op=ast.Not(), operand=st.test), body=rest,
                                orelse=[])
                return body[:i] + [ast.copy_location(new_if, st)]
        return body

    def visit_For(self, node):
        self.generic_visit(node)
        node.body = self._rewrite(node.body)
        return node

    def visit_While(self, node):
        self.generic_visit(node)
        node.body = self._rewrite(node.body)
        return node


class _KeysMembership(ast.NodeTransformer):
    """`k in d.keys()` / `k not in d.keys()`  ->  `k in d` / `k not in d`."""

    def visit_Compare(self, node):
        self.generic_visit(node)
        if len(node.ops) == 1 and isinstance(node.ops[0], (ast.In, ast.NotIn)):
            c = node.comparators[0]
            if isinstance(c, ast.Call) and isinstance(c.func, ast.Attribute) and \
                    c.func.attr == 'keys' and not c.args and not c.keywords:
                node.comparators = [c.func.value]
        return node


class _SwapIfExp(ast.NodeTransformer):
    """a if c else b  ->  b if not c else a"""

    def visit_IfExp(self, node):
        self.generic_visit(node)
        return ast.copy_location(ast.IfExp(test=ast.UnaryOp(op=ast.Not(), operand=node.test),
                                           body=node.orelse, orelse=node.body), node)


class _DropElseAfterReturn(ast.NodeTransformer):
    """if c: ...return/raise  else: rest   ->   if c: ...return/raise ; rest   (last statement of
    the if-body leaves the function; only where the `if` is the last statement of its block, so
    that nothing else follows the moved statements)."""

    def _block(self, stmts):
        if stmts and isinstance(stmts[-1], ast.If):
            st = stmts[-1]
            if st.orelse and st.body and isinstance(st.body[-1], (ast.Return, ast.Raise)) and \
                    not (len(st.orelse) == 1 and isinstance(st.orelse[0], ast.If)):
                new_if = ast.copy_location(ast.If(test=st.test, body=st.body, orelse=[]), st)
                return stmts[:-1] + [new_if] + st.orelse
        return stmts

    def visit_FunctionDef(self, node):
        self.generic_visit(node)
        node.body = self._block(node.body)
        return node


class _Annotate(ast.NodeTransformer):
    """x = e  ->  x: object = e   for single-name targets inside functions."""

    def __init__(self):
        self.depth = 0

    def visit_FunctionDef(self, node):
        self.depth += 1
        self.generic_visit(node)
        self.depth -= 1
        return node

    def visit_Assign(self, node):
        if self.depth and len(node.targets) == 1 and isinstance(node.targets[0], ast.Name):
            return ast.copy_location(ast.AnnAssign(
                target=node.targets[0], annotation=ast.Name(id='object', ctx=ast.Load()),
                value=node.value, simple=1), node)
        return node


class _MergeIfs(ast.NodeTransformer):
    """if a:\n    if b: body   ->   if a and b: body          (no else branches)"""

    def visit_If(self, node):
        self.generic_visit(node)
        if not node.orelse and len(node.body) == 1 and isinstance(node.body[0], ast.If) and \
                not node.body[0].orelse:
            inner = node.body[0]
            return ast.If(test=ast.BoolOp(op=ast.And(), values=[node.test, inner.test]),
                          body=inner.body, orelse=[])
        return node


def _alpha_rename(tree):
    """Rename every local (non-parameter) variable of every function to <name>_q."""
    for fn in [n for n in ast.walk(tree) if isinstance(n, (ast.FunctionDef, ast.AsyncFunctionDef))]:
        params = set()
        declared = set()
        for n in ast.walk(fn):
            if isinstance(n, (ast.FunctionDef, ast.AsyncFunctionDef, ast.Lambda)):
                a = n.args
                for x in a.posonlyargs + a.args + a.kwonlyargs:
                    params.add(x.arg)
                if a.vararg:
                    params.add(a.vararg.arg)
                if a.kwarg:
                    params.add(a.kwarg.arg)
                if n is not fn and hasattr(n, 'name'):
                    declared.add(n.name)
            elif isinstance(n, (ast.Global, ast.Nonlocal)):
                declared.update(n.names)
            elif isinstance(n, ast.ClassDef):
                declared.add(n.name)
            elif isinstance(n, (ast.Import, ast.ImportFrom)):
                for al in n.names:
                    declared.add((al.asname or al.name).split('.')[0])
            elif isinstance(n, ast.ExceptHandler) and n.name:
                declared.add(n.name)
        stores = set()
        for n in ast.walk(fn):
            if isinstance(n, ast.Name) and isinstance(n.ctx, (ast.Store, ast.Del)):
                stores.add(n.id)
        ren = set(x for x in stores if x not in params and x not in declared and
                  not x.endswith('_q') and not x.startswith('__'))
        for n in ast.walk(fn):
            if isinstance(n, ast.Name) and n.id in ren:
                n.id = n.id + '_q'
    return tree


def neutral_variants(text):
    """[(name, new text)] behaviour-preserving rewrites of a module source."""
    out = []
    try:
        out.append(('unparse-roundtrip', ast.unparse(ast.parse(text)) + '\n'))
        out.append(('alpha-rename-locals', ast.unparse(_alpha_rename(ast.parse(text))) + '\n'))
        t = ast.fix_missing_locations(_Mirror().visit(ast.parse(text)))
        out.append(('mirror-comparisons', ast.unparse(t) + '\n'))
        t = ast.fix_missing_locations(_SliceNorm().visit(ast.parse(text)))
        out.append(('slice-normalise', ast.unparse(t) + '\n'))
        t = ast.fix_missing_locations(_NoOps().visit(ast.parse(text)))
        out.append(('insert-noops', ast.unparse(t) + '\n'))
        t = ast.fix_missing_locations(_ReturnTemp().visit(ast.parse(text)))
        out.append(('return-temporaries', ast.unparse(t) + '\n'))
        t = ast.fix_missing_locations(_SwapIfElse().visit(ast.parse(text)))
        out.append(('swap-if-else', ast.unparse(t) + '\n'))
        t = ast.fix_missing_locations(_DictLiteral().visit(ast.parse(text)))
        out.append(('dict-literal', ast.unparse(t) + '\n'))
        t = ast.fix_missing_locations(_HoistArg().visit(ast.parse(text)))
        out.append(('hoist-first-argument', ast.unparse(t) + '\n'))
        t = ast.fix_missing_locations(_Commute().visit(ast.parse(text)))
        out.append(('commute-arithmetic', ast.unparse(t) + '\n'))
        t = ast.fix_missing_locations(_SplitAnd().visit(ast.parse(text)))
        out.append(('split-and-conditions', ast.unparse(t) + '\n'))
        t = ast.fix_missing_locations(_MergeIfs().visit(ast.parse(text)))
        out.append(('merge-nested-ifs', ast.unparse(t) + '\n'))
        t = ast.fix_missing_locations(_SwapAssigns().visit(ast.parse(text)))
        out.append(('swap-independent-assignments', ast.unparse(t) + '\n'))
        t = ast.fix_missing_locations(_ContinueToIf().visit(ast.parse(text)))
        out.append(('continue-to-nested-if', ast.unparse(t) + '\n'))
        t = ast.fix_missing_locations(_SwapIfExp().visit(ast.parse(text)))
        out.append(('swap-conditional-expression', ast.unparse(t) + '\n'))
        t = ast.fix_missing_locations(_DropElseAfterReturn().visit(ast.parse(text)))
        out.append(('drop-else-after-return', ast.unparse(t) + '\n'))
        t = ast.fix_missing_locations(_Annotate().visit(ast.parse(text)))
        out.append(('annotate-local-assignments', ast.unparse(t) + '\n'))
        t = ast.fix_missing_locations(_KeysMembership().visit(ast.parse(text)))
        out.append(('keys-membership', ast.unparse(t) + '\n'))
        t = ast.fix_missing_locations(_AugExpand().visit(ast.parse(text)))
        out.append(('expand-augmented-assignment', ast.unparse(t) + '\n'))
    except Exception as e:   # pragma: no cover
        out.append(('rewrite-error', None))
    return out


def rename_private_functions(repo, files):
    """Overlay that renames every private function / method defined in `files` (and every
    reference to it anywhere in the package) from _name to _name_q."""
    names = set()
    for rel in files:
        m = repo.by_relpath.get(rel)
        if m is None:
            continue
        for f in m.all_functions:
            n = f.name
            if n.startswith('_') and not n.startswith('__') and f.outer is None:
                names.add(n)
    if not names:
        return {}
    # never rename a name that is also a field / keyword used as plain attribute data
    ov = {}
    for rel, m in repo.by_relpath.items():
        if not any(n in m.text for n in names):
            continue
        tree = ast.parse(m.text)
        changed = False
        for n in ast.walk(tree):
            if isinstance(n, (ast.FunctionDef, ast.AsyncFunctionDef)) and n.name in names:
                n.name += '_q'
                changed = True
            elif isinstance(n, ast.Attribute) and n.attr in names:
                n.attr += '_q'
                changed = True
            elif isinstance(n, ast.Name) and n.id in names:
                n.id += '_q'
                changed = True
        if changed:
            ov[rel] = ast.unparse(tree) + '\n'
    return ov


# ---------------------------------------------------------------------------
# anchor mutants
# ---------------------------------------------------------------------------

FLIP = {ast.Lt: ast.LtE, ast.LtE: ast.Lt, ast.Gt: ast.GtE, ast.GtE: ast.Gt, ast.Eq: ast.NotEq,
        ast.NotEq: ast.Eq, ast.Is: ast.IsNot, ast.IsNot: ast.Is, ast.In: ast.NotIn,
        ast.NotIn: ast.In}
SIMPLE_STMTS = (ast.Assign, ast.AugAssign, ast.Expr, ast.Raise, ast.Delete, ast.AnnAssign)


def _locate(tree, a):
    want = a['node']
    for n in ast.walk(tree):
        if type(n).__name__ == want and getattr(n, 'lineno', None) == a['line'] and \
                getattr(n, 'col_offset', None) == a['col']:
            return n
    return None


def _parent_map(tree):
    pm = {}
    for n in ast.walk(tree):
        for c in ast.iter_child_nodes(n):
            pm[id(c)] = n
    return pm


def _replace_stmt(tree, pm, stmt, new_stmts):
    p = pm.get(id(stmt))
    if p is None:
        return False
    for fld in ('body', 'orelse', 'finalbody'):
        v = getattr(p, fld, None)
        if isinstance(v, list) and stmt in v:
            i = v.index(stmt)
            v[i:i + 1] = new_stmts
            return True
    if isinstance(p, ast.Try):
        for h in p.handlers:
            if stmt in h.body:
                i = h.body.index(stmt)
                h.body[i:i + 1] = new_stmts
                return True
    return False


def anchor_mutants(text, anchors, relpath):
    """[(description, new text)] one-construct edits at the given anchors of one file."""
    out = []
    seen = set()

    def emit(desc, tree):
        try:
            ast.fix_missing_locations(tree)
            new = ast.unparse(tree) + '\n'
            compile(new, relpath, 'exec')
        except Exception:
            return
        if new not in seen and new != base_unparsed:
            seen.add(new)
            out.append((desc, new))
    base_unparsed = ast.unparse(ast.parse(text)) + '\n'
    done = set()
    for a in anchors:
        key = (a['node'], a['line'], a['col'])
        if key in done:
            continue
        done.add(key)
        probe = _locate(ast.parse(text), a)
        if probe is None or isinstance(probe, (ast.FunctionDef, ast.AsyncFunctionDef, ast.ClassDef,
                                                ast.Module)):
            continue
        where = '{}:{} {}'.format(relpath, a['line'], a['node'])

        def fresh():
            t = ast.parse(text)
            return t, _locate(t, a), _parent_map(t)
        # comparisons
        cmp_nodes = [probe] if isinstance(probe, ast.Compare) else (
            [probe.test] if isinstance(probe, (ast.If, ast.While)) and
            isinstance(probe.test, ast.Compare) else [])
        if cmp_nodes and len(cmp_nodes[0].ops) == 1 and type(cmp_nodes[0].ops[0]) in FLIP:
            t, n, pm = fresh()
            c = n if isinstance(n, ast.Compare) else n.test
            c.ops = [FLIP[type(c.ops[0])]()]
            emit(where + ' cmp-flip', t)
        if isinstance(probe, (ast.If, ast.While)):
            t, n, pm = fresh()
            n.test = ast.UnaryOp(op=ast.Not(), operand=n.test)
            emit(where + ' cond-negate', t)
            if isinstance(probe, ast.If) and not probe.orelse:
                t, n, pm = fresh()
                if _replace_stmt(t, pm, n, n.body):
                    emit(where + ' guard-dropped', t)
        # statements
        stmt = probe if isinstance(probe, ast.stmt) else None
        if stmt is None:
            t0 = ast.parse(text)
            n0 = _locate(t0, a)
            pm0 = _parent_map(t0)
            s = n0
            while s is not None and not isinstance(s, ast.stmt):
                s = pm0.get(id(s))
            if isinstance(s, SIMPLE_STMTS):
                if _replace_stmt(t0, pm0, s, [ast.Pass()]):
                    emit(where + ' enclosing-stmt-deleted', t0)
        elif isinstance(stmt, SIMPLE_STMTS):
            t, n, pm = fresh()
            if _replace_stmt(t, pm, n, [ast.Pass()]):
                emit(where + ' stmt-deleted', t)
        if isinstance(probe, ast.AugAssign) and isinstance(probe.op, (ast.Add, ast.Sub)):
            t, n, pm = fresh()
            n.op = ast.Sub() if isinstance(n.op, ast.Add) else ast.Add()
            emit(where + ' aug-flip', t)
        # calls
        call = probe if isinstance(probe, ast.Call) else (
            probe.value if isinstance(probe, (ast.Expr, ast.Assign)) and
            isinstance(getattr(probe, 'value', None), ast.Call) else None)
        if call is not None:
            plain = [x for x in call.args if not isinstance(x, ast.Starred)]
            if len(plain) >= 2 and len(plain) == len(call.args):
                t, n, pm = fresh()
                c = n if isinstance(n, ast.Call) else n.value
                c.args[0], c.args[1] = c.args[1], c.args[0]
                emit(where + ' args-swapped', t)
            for ki, kw in enumerate(call.keywords[:3]):
                if kw.arg is None:
                    continue
                t, n, pm = fresh()
                c = n if isinstance(n, ast.Call) else n.value
                del c.keywords[ki]
                emit(where + ' kw-{}-dropped'.format(kw.arg), t)
        # arithmetic in the anchored node (first level)
        val = getattr(probe, 'value', None) if isinstance(probe, (ast.Assign, ast.AugAssign,
                                                                  ast.Return)) else (
            probe if isinstance(probe, ast.BinOp) else None)
        if isinstance(val, ast.BinOp) and isinstance(val.op, (ast.Sub, ast.Div)):
            t, n, pm = fresh()
            v = n.value if not isinstance(n, ast.BinOp) else n
            v.left, v.right = v.right, v.left
            emit(where + ' operands-swapped', t)
        if isinstance(val, ast.BinOp) and isinstance(val.op, (ast.Add, ast.Sub)):
            t, n, pm = fresh()
            v = n.value if not isinstance(n, ast.BinOp) else n
            v.op = ast.Sub() if isinstance(v.op, ast.Add) else ast.Add()
            emit(where + ' plus-minus', t)
        # slices / indices inside the anchored node (first subscript found)
        for sub in [x for x in ast.walk(probe) if isinstance(x, ast.Subscript)][:2]:
            pos = (sub.lineno, sub.col_offset)
            t, n, pm = fresh()
            tgt = [x for x in ast.walk(n) if isinstance(x, ast.Subscript) and
                   (x.lineno, x.col_offset) == pos]
            if not tgt:
                continue
            s = tgt[0].slice
            if isinstance(s, ast.Slice):
                b = s.upper if s.upper is not None else s.lower
                if b is not None:
                    nb = ast.BinOp(left=b, op=ast.Add(), right=ast.Constant(value=1))
                    if s.upper is not None:
                        s.upper = nb
                    else:
                        s.lower = nb
                    emit(where + ' slice-bound+1', t)
            elif isinstance(s, ast.Constant) and isinstance(s.value, int) and \
                    not isinstance(s.value, bool):
                tgt[0].slice = ast.Constant(value=s.value + 1)
                emit(where + ' index+1', t)
            elif isinstance(s, ast.BinOp) and isinstance(s.op, (ast.Add, ast.Sub)) and \
                    isinstance(s.right, ast.Constant):
                tgt[0].slice = s.left
                emit(where + ' index-offset-dropped', t)
    return out


# ---------------------------------------------------------------------------
# seeded changes
# ---------------------------------------------------------------------------

def seeded_variants(prop, root):
    """[(id, overlay | None)] from /verif/seeded/*/ whose meta names this property."""
    out = []
    sd = os.path.join(HERE, 'seeded')
    if not os.path.isdir(sd):
        return out
    for name in sorted(os.listdir(sd)):
        mf = os.path.join(sd, name, 'meta.json')
        pf = os.path.join(sd, name, 'patch.diff')
        if not (os.path.exists(mf) and os.path.exists(pf)):
            continue
        try:
            meta = json.load(open(mf))
        except Exception:
            continue
        if meta.get('property') != prop:
            continue
        if meta.get('static_reach') is False:
            out.append((name, 'out-of-reach'))
            continue
        files = []
        for line in open(pf):
            if line.startswith('+++ b/'):
                files.append(line[6:].strip())
        d = tempfile.mkdtemp(prefix='sa_seed_')
        try:
            for rel in files:
                src = os.path.join(root, rel)
                if os.path.exists(src):
                    os.makedirs(os.path.dirname(os.path.join(d, rel)), exist_ok=True)
                    shutil.copy(src, os.path.join(d, rel))
            p = subprocess.run(['patch', '-p1', '-s', '-d', d, '-i', pf], capture_output=True,
                               text=True)
            if p.returncode != 0:
                out.append((name, None))
                continue
            ov = {}
            for rel in files:
                if os.path.exists(os.path.join(d, rel)):
                    ov[rel] = open(os.path.join(d, rel)).read()
            out.append((name, ov))
        finally:
            shutil.rmtree(d, ignore_errors=True)
    return out


# ---------------------------------------------------------------------------

def run(prop, root=REPO_ROOT, jobs=16, baseline=None, max_mutants=160):
    t0 = time.time()
    ctx = baseline['ctx']
    base_status = dict(baseline['status'])
    known = report.load_known_findings()
    base_viol = sorted((i['obligation'], i['construct'], i['role']) for i in ctx.instances
                       if i['verdict'] == 'violated' and report.match_known(prop, i, known) is None)
    base_err = len(baseline['errors'])
    files = sorted(set(f.module.relpath for f in ctx.functions_touched.values()))
    texts = {}
    for rel in files:
        m = baseline['repo'].by_relpath.get(rel)
        if m is not None:
            texts[rel] = m.text
    # anchors per file
    anchors = {}
    for i in ctx.instances:
        if i['verdict'] != 'ok':
            continue
        for a in i['anchors']:
            if a.get('file') in texts:
                anchors.setdefault(a['file'], []).append(a)
    jobs_list = []
    # neutral: one overlay per operator, covering all examined files at once
    ops = {}
    anchored_files = [rel for rel in files if rel in anchors] or files[:6]
    for rel in anchored_files:
        for (name, new) in neutral_variants(texts[rel]):
            if new is not None:
                ops.setdefault(name, {})[rel] = new
    for name, ov in sorted(ops.items()):
        jobs_list.append(('neutral', name, ov))
    rp = rename_private_functions(baseline['repo'], anchored_files)
    if rp:
        jobs_list.append(('neutral', 'rename-private-functions', rp))
    out_of_reach = []
    for (sid, ov) in seeded_variants(prop, root):
        if ov == 'out-of-reach':
            out_of_reach.append(sid)
        elif ov is None:
            jobs_list.append(('seeded-skip', sid, None))
        else:
            jobs_list.append(('seeded', sid, ov))
    muts = []
    for rel in sorted(anchors):
        for (desc, new) in anchor_mutants(texts[rel], anchors[rel], rel):
            muts.append(('mutant', desc, {rel: new}))
    # deterministic thinning
    if max_mutants <= 0:
        muts = []
    elif len(muts) > max_mutants:
        step = len(muts) / float(max_mutants)
        muts = [muts[int(k * step)] for k in range(max_mutants)]
    jobs_list += muts
    runnable = [j for j in jobs_list if j[2] is not None]
    results = {}
    if runnable:
        with ProcessPoolExecutor(max_workers=max(1, min(jobs, len(runnable)))) as ex:
            for j, v in zip(runnable, ex.map(_verdict, [(prop, root, j[2]) for j in runnable],
                                             chunksize=1)):
                results[(j[0], j[1])] = v
    failures = []
    neutral = silent = 0
    must_fire = fired = 0
    seeded_n = seeded_fired = seeded_skipped = 0
    survivors = []
    samples = []
    for (kind, name, ov) in jobs_list:
        if kind == 'seeded-skip':
            seeded_skipped += 1
            continue
        v = results[(kind, name)]
        changed_v = sorted(set((x[0], x[1], x[2]) for x in v['violations'])) != base_viol
        changed_e = len(v['errors']) != base_err
        changed_s = v['status'] != base_status
        if kind == 'neutral':
            neutral += 1
            if changed_v or changed_e or changed_s:
                failures.append('neutral rewrite `{}` changes the verdict: violations={} errors={}'
                                .format(name, v['violations'][:2], v['errors'][:2]))
            else:
                silent += 1
        elif kind == 'seeded':
            seeded_n += 1
            if changed_v or changed_e:
                seeded_fired += 1
            else:
                failures.append('seeded change `{}` is not detected'.format(name))
            samples.append({'variant': 'seeded ' + name, 'detected': bool(changed_v or changed_e),
                            'violations': [list(x) for x in v['violations'][:3]],
                            'errors': v['errors'][:2]})
        else:
            must_fire += 1
            if changed_v or changed_e:
                fired += 1
                if len(samples) < 12:
                    samples.append({'variant': name, 'detected': True,
                                    'by': (v['violations'][0][0] if v['violations'] else
                                           (v['errors'][0][:60] if v['errors'] else ''))})
            else:
                survivors.append(name)
    return {
        'neutral': neutral, 'silent': silent,
        'must_fire': must_fire, 'fired': fired,
        'kill_ratio': round(fired / float(must_fire), 3) if must_fire else None,
        'seeded': seeded_n, 'seeded_detected': seeded_fired, 'seeded_skipped': seeded_skipped,
        'seeded_out_of_static_reach': out_of_reach,
        'survivors': survivors[:80], 'failures': failures, 'samples': samples,
        'files_rewritten': anchored_files, 'wall_s': round(time.time() - t0, 2),
    }
