"""Layer 3 - small abstract domains over value terms: polarity, linear forms."""

from .values import subterms, match, pattern, children

POS, NEG, ZERO, BOTH = '+', '-', '0', '±'

MONOTONE_UP = {'numpy.exp', 'numpy.log', 'numpy.log1p', 'numpy.sqrt', 'numpy.cumsum', 'numpy.sum',
               'numpy.mean', 'float', 'int', 'numpy.asarray', 'numpy.array', 'numpy.atleast_1d',
               'numpy.atleast_2d', 'numpy.reshape', 'numpy.squeeze', 'numpy.ravel',
               'numpy.asanyarray', 'numpy.transpose', 'numpy.copy', 'math.exp', 'math.log',
               'math.sqrt', 'numpy.minimum', 'numpy.maximum', 'min', 'max', 'numpy.float64',
               'numpy.nansum', 'numpy.diag', 'numpy.column_stack', 'numpy.concatenate',
               'numpy.stack', 'numpy.hstack', 'numpy.vstack', 'numpy.expm1', 'numpy.clip',
               'numpy.prod' + '#pos'}
MONOTONE_UP_METHODS = {'reshape', 'squeeze', 'ravel', 'flatten', 'copy', 'sum', 'mean', 'astype',
                       'item', 'cumsum', 'T'}


def neg(p):
    return {POS: NEG, NEG: POS, ZERO: ZERO, BOTH: BOTH}[p]


def join(a, b):
    if a == ZERO:
        return b
    if b == ZERO:
        return a
    if a == b:
        return a
    return BOTH


def sign_of(t, positive=()):
    """Sign of a term: '+', '-', or None (unknown). `positive` = patterns assumed > 0."""
    if t[0] == 'const' and isinstance(t[1], (int, float)) and not isinstance(t[1], bool):
        return POS if t[1] > 0 else (NEG if t[1] < 0 else None)
    for p in positive:
        if match(t, pattern(p)) is not None:
            return POS
    if t[0] == 'unary' and t[1] == '-':
        s = sign_of(t[2], positive)
        return neg(s) if s else None
    if t[0] == 'binop' and t[1] in ('*', '/'):
        a, b = sign_of(t[2], positive), sign_of(t[3], positive)
        if a and b:
            return POS if a == b else NEG
    if t[0] == 'binop' and t[1] == '**' and t[3] == ('const', 2):
        return POS
    if t[0] == 'call' and t[1][0] == 'global' and t[1][1] in ('numpy.exp', 'math.exp',
                                                               'numpy.sqrt', 'math.sqrt', 'len',
                                                               'numpy.abs', 'abs'):
        return POS
    return None


def polarity(t, is_leaf, positive=(), depth=0):
    """Polarity of the dependence of term t on the leaves selected by is_leaf(term)."""
    if is_leaf(t):
        return POS
    if depth > 60:
        return BOTH
    k = t[0]
    d = depth + 1
    if k in ('const', 'name', 'param', 'global', 'unknown', 'loop', 'localfn', 'closure'):
        return ZERO
    if k == 'binop':
        op, a, b = t[1], t[2], t[3]
        pa, pb = polarity(a, is_leaf, positive, d), polarity(b, is_leaf, positive, d)
        if op == '+':
            return join(pa, pb)
        if op == '-':
            return join(pa, neg(pb))
        if op in ('*', '@'):
            if pb == ZERO:
                s = sign_of(b, positive)
                if pa == ZERO:
                    return ZERO
                return pa if s == POS else (neg(pa) if s == NEG else BOTH)
            if pa == ZERO:
                s = sign_of(a, positive)
                return pb if s == POS else (neg(pb) if s == NEG else BOTH)
            return BOTH
        if op == '/':
            if pb == ZERO:
                if pa == ZERO:
                    return ZERO
                s = sign_of(b, positive)
                return pa if s == POS else (neg(pa) if s == NEG else BOTH)
            if pa == ZERO:
                sa, sb = sign_of(a, positive), POS if any(
                    match(b, pattern(p)) is not None for p in positive) else sign_of(b, positive)
                if sa == POS and sb == POS:
                    return neg(pb)
                if sa == NEG and sb == POS:
                    return pb
                return BOTH
            return BOTH
        if op == '**':
            if pb == ZERO and b[0] == 'const' and b[1] in (1, 3):
                return pa
            return ZERO if pa == ZERO and pb == ZERO else BOTH
        return ZERO if pa == ZERO and pb == ZERO else BOTH
    if k == 'unary':
        p = polarity(t[2], is_leaf, positive, d)
        return neg(p) if t[1] == '-' else (p if t[1] == '+' else (ZERO if p == ZERO else BOTH))
    if k == 'sub':
        pi = polarity(t[2], is_leaf, positive, d)
        pb = polarity(t[1], is_leaf, positive, d)
        return pb if pi == ZERO else BOTH
    if k == 'attr':
        return polarity(t[1], is_leaf, positive, d)
    if k in ('phi', 'tuple', 'list'):
        p = ZERO
        for x in t[1]:
            p = join(p, polarity(x, is_leaf, positive, d))
        return p
    if k == 'ifexp':
        pt = polarity(t[1], is_leaf, positive, d)
        p = join(polarity(t[2], is_leaf, positive, d), polarity(t[3], is_leaf, positive, d))
        # a clamp  `c if x > c else x`  is monotone in x even though the test reads x
        return p
    if k == 'item':
        return polarity(t[1], is_leaf, positive, d)
    if k == 'call':
        f = t[1]
        args = list(t[2]) + [v for (n, v) in t[3]]
        ps = [polarity(a, is_leaf, positive, d) for a in args]
        if f[0] == 'global' and f[1] in MONOTONE_UP:
            p = ZERO
            for (a, pa) in zip(list(t[2]), ps):
                p = join(p, pa)
            # keyword arguments (axis=..) must not depend on the leaf
            for pa in ps[len(t[2]):]:
                if pa != ZERO:
                    return BOTH
            return p
        if f[0] == 'attr' and f[2] in MONOTONE_UP_METHODS:
            pr = polarity(f[1], is_leaf, positive, d)
            if all(p == ZERO for p in ps):
                return pr
            return BOTH
        pf = polarity(f, is_leaf, positive, d) if f[0] not in ('global',) else ZERO
        if all(p == ZERO for p in ps) and pf == ZERO:
            return ZERO
        return BOTH
    if k == 'comp':
        # [f(e) for e in it]: orientation of the element expression, provided the
        # iteration sources do not depend on the leaf
        for (it, ifs) in t[3]:
            if polarity(it, is_leaf, positive, d) != ZERO or \
                    any(polarity(c, is_leaf, positive, d) != ZERO for c in ifs):
                return BOTH
        return polarity(t[2], is_leaf, positive, d)
    if k == 'elem':
        return polarity(t[1], is_leaf, positive, d)
    if k in ('cmp', 'bool'):
        cs = children(t)
        return ZERO if all(polarity(c, is_leaf, positive, d) == ZERO for c in cs) else BOTH
    cs = children(t)
    return ZERO if all(polarity(c, is_leaf, positive, d) == ZERO for c in cs) else BOTH


def leaf_matcher(*pats):
    ps = [pattern(p) for p in pats]

    def is_leaf(t):
        return any(match(t, p) is not None for p in ps)
    return is_leaf
