"""Formulas over sample vectors: polynomials in vector symbols under the reduction `sum`.

A statistic such as  w.dot((x - xbar)**2) / (V1 - V2 / V1)  is a scalar built from sums of
monomials in the sample vectors (sum w, sum w^2, sum w x, sum w x^2 ...).  Vectors are
normalised to polynomials in vector symbols with scalar (rational-function) coefficients; `sum`
maps a vector to the scalar  sum_m coeff_m * S[m]  where S[m] is an opaque symbol for the sum of
the monomial m.  Two statistics are the same function of the sample iff their scalar normal forms
are equal as rational functions in the S[m] - decided exactly by sa.ratfun.

Pure syntax-directed normalisation of formula terms; nothing is evaluated.
"""

from .ratfun import Rat, Unsupported, _num


class Vec:
    """{monomial: Rat}; monomial = sorted tuple of (vector symbol, exponent); () = ones."""

    def __init__(self, c=None):
        self.c = dict((k, v) for k, v in (c or {}).items() if not v.n.is_zero())

    @staticmethod
    def sym(name):
        return Vec({((name, 1),): Rat.const(1)})

    @staticmethod
    def ones(scale=None):
        return Vec({(): scale if scale is not None else Rat.const(1)})

    def __add__(self, o):
        c = dict(self.c)
        for k, v in o.c.items():
            c[k] = c[k] + v if k in c else v
        return Vec(c)

    def __neg__(self):
        return Vec(dict((k, -v) for k, v in self.c.items()))

    def __sub__(self, o):
        return self + (-o)

    def __mul__(self, o):
        c = {}
        for k1, v1 in self.c.items():
            for k2, v2 in o.c.items():
                d = dict(k1)
                for s, e in k2:
                    d[s] = d.get(s, 0) + e
                k = tuple(sorted(d.items()))
                c[k] = c[k] + v1 * v2 if k in c else v1 * v2
        return Vec(c)

    def scale(self, r):
        return Vec(dict((k, v * r) for k, v in self.c.items()))

    def __pow__(self, n):
        out = Vec.ones()
        for _ in range(n):
            out = out * self
        return out

    def total(self):
        """sum over the sample."""
        tot = Rat.const(0)
        for k, v in self.c.items():
            tot = tot + v * Rat.sym(sname(k))
        return tot


def sname(mono):
    if not mono:
        return 'n'
    return 'S[' + '*'.join(s if e == 1 else '{}^{}'.format(s, e) for s, e in mono) + ']'


def S(**powers):
    """Symbol for sum of a monomial, e.g. S(w=1, x=2)."""
    return Rat.sym(sname(tuple(sorted(powers.items()))))


class Conv:
    """term -> Vec | Rat.  `vec_leaf(t)` names vector symbols; `call_inline(t)` may return
    (callee return term, {param term: argument value}) to inline a helper."""

    def __init__(self, vec_leaf, inline=None, scalar_leaf=None):
        self.vec_leaf = vec_leaf
        self.inline = inline
        self.scalar_leaf = scalar_leaf
        self.env = [{}]

    def lift(self, v):
        return v if isinstance(v, Vec) else Vec.ones(v)

    def conv(self, t):
        for e in reversed(self.env):
            if t in e:
                return e[t]
        name = self.vec_leaf(t)
        if name is not None:
            return Vec.sym(name)
        if self.scalar_leaf is not None:
            r = self.scalar_leaf(t)
            if r is not None:
                return r
        v = _num(t)
        if v is not None:
            return Rat.const(v)
        k = t[0]
        if k == 'unary' and t[1] == '-':
            a = self.conv(t[2])
            return -a
        if k == 'binop':
            op = t[1]
            if op == '**':
                e = _num(t[3])
                if e is None or e.denominator != 1 or e < 0:
                    raise Unsupported('power')
                a = self.conv(t[2])
                return a ** int(e)
            a, b = self.conv(t[2]), self.conv(t[3])
            if op in '+-':
                if isinstance(a, Vec) or isinstance(b, Vec):
                    a, b = self.lift(a), self.lift(b)
                return a + b if op == '+' else a - b
            if op == '*':
                if isinstance(a, Vec) and isinstance(b, Vec):
                    return a * b
                if isinstance(a, Vec):
                    return a.scale(b)
                if isinstance(b, Vec):
                    return b.scale(a)
                return a * b
            if op == '/':
                if isinstance(b, Vec):
                    raise Unsupported('division by a vector')
                if isinstance(a, Vec):
                    return a.scale(Rat.const(1) / b)
                return a / b
            raise Unsupported('operator ' + op)
        if k == 'call':
            f, args, kw = t[1], t[2], dict(t[3])
            g = f[1] if f[0] == 'global' else None
            if g in ('numpy.atleast_1d', 'numpy.asarray', 'numpy.asanyarray', 'numpy.array',
                     'numpy.squeeze', 'builtins.float', 'float') and args:
                return self.conv(args[0])
            if g == 'numpy.square' and len(args) == 1:
                a = self.conv(args[0])
                return a * a
            if g == 'numpy.sum' and args:
                a = self.conv(args[0])
                return self.lift(a).total()
            if f[0] == 'attr' and f[2] == 'sum':
                return self.lift(self.conv(f[1])).total()
            if g in ('numpy.dot', 'numpy.inner') and len(args) == 2:
                return (self.lift(self.conv(args[0])) * self.lift(self.conv(args[1]))).total()
            if f[0] == 'attr' and f[2] == 'dot' and len(args) == 1:
                return (self.lift(self.conv(f[1])) * self.lift(self.conv(args[0]))).total()
            if g == 'numpy.average' and args:
                x = self.lift(self.conv(args[0]))
                if 'weights' in kw and kw['weights'] != ('const', None):
                    w = self.lift(self.conv(kw['weights']))
                    return (w * x).total() / w.total()
                return x.total() / Rat.sym('n')
            if g == 'numpy.mean' and args:
                return self.lift(self.conv(args[0])).total() / Rat.sym('n')
            if g == 'numpy.ones' and args:
                return Vec.ones()
            if g in ('builtins.len', 'len') and args:
                return Rat.sym('n')
            if self.inline is not None:
                r = self.inline(t)
                if r is not None:
                    body, binding = r
                    env = dict((p, self.conv(a)) for p, a in binding.items())
                    self.env.append(env)
                    try:
                        return self.conv(body)
                    finally:
                        self.env.pop()
            raise Unsupported('call ' + (g or repr(f)[:40]))
        if k == 'phi':
            # alternatives must agree (e.g. a default filled in under `is None`)
            raise Unsupported('phi')
        raise Unsupported('term ' + k)


def selfcheck():
    w, x = Vec.sym('w'), Vec.sym('x')
    xbar = (w * x).total() / w.total()
    num = (w * ((x - Vec.ones(xbar)) ** 2)).total()
    want = S(w=1, x=2) - S(w=1, x=1) * S(w=1, x=1) / S(w=1)
    assert num.same(want)
    wn = w.scale(Rat.const(1) / w.total())
    ess = (wn.total() * wn.total()) / (wn * wn).total()
    assert ess.same(S(w=1) * S(w=1) / S(w=2))
    return True
