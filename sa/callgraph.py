"""Layer 4 - call resolution, call graph, reachability, who-calls / who-writes scans."""

import ast

from . import AnalysisError
from .model import own_nodes, enclosing_function
from .values import expander_of


# Fields whose class cannot be inferred from a constructor call in the owning class
# (they are assigned from a parameter).  Confirmed by reading; each entry is re-verified
# against the source on every run (`verify_field_table`): the field must still be assigned
# in that class from the named parameter / expression.
FIELD_TYPES = {
    # (class qname, field): (type class qname, reason, how it is assigned today)
    ('elfi.client:BatchHandler', 'client'):
        ('elfi.client:ClientBase', 'client argument or get_client()', 'client'),
    ('elfi.client:BatchHandler', 'context'):
        ('elfi.model.elfi_model:ComputationContext', 'context argument', 'context'),
    ('elfi.model.elfi_model:ComputationContext', '_pool'):
        ('elfi.store:OutputPool', 'pool argument', 'pool'),
    ('elfi.methods.inference.parameter_inference:ParameterInference', 'client'):
        ('elfi.client:ClientBase', 'elfi.client.get_client()', None),
    ('elfi.methods.inference.parameter_inference:ParameterInference', 'model'):
        ('elfi.model.elfi_model:ElfiModel', 'model.copy()', None),
    ('elfi.model.elfi_model:NodeReference', 'model'):
        ('elfi.model.elfi_model:ElfiModel', '_init_reference(name, model)', None),
}


class CallGraph:
    def __init__(self, repo, extra_field_types=None):
        self.repo = repo
        self.field_types = {}      # (ClassInfo, field) -> ClassInfo
        self._infer_field_types()
        for (cq, field), (tq, reason, how) in FIELD_TYPES.items():
            try:
                c = repo.cls(cq)
                t = repo.cls(tq)
            except AnalysisError:
                continue
            self.field_types[(c.qname, field)] = t
        self._calls = {}           # fn qname -> [(call node, [targets], kind)]
        self._refs = {}
        self._callers = None
        self.unresolved = 0
        self.resolved = 0

    # -- field types -----------------------------------------------------
    def _infer_field_types(self):
        repo = self.repo
        for rnd in (0, 1):
            for c in repo.all_classes():
                for f in c.methods.values():
                    sn = f.self_name
                    if not sn:
                        continue
                    for n in own_nodes(f.node):
                        if not isinstance(n, ast.Assign):
                            continue
                        r = None
                        if isinstance(n.value, ast.Call):
                            r = repo.resolve_expr(f.module, n.value.func)
                        ty = r[1] if (r and r[0] == 'class') else None
                        if ty is None and rnd == 1:
                            ty = self.type_of(f, n.value)
                        if ty is None:
                            continue
                        for t in n.targets:
                            if isinstance(t, ast.Attribute) and isinstance(t.value, ast.Name) \
                                    and t.value.id == sn:
                                self.field_types.setdefault((c.qname, t.attr), ty)

    def field_type(self, cls, field):
        for c in cls.mro():
            t = self.field_types.get((c.qname, field))
            if t is not None:
                return t
        # a subclass may set the field
        for c in cls.all_subclasses():
            t = self.field_types.get((c.qname, field))
            if t is not None:
                return t
        return None

    # -- receiver typing -----------------------------------------------------
    def type_of(self, fn, expr, depth=0):
        """Static class (ClassInfo) of expression `expr` inside `fn`, or None."""
        repo = self.repo
        if depth > 4:
            return None
        if isinstance(expr, ast.Name):
            if fn.self_name and expr.id == fn.self_name and not fn.is_classmethod:
                return fn.cls
            ex = expander_of(repo, fn)
            if ex.is_local(expr.id):
                node = ex.cfg.node_of(expr)
                if node is None:
                    return None
                defs = ex.reaching(expr.id, node)
                types = set()
                for d in defs:
                    if d.kind == 'assign' and not d.index:
                        t = self.type_of(fn, d.payload, depth + 1)
                        types.add(t)
                    else:
                        types.add(None)
                if len(types) == 1:
                    return types.pop()
                return None
            return None
        if isinstance(expr, ast.Call):
            if isinstance(expr.func, ast.Name) and expr.func.id == 'super':
                return None
            r = repo.resolve_expr(fn.module, expr.func)
            if r and r[0] == 'class':
                return r[1]
            # method returning a known type: model.copy() keeps the class
            if isinstance(expr.func, ast.Attribute) and expr.func.attr in ('copy',):
                return self.type_of(fn, expr.func.value, depth + 1)
            if isinstance(expr.func, ast.Attribute) and expr.func.attr == 'get_client':
                return self._cls_or_none('elfi.client:ClientBase')
            if isinstance(expr.func, ast.Name) and expr.func.id == 'get_client':
                return self._cls_or_none('elfi.client:ClientBase')
            return None
        if isinstance(expr, ast.Attribute):
            base_t = self.type_of(fn, expr.value, depth + 1)
            if base_t is not None:
                ft = self.field_type(base_t, expr.attr)
                if ft is not None:
                    return ft
                # property with a single return expression
                m = base_t.lookup(expr.attr)
                if m is not None and m.is_property and not m.is_setter:
                    rets = [x for x in own_nodes(m.node)
                            if isinstance(x, ast.Return) and x.value is not None]
                    if len(rets) == 1:
                        return self.type_of(m, rets[0].value, depth + 1)
            return None
        if isinstance(expr, ast.BoolOp):
            ts = set(self.type_of(fn, v, depth + 1) for v in expr.values)
            ts.discard(None)
            if len(ts) == 1:
                return ts.pop()
            return None
        return None

    def _cls_or_none(self, q):
        try:
            return self.repo.cls(q)
        except AnalysisError:
            return None

    # -- call resolution -----------------------------------------------------
    def resolve(self, fn, call, may=False):
        """Targets (FunctionInfo list) of ast.Call `call` inside function `fn`.

        may=False: the statically declared target (MRO lookup from the receiver's class);
        may=True : additionally every override in a subclass of the receiver's class.
        """
        repo = self.repo
        func = call.func
        if isinstance(func, ast.Name):
            name = func.id
            # nested function defined in this function or an enclosing one
            o = fn
            while o is not None:
                for m in fn.module.all_functions:
                    if m.outer is o and m.name == name:
                        return [m]
                o = o.outer
            ex = expander_of(repo, fn)
            if ex.is_local(name):
                node = ex.cfg.node_of(call)
                if node is not None:
                    v = ex.value_of(name, node)
                    return self._targets_of_value(v)
                return []
            r = repo.resolve_expr(fn.module, func)
            return self._targets_of_resolution(r)
        if isinstance(func, ast.Attribute):
            base = func.value
            mname = func.attr
            # super().m / super(C, self).m
            if isinstance(base, ast.Call) and isinstance(base.func, ast.Name) and \
                    base.func.id == 'super':
                if fn.cls is None:
                    return []
                after = fn.cls
                if base.args:
                    r = repo.resolve_expr(fn.module, base.args[0])
                    if r and r[0] == 'class':
                        after = r[1]
                t = fn.cls.lookup(mname, after=after)
                return [t] if t else []
            # self.m / cls.m
            if isinstance(base, ast.Name) and fn.self_name and base.id == fn.self_name:
                return self._method_targets(fn.cls, mname, may)
            # Class.m / module.f
            r = repo.resolve_expr(fn.module, func)
            if r and r[0] in ('func', 'class'):
                return self._targets_of_resolution(r)
            # typed receiver
            t = self.type_of(fn, base)
            if t is not None:
                return self._method_targets(t, mname, may)
            return []
        return []

    def _method_targets(self, cls, mname, may):
        out = []
        t = cls.lookup(mname)
        if t is not None:
            out.append(t)
        if may:
            for c in cls.all_subclasses():
                if mname in c.methods and c.methods[mname] not in out:
                    out.append(c.methods[mname])
        return out

    def _targets_of_resolution(self, r):
        if not r:
            return []
        if r[0] == 'func':
            return [r[1]]
        if r[0] == 'class':
            t = r[1].lookup('__init__')
            return [t] if t else []
        return []

    def _targets_of_value(self, v):
        repo = self.repo
        out = []
        alts = v[1] if v[0] == 'phi' else (v,)
        for a in alts:
            if a[0] == 'global':
                r = repo.resolve_dotted(a[1])
                out += self._targets_of_resolution(r)
            elif a[0] == 'localfn':
                for f in repo.all_functions():
                    if f.qname == a[1]:
                        out.append(f)
            elif a[0] == 'call' and a[1][0] == 'global' and a[1][1].endswith('partial') and a[2]:
                out += self._targets_of_value(a[2][0])
        return out

    # -- whole-function scans --------------------------------------------------
    def calls(self, fn, may=True):
        """[(call node, [targets])] for every call in fn's own body."""
        key = (fn.qname, may, id(fn.node))
        if key not in self._calls:
            out = []
            for n in own_nodes(fn.node):
                if isinstance(n, ast.Call):
                    ts = self.resolve(fn, n, may=may)
                    out.append((n, ts))
            self._calls[key] = out
        return self._calls[key]

    def references(self, fn):
        """Repo functions referenced (not called) in fn: passed on as values, properties read."""
        key = (fn.qname, id(fn.node))
        if key in self._refs:
            return self._refs[key]
        repo = self.repo
        out = []
        callfuncs = set()
        for n in own_nodes(fn.node):
            if isinstance(n, ast.Call):
                callfuncs.add(id(n.func))
        for n in own_nodes(fn.node):
            if id(n) in callfuncs:
                continue
            if isinstance(n, (ast.Name, ast.Attribute)) and isinstance(getattr(n, 'ctx', None),
                                                                        ast.Load):
                # skip inner parts of a dotted chain
                p = getattr(n, '_parent', None)
                if isinstance(p, ast.Attribute) and p.value is n:
                    # but a property read `self.x.y`: handle at the outer level
                    pass
                r = repo.resolve_expr(fn.module, n)
                if r and r[0] == 'func':
                    out.append((n, r[1]))
                    continue
                if isinstance(n, ast.Name):
                    o = fn
                    while o is not None:
                        for m in fn.module.all_functions:
                            if m.outer is o and m.name == n.id:
                                out.append((n, m))
                        o = o.outer
                if isinstance(n, ast.Attribute):
                    t = None
                    if isinstance(n.value, ast.Name) and fn.self_name and \
                            n.value.id == fn.self_name:
                        t = fn.cls
                    else:
                        t = self.type_of(fn, n.value)
                    if t is not None:
                        for c in [t] + t.all_subclasses():
                            m = c.lookup(n.attr)
                            if m is not None and (m.is_property or True) and \
                                    (n, m) not in out:
                                # property getter, or bound method passed on as a value
                                out.append((n, m))
                                break
        # lambdas / nested functions defined here run on behalf of this function
        for m in fn.module.all_functions:
            if m.outer is fn:
                out.append((m.node, m))
        self._refs[key] = out
        return out

    def callees(self, fn, may=True, with_refs=True):
        out = []
        for (n, ts) in self.calls(fn, may=may):
            for t in ts:
                if t not in out:
                    out.append(t)
        if with_refs:
            for (n, t) in self.references(fn):
                if t not in out:
                    out.append(t)
        return out

    def reachable(self, entries, may=True, with_refs=True, stop=None):
        """Functions reachable from `entries` through resolved calls (and references)."""
        seen = []
        todo = list(entries)
        while todo:
            f = todo.pop()
            if f in seen:
                continue
            seen.append(f)
            if stop and stop(f):
                continue
            for t in self.callees(f, may=may, with_refs=with_refs):
                if t not in seen:
                    todo.append(t)
        return seen

    def callers_of(self, target, may=True):
        """[(fn, call node)] over the whole repo whose resolved targets include `target`."""
        out = []
        for f in self.repo.all_functions():
            for (n, ts) in self.calls(f, may=may):
                if target in ts:
                    out.append((f, n))
        return out

    def call_sites_named(self, attr):
        """Every call `<something>.attr(...)` or `attr(...)` in the repo, resolved or not."""
        out = []
        for f in self.repo.all_functions():
            for n in own_nodes(f.node):
                if isinstance(n, ast.Call):
                    fu = n.func
                    if (isinstance(fu, ast.Attribute) and fu.attr == attr) or \
                            (isinstance(fu, ast.Name) and fu.id == attr):
                        out.append((f, n))
        return out

    def resolution_stats(self, fns):
        res = unres = 0
        for f in fns:
            for (n, ts) in self.calls(f):
                if ts:
                    res += 1
                else:
                    unres += 1
        return {'resolved_to_repo': res, 'external_or_unresolved': unres}


def verify_field_table(repo):
    """Re-verify the hand-confirmed field table against today's source.

    Returns a list of problems (empty = fine).
    """
    problems = []
    for (cq, field), (tq, reason, how) in FIELD_TYPES.items():
        try:
            c = repo.cls(cq)
            repo.cls(tq)
        except AnalysisError as e:
            problems.append('{}.{}: {}'.format(cq, field, e))
            continue
        found = False
        for k in [c] + c.all_subclasses():
            for f in k.methods.values():
                sn = f.self_name
                for n in own_nodes(f.node):
                    if isinstance(n, ast.Assign):
                        for t in n.targets:
                            if isinstance(t, ast.Attribute) and t.attr == field and \
                                    isinstance(t.value, ast.Name) and t.value.id == sn:
                                found = True
        if not found:
            problems.append('{}.{} is no longer assigned in that class'.format(cq, field))
    return problems
