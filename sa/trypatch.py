"""Developer tool: run checks against a patched scratch copy of /repo/elfi (never touches /repo).

  python -m sa.trypatch --patch seeded/C06-1/patch.diff C06 [C05 ...]
  python -m sa.trypatch --revert <commit> C06          (tree with that /repo commit undone)
  python -m sa.trypatch --seeded                        (every /verif/seeded/*/patch.diff)

The scratch copy lives in a fresh temporary directory that is removed afterwards.
"""

import argparse
import json
import os
import shutil
import subprocess
import sys
import tempfile

from . import REPO_ROOT
from .check import run_property
from . import report

ALL = ['C%02d' % i for i in range(1, 21)]


def make_scratch(patch=None, revert=None, reverse=False):
    d = tempfile.mkdtemp(prefix='sa_scratch_')
    shutil.copytree(os.path.join(REPO_ROOT, 'elfi'), os.path.join(d, 'elfi'),
                    ignore=shutil.ignore_patterns('__pycache__', '*.pyc', 'cpp'))
    if revert:
        diff = subprocess.run(['git', '-C', REPO_ROOT, 'show', '--format=', revert, '--', 'elfi'],
                              capture_output=True, text=True, check=True).stdout
        p = subprocess.run(['patch', '-p1', '-R', '-s', '-d', d], input=diff, text=True,
                           capture_output=True)
        if p.returncode != 0:
            shutil.rmtree(d)
            raise RuntimeError('cannot revert {}: {}'.format(revert, p.stdout + p.stderr))
    if patch:
        with open(patch) as f:
            diff = f.read()
        args = ['patch', '-p1', '-s', '-d', d]
        if reverse:
            args.insert(2, '-R')
        p = subprocess.run(args, input=diff, text=True, capture_output=True)
        if p.returncode != 0:
            shutil.rmtree(d)
            raise RuntimeError('cannot apply {}: {}'.format(patch, p.stdout + p.stderr))
    return d


def verdict(prop, root):
    """('pass'|'violation'|'error', [lines])"""
    try:
        res = run_property(prop, 'quick', root=root)
    except Exception as e:
        return 'error', ['{}: {}'.format(type(e).__name__, e)]
    known = report.load_known_findings()
    lines = []
    v = False
    for i in res['ctx'].instances:
        if i['verdict'] == 'violated' and report.match_known(prop, i, known) is None:
            v = True
            lines.append('VIOLATED {} {} role={} {}:{} {}'.format(
                i['obligation'], i['construct'], i['role'], i['file'], i['line'],
                i['detail'][:160]))
    for e in res['errors']:
        lines.append('ERROR {} {}'.format(e['obligation'], e['error'][:200]))
    if v:
        return 'violation', lines
    if res['errors']:
        return 'error', lines
    return 'pass', lines


def main():
    ap = argparse.ArgumentParser()
    ap.add_argument('--patch')
    ap.add_argument('--revert')
    ap.add_argument('--seeded', action='store_true')
    ap.add_argument('--all', action='store_true', help='run all 20 properties on each variant')
    ap.add_argument('props', nargs='*')
    a = ap.parse_args()
    here = os.path.dirname(os.path.dirname(os.path.abspath(__file__)))
    jobs = []
    if a.seeded:
        sd = os.path.join(here, 'seeded')
        for name in sorted(os.listdir(sd)):
            pf = os.path.join(sd, name, 'patch.diff')
            mf = os.path.join(sd, name, 'meta.json')
            if os.path.exists(pf):
                props = a.props
                if not props and os.path.exists(mf):
                    props = [json.load(open(mf))['property']]
                jobs.append((name, pf, None, props or ALL))
    else:
        jobs.append((a.patch or a.revert or 'current', a.patch, a.revert, a.props or ALL))
    rc = 0
    for (name, pf, rv, props) in jobs:
        if a.all:
            props = ALL
        d = make_scratch(patch=pf, revert=rv)
        try:
            for p in props:
                try:
                    v, lines = verdict(p, d)
                except Exception as e:
                    v, lines = 'error', [repr(e)]
                print('{:28s} {}  {}'.format(name, p, v.upper()))
                for l in lines:
                    print('      ' + l)
        finally:
            shutil.rmtree(d, ignore_errors=True)
    return rc


if __name__ == '__main__':
    sys.exit(main())
