"""Layer 1 - statement-level control-flow graph per function, dominators, path queries.

Nodes: one per simple statement, one TEST node per ``if``/``while`` condition, one FOR node
per ``for`` header, one WITH node per ``with`` header, one EXC node per ``except`` clause, and
the synthetic ENTRY, RETURN (normal exit) and RAISE (exceptional exit) nodes.

Calls are not assumed to raise outside ``try`` bodies (the properties speak about runs that
return); inside a ``try`` body every statement has an edge to every handler.
"""

import ast


class Node:
    __slots__ = ('id', 'kind', 'ast', 'succ', 'pred', 'stmt')

    def __init__(self, id, kind, astnode=None, stmt=None):
        self.id = id
        self.kind = kind       # entry return raise stmt test for with exc
        self.ast = astnode     # the statement, or the test / iterator expression
        self.stmt = stmt if stmt is not None else astnode   # owning statement
        self.succ = []         # list of (Node, label)   label: None | True | False | 'exc'
        self.pred = []

    @property
    def lineno(self):
        return getattr(self.ast, 'lineno', None) or getattr(self.stmt, 'lineno', 0)

    def __repr__(self):
        return '<{} {} L{}>'.format(self.kind, self.id, self.lineno)


class CFG:
    def __init__(self, fnode):
        self.fnode = fnode
        self.nodes = []
        self.entry = self._new('entry')
        self.ret = self._new('return')
        self.rais = self._new('raise')
        self.by_stmt = {}     # id(ast stmt) -> Node (for compound statements: the header node)
        self._loops = []      # (continue_target, break_frontier)
        self._handlers = []   # stack of lists of handler nodes
        body = fnode.body if isinstance(fnode.body, list) else None
        if body is None:   # lambda
            n = self._new('stmt', ast.Return(value=fnode.body))
            n.ast.lineno = fnode.lineno
            self._edge(self.entry, n)
            self._edge(n, self.ret)
        else:
            out = self._seq(body, [(self.entry, None)])
            for (n, lab) in out:
                self._edge(n, self.ret, lab)
        self._dom = None
        self._pdom = None

    # -- construction ------------------------------------------------------
    def _new(self, kind, astnode=None, stmt=None):
        n = Node(len(self.nodes), kind, astnode, stmt)
        self.nodes.append(n)
        return n

    def _edge(self, a, b, label=None):
        if (b, label) not in a.succ:
            a.succ.append((b, label))
            b.pred.append((a, label))

    def _connect(self, frontier, node):
        for (n, lab) in frontier:
            self._edge(n, node, lab)

    def _exc_edges(self, node):
        if self._handlers:
            for h in self._handlers[-1]:
                self._edge(node, h, 'exc')

    def _seq(self, stmts, frontier):
        for s in stmts:
            frontier = self._stmt(s, frontier)
        return frontier

    def _stmt(self, s, frontier):
        if isinstance(s, ast.If):
            t = self._new('test', s.test, s)
            self.by_stmt[id(s)] = t
            self._connect(frontier, t)
            self._exc_edges(t)
            out = self._seq(s.body, [(t, True)])
            if s.orelse:
                out = out + self._seq(s.orelse, [(t, False)])
            else:
                out = out + [(t, False)]
            return out
        if isinstance(s, ast.While):
            t = self._new('test', s.test, s)
            self.by_stmt[id(s)] = t
            self._connect(frontier, t)
            self._exc_edges(t)
            brk = []
            self._loops.append((t, brk))
            body_out = self._seq(s.body, [(t, True)])
            self._loops.pop()
            self._connect(body_out, t)
            const_true = isinstance(s.test, ast.Constant) and bool(s.test.value)
            out = [] if const_true else [(t, False)]
            if s.orelse:
                out = self._seq(s.orelse, out)
            return out + brk
        if isinstance(s, (ast.For, ast.AsyncFor)):
            t = self._new('for', s.iter, s)
            self.by_stmt[id(s)] = t
            self._connect(frontier, t)
            self._exc_edges(t)
            brk = []
            self._loops.append((t, brk))
            body_out = self._seq(s.body, [(t, True)])
            self._loops.pop()
            self._connect(body_out, t)
            out = [(t, False)]
            if s.orelse:
                out = self._seq(s.orelse, out)
            return out + brk
        if isinstance(s, (ast.With, ast.AsyncWith)):
            t = self._new('with', s, s)
            self.by_stmt[id(s)] = t
            self._connect(frontier, t)
            self._exc_edges(t)
            return self._seq(s.body, [(t, None)])
        if isinstance(s, ast.Try) or s.__class__.__name__ == 'TryStar':
            hnodes = []
            for h in s.handlers:
                hn = self._new('exc', h, s)
                hnodes.append(hn)
            self._handlers.append(hnodes)
            body_out = self._seq(s.body, frontier)
            self._handlers.pop()
            if s.orelse:
                body_out = self._seq(s.orelse, body_out)
            out = list(body_out)
            for h, hn in zip(s.handlers, hnodes):
                # an exception raised by the code *before* any statement completed
                for (n, lab) in frontier:
                    pass
                out += self._seq(h.body, [(hn, None)])
            if s.finalbody:
                out = self._seq(s.finalbody, out)
            return out
        # simple statements
        n = self._new('stmt', s, s)
        self.by_stmt[id(s)] = n
        self._connect(frontier, n)
        if isinstance(s, ast.Return):
            self._exc_edges(n)
            self._edge(n, self.ret)
            return []
        if isinstance(s, ast.Raise):
            if self._handlers:
                self._exc_edges(n)
            else:
                self._edge(n, self.rais)
            return []
        if isinstance(s, ast.Break):
            if self._loops:
                self._loops[-1][1].append((n, None))
            return []
        if isinstance(s, ast.Continue):
            if self._loops:
                self._edge(n, self._loops[-1][0])
            return []
        self._exc_edges(n)
        if isinstance(s, ast.Assert):
            self._edge(n, self.rais, 'assert')
        return [(n, None)]

    # -- lookups -----------------------------------------------------------
    def node_of(self, astnode):
        """CFG node that evaluates `astnode` (a statement or any expression inside one)."""
        n = astnode
        while n is not None:
            if id(n) in self.by_stmt:
                node = self.by_stmt[id(n)]
                # an expression in the body of a compound statement maps to the inner stmt,
                # which was found first; the header maps test/iter expressions
                return node
            n = getattr(n, '_parent', None)
        return None

    def stmt_nodes(self):
        return [n for n in self.nodes if n.kind not in ('entry', 'return', 'raise')]

    # -- reachability ------------------------------------------------------
    def reachable(self, start, avoiding=(), forward=True, skip_labels=('assert',)):
        avoid = set(id(x) for x in avoiding)
        seen = {id(start): start}
        todo = [start]
        while todo:
            n = todo.pop()
            for (m, lab) in (n.succ if forward else n.pred):
                if lab in skip_labels:
                    continue
                if id(m) in avoid or id(m) in seen:
                    continue
                seen[id(m)] = m
                todo.append(m)
        return seen

    def exists_path(self, a, b, avoiding=()):
        if a is b:
            return True
        return id(b) in self.reachable(a, avoiding=avoiding)

    def exists_path_assuming(self, a, b, avoiding=(), assumed=()):
        """Path a -> b avoiding nodes, on which every test node listed in `assumed`
        (pairs (test Node, bool)) takes only its edge with that label.  Used to discard paths
        that are infeasible because two tests of one immutable condition disagree."""
        if a is b:
            return True
        fixed = dict((id(t), pol) for (t, pol) in assumed)
        avoid = set(id(x) for x in avoiding)
        seen = {id(a)}
        todo = [a]
        while todo:
            n = todo.pop()
            for (m, lab) in n.succ:
                if lab == 'assert':
                    continue
                if id(n) in fixed and lab in (True, False) and lab != fixed[id(n)]:
                    continue
                if id(m) in avoid or id(m) in seen:
                    continue
                if m is b:
                    return True
                seen.add(id(m))
                todo.append(m)
        return False

    def live_nodes(self):
        r = self.reachable(self.entry)
        return [n for n in self.nodes if id(n) in r]

    def must_precede(self, firsts, b):
        """Every path ENTRY -> b passes through one of `firsts` (b not in firsts)."""
        firsts = [f for f in firsts if f is not b]
        if not firsts:
            return False
        return id(b) not in self.reachable(self.entry, avoiding=firsts)

    def must_follow(self, a, thens):
        """Every path a -> RETURN passes through one of `thens` (strictly after a)."""
        thens = [t for t in thens]
        # start from successors of a so that a itself may be in `thens` only if revisited
        for (m, lab) in a.succ:
            if lab == 'assert':
                continue
            if any(m is t for t in thens):
                continue
            if m is self.ret:
                return False
            if id(self.ret) in self.reachable(m, avoiding=thens):
                return False
        return True

    def must_pass(self, vias):
        """Every path ENTRY -> RETURN passes through one of `vias`."""
        return id(self.ret) not in self.reachable(self.entry, avoiding=vias)

    def can_reach_return(self, a):
        return id(self.ret) in self.reachable(a)

    # -- dominators --------------------------------------------------------
    def _compute_dom(self, forward=True):
        root = self.entry if forward else self.ret
        order = []
        seen = set()

        def dfs(n):
            stack = [(n, iter(n.succ if forward else n.pred))]
            seen.add(n.id)
            while stack:
                node, it = stack[-1]
                for (m, lab) in it:
                    if lab == 'assert':
                        continue
                    if m.id not in seen:
                        seen.add(m.id)
                        stack.append((m, iter(m.succ if forward else m.pred)))
                        break
                else:
                    order.append(node)
                    stack.pop()
        dfs(root)
        order.reverse()
        idx = {n.id: i for i, n in enumerate(order)}
        idom = {root.id: root.id}

        def intersect(a, b):
            while a != b:
                while idx[a] > idx[b]:
                    a = idom[a]
                while idx[b] > idx[a]:
                    b = idom[b]
            return a
        changed = True
        while changed:
            changed = False
            for n in order[1:]:
                preds = [p for (p, lab) in (n.pred if forward else n.succ)
                         if p.id in idom and lab != 'assert' and p.id in idx]
                if not preds:
                    continue
                new = preds[0].id
                for p in preds[1:]:
                    new = intersect(p.id, new)
                if idom.get(n.id) != new:
                    idom[n.id] = new
                    changed = True
        return idom

    def dominates(self, a, b):
        """a dominates b (every path ENTRY->b passes a). a is b counts."""
        if self._dom is None:
            self._dom = self._compute_dom(True)
        idom = self._dom
        if b.id not in idom:
            return False
        x = b.id
        while True:
            if x == a.id:
                return True
            if idom[x] == x:
                return False
            x = idom[x]

    def postdominates(self, a, b):
        """a post-dominates b w.r.t. the normal exit."""
        if self._pdom is None:
            self._pdom = self._compute_dom(False)
        idom = self._pdom
        if b.id not in idom:
            return False
        x = b.id
        while True:
            if x == a.id:
                return True
            if idom[x] == x:
                return False
            x = idom[x]

    # -- branch facts ------------------------------------------------------
    def guards_of(self, node):
        """Tests that hold whenever `node` executes: list of (test Node, polarity).

        (T, True) is returned iff every path ENTRY -> node takes the True edge of T
        (decided by removing that edge and testing reachability).
        """
        out = []
        for t in self.nodes:
            if t.kind not in ('test', 'for') or t is node:
                continue
            if not self.exists_path(t, node):
                continue
            for pol in (True, False):
                if not any(lab == pol for (_, lab) in t.succ):
                    continue
                if not self._reach_without_edge(node, t, pol):
                    out.append((t, pol))
        return out

    def _reach_without_edge(self, target, t, pol):
        seen = {self.entry.id}
        todo = [self.entry]
        while todo:
            n = todo.pop()
            if n is target:
                return True
            for (m, lab) in n.succ:
                if lab == 'assert':
                    continue
                if n is t and lab == pol:
                    continue
                if m.id not in seen:
                    seen.add(m.id)
                    todo.append(m)
        return False

    # -- path enumeration (loop-free use) ----------------------------------
    def paths(self, start=None, end=None, limit=20000):
        """Enumerate acyclic paths start -> end (back edges are taken at most once)."""
        start = start or self.entry
        end = end or self.ret
        out = []
        stack = [(start, [start], {start.id: 1})]
        while stack:
            n, path, cnt = stack.pop()
            if n is end:
                out.append(path)
                if len(out) > limit:
                    raise RuntimeError('too many paths')
                continue
            for (m, lab) in n.succ:
                if lab in ('assert', 'exc'):
                    continue
                if cnt.get(m.id, 0) >= (2 if m.kind in ('for', 'test') else 1):
                    continue
                c2 = dict(cnt)
                c2[m.id] = c2.get(m.id, 0) + 1
                stack.append((m, path + [m], c2))
        return out

    def in_loop(self, node):
        """node lies on a cycle."""
        for (m, lab) in node.succ:
            if self.exists_path(m, node):
                return True
        return False


_CACHE = {}


def cfg_of(fninfo):
    key = id(fninfo.node)
    c = _CACHE.get(key)
    if c is None or c.fnode is not fninfo.node:
        c = CFG(fninfo.node)
        _CACHE[key] = c
    return c


def clear_cache():
    _CACHE.clear()
