"""Differential algebra over formula terms: decide `g == d f / d x` from the source text.

Formulas read off the syntax tree are normalised to rational functions (sa.ratfun) over
  * base symbols - opaque functions of x with a named derivative symbol (mean -> grad_mean ...),
  * constants,
  * algebraic symbols r with a defining relation r**2 == R   (square roots),
  * transcendental atoms exp(E), log(R), Phi(z) (normal cdf), T(h, a) (Owen's T),
each with its derivative rule.  D() is the derivation extending these rules; equality is decided
exactly by cross multiplication followed by reduction modulo the square-root relations.

No code of the analysed program is run; nothing is evaluated numerically.
"""

from fractions import Fraction

from .ratfun import Poly, Rat, Unsupported, _num


class Clipped(Unsupported):
    """The formula contains a clipping / selection operator (max, min, clip, where)."""


def _isqrt_exact(n):
    if n < 0:
        return None
    r = int(round(n ** 0.5))
    for c in (r - 1, r, r + 1):
        if c >= 0 and c * c == n:
            return c
    return None


def _prime_factors(n):
    out = {}
    p = 2
    while p * p <= n:
        while n % p == 0:
            out[p] = out.get(p, 0) + 1
            n //= p
        p += 1
    if n > 1:
        out[n] = out.get(n, 0) + 1
    return out


class Algebra:
    def __init__(self):
        self.deriv = {}      # symbol -> Rat
        self.rel = []        # [(root symbol, R)]
        self.atoms = []      # [(kind, args, Rat symbol)]
        self.noderiv = set() # derivative symbols: differentiating them again is unsupported
        self._n = 0

    # -- declarations ---------------------------------------------------------
    def base(self, name, dname):
        """Function symbol `name` of x with derivative symbol `dname`."""
        self.deriv[name] = Rat.sym(dname)
        self.noderiv.add(dname)
        return Rat.sym(name)

    def base_logderiv(self, name, dlogname):
        """Positive function symbol whose *log*-derivative has the symbol `dlogname`."""
        self.deriv[name] = Rat.sym(name) * Rat.sym(dlogname)
        self.noderiv.add(dlogname)
        return Rat.sym(name)

    def const(self, name):
        return Rat.sym(name)

    def _fresh(self, prefix):
        self._n += 1
        return '{}{}'.format(prefix, self._n)

    # -- equality modulo the square-root relations ----------------------------------
    def same(self, a, b):
        n = a.n * b.d - b.n * a.d
        return self._is_zero(n, len(self.rel) - 1)

    def is_zero(self, a):
        return self._is_zero(a.n, len(self.rel) - 1)

    def _is_zero(self, n, k):
        while k >= 0 and self.rel[k][0] not in n.symbols():
            k -= 1
        if k < 0:
            return n.is_zero()
        r, R = self.rel[k]
        by_pow = {}
        for mono, c in n.c.items():
            e = dict(mono).get(r, 0)
            rest = tuple((s, x) for (s, x) in mono if s != r)
            by_pow.setdefault(e, {})[rest] = c
        top = max(by_pow) // 2
        even = Poly()
        odd = Poly()
        for e, coeffs in by_pow.items():
            j = e // 2
            term = Poly(coeffs) * _ppow(R.n, j) * _ppow(R.d, top - j)
            if e % 2 == 0:
                even = even + term
            else:
                odd = odd + term
        return self._is_zero(even, k - 1) and self._is_zero(odd, k - 1)

    # -- constructors -----------------------------------------------------------
    def _root_of_symbol(self, s):
        for (kind, args, sym) in self.atoms:
            if kind == 'rootsym' and args == (s,):
                return sym
        name = 'r[{}]'.format(s)
        R = Rat.sym(s)
        self.rel.append((name, R))
        self.deriv[name] = self.D(R) / (Rat.const(2) * Rat.sym(name))
        sym = Rat.sym(name)
        self.atoms.append(('rootsym', (s,), sym))
        return sym

    def _root_of_const(self, c):
        """sqrt of a positive rational constant."""
        c = Fraction(c)
        if c <= 0:
            raise Unsupported('square root of a non-positive constant')
        n = c.numerator * c.denominator     # sqrt(p/q) = sqrt(pq)/q
        out = Rat.const(Fraction(1, c.denominator))
        for p, e in _prime_factors(n).items():
            out = out * Rat.const(p ** (e // 2))
            if e % 2:
                name = 'r[{}]'.format(p)
                if not any(r == name for (r, _) in self.rel):
                    self.rel.append((name, Rat.const(p)))
                    self.deriv[name] = Rat.const(0)
                out = out * Rat.sym(name)
        return out

    def sqrt(self, R):
        roots = set(r for (r, _) in self.rel)
        if len(R.n.c) == 1 and len(R.d.c) == 1 and not (R.symbols() & roots):
            (mn, cn), = R.n.c.items()
            (md, cd), = R.d.c.items()
            out = self._root_of_const(cn / cd)
            for (s, e) in mn:
                out = out * (self._root_of_symbol(s) ** e)
            for (s, e) in md:
                out = out / (self._root_of_symbol(s) ** e)
            return out
        # generic: make the argument primitive (leading coefficients 1)
        ln = R.n.c[min(R.n.c)]
        ld = R.d.c[min(R.d.c)]
        c = abs(ln / ld)       # the sign of one coefficient says nothing about the value
        Rp = Rat(R.n * Poly.const(1 / abs(ln)), R.d * Poly.const(1 / abs(ld)))
        pre = self._root_of_const(c)
        # perfect square of a known quantity?
        for (kind, args, sym) in self.atoms:
            if kind == 'root' and self.same(args[0], Rp):
                return pre * sym
        name = self._fresh('r')
        self.rel.append((name, Rp))
        self.deriv[name] = self.D(Rp) / (Rat.const(2) * Rat.sym(name))
        sym = Rat.sym(name)
        self.atoms.append(('root', (Rp,), sym))
        return pre * sym

    def power(self, R, k):
        k = Fraction(k)
        if k.denominator == 1:
            return R ** int(k)
        if k.denominator == 2:
            return self.sqrt(R) ** int(k.numerator)
        raise Unsupported('power {}'.format(k))

    def _atom(self, kind, args, make_deriv):
        for (kd, a, sym) in self.atoms:
            if kd == kind and len(a) == len(args) and all(self.same(x, y)
                                                          for x, y in zip(a, args)):
                return sym
        name = self._fresh(kind)
        sym = Rat.sym(name)
        self.atoms.append((kind, tuple(args), sym))
        self.deriv[name] = make_deriv(sym)
        return sym

    def exp(self, E):
        # exp(c log R + E0) = R**c exp(E0) for (half-)integer constants c
        pre = Rat.const(1)
        for (kind, args, sym) in list(self.atoms):
            if kind != 'log':
                continue
            (name, _), = list(sym.n.c)[0]
            if name not in E.symbols():
                continue
            c = E.diff(name)
            if c.symbols():
                continue
            cv = None
            if len(c.n.c) <= 1 and len(c.d.c) == 1:
                cv = (c.n.c.get((), Fraction(0))) / c.d.c[()]
            if cv is None or cv.denominator not in (1, 2):
                continue
            rest = E - c * sym
            if name in rest.symbols() and not self._free_of(rest, name):
                continue
            E = self._drop(rest, name)
            pre = pre * self.power(args[0], cv)
        if self.is_zero(E):
            return pre
        return pre * self._atom('exp', (E,), lambda s: s * self.D(E))

    def _free_of(self, R, name):
        return R.diff(name).n.is_zero()

    def _drop(self, R, name):
        """R with the (cancelled) symbol `name` removed from numerator and denominator."""
        if name not in R.symbols():
            return R
        if not self._free_of(R, name):
            raise Unsupported('symbol does not cancel')
        # R does not depend on `name`: substitute the constant 1
        return R.subst(name, Rat.const(1))

    def log(self, R):
        return self._atom('log', (R,), lambda s: self.D(R) / R)

    def pi(self):
        return Rat.sym('pi')

    def phi(self, z):
        """Standard normal density as exp(-z^2/2) / sqrt(2 pi)."""
        return self.exp(-(z * z) / Rat.const(2)) / self.sqrt(Rat.const(2) * self.pi())

    def Phi(self, z):
        return self._atom('Phi', (z,), lambda s: self.phi(z) * self.D(z))

    def owen_t(self, h, a):
        def d(s):
            one = Rat.const(1)
            half = Rat.const(Fraction(1, 2))
            dh = -(self.phi(h) * (self.Phi(a * h) - half)) * self.D(h)
            da = self.exp(-(h * h) * (one + a * a) / Rat.const(2)) / \
                (Rat.const(2) * self.pi() * (one + a * a)) * self.D(a)
            return dh + da
        return self._atom('T', (h, a), d)

    def skewnorm_cdf(self, z, a):
        return self.Phi(z) - Rat.const(2) * self.owen_t(z, a)

    # -- derivation ---------------------------------------------------------------
    def D(self, R):
        if R.symbols() & self.noderiv:
            raise Unsupported('second derivative of a derivative symbol')
        return (self._dpoly(R.n) * Rat(R.d) - Rat(R.n) * self._dpoly(R.d)) / Rat(R.d * R.d)

    def _dpoly(self, p):
        tot = Rat.const(0)
        for s in p.symbols():
            ds = self.deriv.get(s)
            if ds is None or ds.n.is_zero():
                continue
            tot = tot + Rat(p.diff(s)) * ds
        return tot


def _ppow(p, k):
    r = Poly.const(1)
    for _ in range(k):
        r = r * p
    return r


# ---------------------------------------------------------------------------------------
# term -> Rat

_SHAPE_FUNCS = ('numpy.asarray', 'numpy.asanyarray', 'numpy.squeeze', 'numpy.atleast_1d',
                'numpy.atleast_2d', 'numpy.ravel', 'numpy.array', 'builtins.float', 'float')
_SHAPE_METHODS = ('squeeze', 'ravel', 'flatten', 'reshape', 'copy', 'astype')
_CLIP = ('numpy.maximum', 'numpy.minimum', 'numpy.clip', 'numpy.where', 'builtins.max',
         'builtins.min', 'max', 'min', 'numpy.fmax', 'numpy.fmin', 'numpy.nan_to_num')


def _kw(t):
    return dict(t[3]) if len(t) > 3 and t[3] else {}


def _gname(f):
    return f[1] if f[0] == 'global' else None


def convert(t, alg, leaf):
    """Rat normal form of term t; leaf(term) -> Rat | None."""
    r = leaf(t)
    if r is not None:
        return r
    v = _num(t)
    if v is not None:
        return Rat.const(v)
    k = t[0]
    if k == 'global' and t[1] in ('numpy.pi', 'math.pi'):
        return alg.pi()
    if k == 'unary':
        if t[1] == '-':
            return -convert(t[2], alg, leaf)
        if t[1] == '+':
            return convert(t[2], alg, leaf)
    if k == 'binop':
        op = t[1]
        if op == '**':
            e = _num(t[3])
            if e is None:
                raise Unsupported('symbolic exponent')
            return alg.power(convert(t[2], alg, leaf), e)
        a, b = convert(t[2], alg, leaf), convert(t[3], alg, leaf)
        if op == '+':
            return a + b
        if op == '-':
            return a - b
        if op == '*':
            return a * b
        if op == '/':
            if alg.is_zero(b):
                raise Unsupported('division by zero')
            return a / b
        raise Unsupported('operator ' + op)
    if k == 'sub':
        # shape-only subscripts: [:, None], [..., np.newaxis], [0] on shape wrappers
        idx = t[2]
        parts = idx[1] if idx[0] == 'tuple' else (idx,)
        if all(p[0] == 'slice' or p == ('const', None) or
               p == ('global', 'numpy.newaxis') for p in parts):
            return convert(t[1], alg, leaf)
        raise Unsupported('subscript')
    if k == 'call':
        f = t[1]
        g = _gname(f)
        args = t[2]
        kw = _kw(t)
        if g in _CLIP:
            raise Clipped(g)
        if g in _SHAPE_FUNCS and args:
            return convert(args[0], alg, leaf)
        if f[0] == 'attr' and f[2] in _SHAPE_METHODS:
            return convert(f[1], alg, leaf)
        if g in ('numpy.sqrt', 'math.sqrt') and len(args) == 1:
            return alg.sqrt(convert(args[0], alg, leaf))
        if g in ('numpy.exp', 'math.exp') and len(args) == 1:
            return alg.exp(convert(args[0], alg, leaf))
        if g in ('numpy.log', 'math.log') and len(args) == 1:
            return alg.log(convert(args[0], alg, leaf))
        if g in ('numpy.power',) and len(args) == 2:
            e = _num(args[1])
            if e is None:
                raise Unsupported('symbolic exponent')
            return alg.power(convert(args[0], alg, leaf), e)
        if g in ('numpy.square',) and len(args) == 1:
            a = convert(args[0], alg, leaf)
            return a * a
        if g and g.startswith('scipy.stats.'):
            dist_fn = g[len('scipy.stats.'):]
            if dist_fn in ('norm.cdf', 'norm.pdf', 'norm.logcdf', 'norm.logpdf'):
                x = convert(args[0], alg, leaf)
                loc = convert(args[1], alg, leaf) if len(args) > 1 else (
                    convert(kw['loc'], alg, leaf) if 'loc' in kw else Rat.const(0))
                scale = convert(args[2], alg, leaf) if len(args) > 2 else (
                    convert(kw['scale'], alg, leaf) if 'scale' in kw else Rat.const(1))
                z = (x - loc) / scale
                if dist_fn == 'norm.cdf':
                    return alg.Phi(z)
                if dist_fn == 'norm.pdf':
                    return alg.phi(z) / scale
                if dist_fn == 'norm.logcdf':
                    return alg.log(alg.Phi(z))
                return alg.log(alg.phi(z) / scale)
            if dist_fn == 'skewnorm.cdf':
                x = convert(args[0], alg, leaf)
                a = convert(args[1], alg, leaf) if len(args) > 1 else convert(kw['a'], alg, leaf)
                loc = convert(args[2], alg, leaf) if len(args) > 2 else (
                    convert(kw['loc'], alg, leaf) if 'loc' in kw else Rat.const(0))
                scale = convert(args[3], alg, leaf) if len(args) > 3 else (
                    convert(kw['scale'], alg, leaf) if 'scale' in kw else Rat.const(1))
                return alg.skewnorm_cdf((x - loc) / scale, a)
        raise Unsupported('call to ' + (g or repr(f)[:40]))
    raise Unsupported('term kind ' + k)


def selfcheck():
    # d/dx log Phi((t - m)/s), s = sqrt(v)
    A = Algebra()
    m = A.base('m', 'dm')
    v = A.base('v', 'dv')
    t = A.const('t')
    s = A.sqrt(v)
    z = (t - m) / s
    f = A.log(A.Phi(z))
    g = (-(Rat.sym('dm')) * s - (t - m) * Rat.const(Fraction(1, 2)) * Rat.sym('dv') / s) / v * \
        A.phi(z) / A.Phi(z)
    assert A.same(A.D(f), g)
    assert not A.same(A.D(f), g * Rat.const(2))
    # LCB: d/dx (m - sqrt(beta v)) = dm - dv/2 * sqrt(beta / v)
    A = Algebra()
    m = A.base('m', 'dm')
    v = A.base('v', 'dv')
    b = A.const('beta')
    f = m - A.sqrt(b * v)
    g = Rat.sym('dm') - Rat.const(Fraction(1, 2)) * Rat.sym('dv') * A.sqrt(b / v)
    assert A.same(A.D(f), g)
    assert not A.same(A.D(f), Rat.sym('dm') + Rat.const(Fraction(1, 2)) * Rat.sym('dv') *
                      A.sqrt(b / v))
    # generic roots: sqrt(s + v)^3 == (s+v) sqrt(s+v); sqrt(2)*sqrt(3) == sqrt(6)
    A = Algebra()
    v = A.base('v', 'dv')
    s0 = A.const('s')
    r = A.sqrt(s0 + v)
    assert A.same(A.power(s0 + v, Fraction(3, 2)), (s0 + v) * r)
    assert A.same(A.sqrt(Rat.const(2)) * A.sqrt(Rat.const(3)), A.sqrt(Rat.const(6)))
    assert A.same(A.sqrt(Rat.const(4) * (s0 + v)), Rat.const(2) * r)
    assert A.same(A.D(r), Rat.sym('dv') / (Rat.const(2) * r))
    return True


_KNOWN_CALLS = ('numpy.sqrt', 'math.sqrt', 'numpy.exp', 'math.exp', 'numpy.log', 'math.log',
                'numpy.power', 'numpy.square', 'scipy.stats.norm.cdf', 'scipy.stats.norm.pdf',
                'scipy.stats.norm.logcdf', 'scipy.stats.norm.logpdf', 'scipy.stats.skewnorm.cdf')


def opaque_leaf(leaf):
    """Wrap a leaf function for the side of an identity that is *not* differentiated: a call or
    attribute the fragment does not know becomes an opaque symbol, so that a foreign quantity in a
    formula makes the identity fail (a violation) instead of leaving it undecided.  Clipping
    operators still raise Clipped."""
    def wrapped(t):
        r = leaf(t)
        if r is not None:
            return r
        if t[0] == 'call':
            g = _gname(t[1])
            if g in _CLIP or g in _SHAPE_FUNCS or g in _KNOWN_CALLS:
                return None
            if t[1][0] == 'attr' and t[1][2] in _SHAPE_METHODS:
                return None
            return Rat.sym('?' + repr(t)[:60])
        if t[0] == 'attr':
            return Rat.sym('?' + repr(t)[:60])
        return None
    return wrapped
