"""C14 - editing, copying and saving a model.

Decided: snapshot-before-mutation order in update_node, observed-data hand-over, ownership of
nested containers after copy(), an acyclicity guard for node replacement, sorted parameter
names, pickling of the model object.  Not decided: equality of generated outputs.
"""

import ast

from .. import AnalysisError, AnchorMissing
from ..cfg import cfg_of
from ..model import own_nodes
from ..values import pattern, match, find, contains, show, subterms
from .base import obligation, src, callee_name, unweak
from .C04 import pattern_term, returns, enclosing_loop, _inside

GM = 'elfi.model.graphical_model:GraphicalModel'
EM = 'elfi.model.elfi_model:ElfiModel'
NR = 'elfi.model.elfi_model:NodeReference'

COPY_PATTERNS = ('dict(_x)', '_x.copy()', 'copy.copy(_x)', 'copy.deepcopy(_x)', 'deepcopy(_x)',
                 'copy(_x)')


def is_copy_of(t, what_pat):
    for p in COPY_PATTERNS:
        m = match(t, pattern(p))
        if m is not None and match(m['x'], pattern(what_pat)) is not None:
            return True
    if t[0] == 'dict' and len(t[1]) == 1 and t[1][0][0][0] == 'starred':
        return match(t[1][0][1], pattern(what_pat)) is not None
    if t[0] == 'comp' and t[1] == 'dict':
        return any(contains(g[0], what_pat) for g in t[3])
    return False


@obligation('C14-a', 'T1', 'update_node snapshots edges before it mutates the graph', floor=5,
            necessary='a live edge view is empty after the node is removed: the replaced node '
                      'loses its children')
def c14_a(ctx):
    gm = ctx.cls(GM)
    up = ctx.own_method(gm, 'update_node')
    ex = ctx.ex(up)
    ctx.fact('networkx edge views are live: they are empty for a node after remove_node')
    node_p, upd_p = ('param', up.params[1]), ('param', up.params[2])
    removes = [c for c in ctx.calls(up, name='remove_node')]
    rm_node = [c for c in removes if c.args and ex.term(c.args[0]) == node_p]
    rm_upd = [c for c in removes if c.args and ex.term(c.args[0]) == upd_p]
    ctx.check(len(rm_node) == 1 and len(rm_upd) == 1, up, 'both nodes removed once',
              'remove_node(node) and remove_node(updating_node)',
              'update_node does not remove each of the two nodes exactly once', fn=up,
              node=removes[0] if removes else up.node)
    if not rm_node or not rm_upd:
        return
    virt = all(isinstance(c.func, ast.Attribute) and isinstance(c.func.value, ast.Name) and
               c.func.value.id == up.self_name for c in removes)
    ctx.check(virt, up, 'removal through the virtual method',
              'self.remove_node(...) (subclass clean-up of observed data runs)',
              'nodes are removed bypassing the overridable remove_node', fn=up, node=removes[0])
    # snapshot of the out edges
    re_add = [c for c in ctx.calls(up, name='add_edges_from')]
    adds = [c for c in ctx.calls(up, name='add_node') if c.args and ex.term(c.args[0]) == node_p]
    ok_snap = False
    snap_stmt = None
    for c in re_add:
        if not c.args:
            continue
        a = c.args[0]
        t = ex.term(a)
        m = match(t, pattern('list(self.source_net.edges(_n, data=True))')) or \
            match(t, pattern('tuple(self.source_net.edges(_n, data=True))')) or \
            match(t, pattern('list(self.source_net.out_edges(_n, data=True))'))
        if m is not None and m['n'] == node_p and isinstance(a, ast.Name):
            node_of_call = ctx.node(up, c)
            defs = ex.reaching(a.id, node_of_call)
            if len(defs) == 1 and defs[0].kind == 'assign':
                snap_stmt = defs[0].node.ast
                if ctx.must_precede(up, [snap_stmt], rm_node[0]):
                    ok_snap = True
    ctx.check(ok_snap, up, 'out-edges materialised before removal',
              'list(edges(node, data=True)) taken before remove_node(node)',
              'the children edges re-added after the replacement are not a materialised '
              'snapshot (with edge data) taken before the node is removed', fn=up,
              node=re_add[0] if re_add else rm_node[0])
    ok_order = bool(adds) and bool(re_add) and ctx.must_precede(up, rm_node, adds[0]) and \
        ctx.must_precede(up, adds, re_add[0]) and \
        cfg_of(up).must_pass([ctx.node(up, re_add[0])])
    ctx.check(ok_order, up, 'remove, re-create, re-attach children',
              'remove_node(node) < add_node(node) < add_edges_from(snapshot)',
              'the node is not removed, re-created and re-attached to its children in this '
              'order on every path', fn=up, node=adds[0] if adds else rm_node[0])
    # the new state is the replacement's state
    st_ok = False
    for c in adds:
        kws = dict((k.arg, k.value) for k in c.keywords)
        if 'attr_dict' in kws and match(ex.term(kws['attr_dict']),
                                        pattern("self.source_net.nodes[_u]['attr_dict']")) \
                == {'u': upd_p}:
            st_ok = True
    ctx.check(st_ok, up, 'replacement state taken over',
              "add_node(node, attr_dict=nodes[updating_node]['attr_dict'])",
              'the re-created node does not receive the state of the updating node', fn=up,
              node=adds[0] if adds else up.node)
    # incoming edges of the replacement are copied with their data before it is removed
    tr_ok = False
    tr_node = None
    for n in own_nodes(up.node):
        if isinstance(n, ast.For):
            it = ex.term(n.iter, cfg_of(up).by_stmt[id(n)])
            m = match(it, pattern('self.source_net.in_edges(_u, data=True)')) or \
                match(it, pattern('list(self.source_net.in_edges(_u, data=True))'))
            if m is not None and m['u'] == upd_p:
                for c in ast.walk(n):
                    if isinstance(c, ast.Call) and callee_name(c) == 'add_edge' and \
                            len(c.args) >= 2 and ex.term(c.args[1]) == node_p:
                        a0 = ex.term(c.args[0])
                        star = [k for k in c.keywords if k.arg is None]
                        if a0[0] == 'item' and a0[2] == 0 and star and \
                                ex.term(star[0].value)[0] == 'item' and \
                                ex.term(star[0].value)[2] == 2:
                            tr_ok = True
                            tr_node = n
    ctx.check(tr_ok and ctx.must_precede(up, [tr_node], rm_upd[0]) if tr_ok else False, up,
              'parents of the replacement transferred',
              'for u, v, data in in_edges(updating_node, data=True): add_edge(u, node, **data) '
              'before the replacement is removed',
              'the parents (with edge data) of the updating node are not transferred to the '
              'kept node before the updating node is removed', fn=up,
              node=tr_node or rm_upd[0])


@obligation('C14-b', 'T1', 'observed data follow the node; private parents are cleaned up',
            floor=5, necessary='observed data of a removed or replaced node would stay behind '
                               'under a stale name')
def c14_b(ctx):
    em = ctx.cls(EM)
    gm = ctx.cls(GM)
    up = ctx.own_method(em, 'update_node')
    ex = ctx.ex(up)
    name_p, upd_p = ('param', up.params[1]), ('param', up.params[2])
    pops = [c for c in ctx.calls(up, name='pop')
            if c.args and ex.term(c.args[0]) == upd_p and
            match(ex.term(c.func.value), pattern('self.observed')) is not None]
    sup = ctx.calls(up, 'super(*_).update_node(*_)')
    puts = [s for (s, t, k) in ctx.stores(up, 'self.observed[_]')
            if k == 'assign' and ex.term(t.slice) == name_p]
    ok = bool(pops) and len(sup) == 1 and ctx.must_precede(up, pops, sup[0]) is not None
    # pop (when present) happens before the structural update; the base update runs on all paths
    ok = bool(pops) and len(sup) == 1 and cfg_of(up).must_pass([ctx.node(up, sup[0])]) and \
        all(cfg_of(up).exists_path(ctx.node(up, p), ctx.node(up, sup[0])) and
            not cfg_of(up).exists_path(ctx.node(up, sup[0]), ctx.node(up, p)) for p in pops)
    ctx.check(ok, up, 'observation taken before the structural update',
              'observed.pop(updating_name) before super().update_node()',
              'the observation of the updating node is not popped before the structural update '
              '(it would be dropped by remove_node)', fn=up, node=pops[0] if pops else up.node)
    if sup:
        a = [ex.term(x) for x in sup[0].args]
        ctx.check(a == [name_p, upd_p], up, 'argument order',
                  'super().update_node(name, updating_name)',
                  'kept / updating node names are passed in the wrong order', fn=up, node=sup[0])
    ok = bool(puts) and bool(sup) and all(
        not cfg_of(up).exists_path(ctx.node(up, s), ctx.node(up, sup[0])) for s in puts)
    if ok:
        # the stored value is the popped one
        v = ex.term(puts[0].value)
        alts = v[1] if v[0] == 'phi' else (v,)
        ok = any(contains(a, 'self.observed.pop(_)') for a in alts)
        # stored exactly when popped: same guard variable
    ctx.check(ok, up, 'observation stored under the kept name',
              'observed[name] = popped value, after the structural update',
              'the popped observation is not stored under the kept node name after the update',
              fn=up, node=puts[0] if puts else up.node)
    # ElfiModel.remove_node
    rm = ctx.own_method(em, 'remove_node')
    exr = ctx.ex(rm)
    np_ = ('param', rm.params[1])
    pops = [c for c in ctx.calls(rm, name='pop')
            if c.args and exr.term(c.args[0]) == np_ and
            match(exr.term(c.func.value), pattern('self.observed')) is not None]
    dels = [s for (s, t, k) in ctx.stores(rm, 'self.observed[_]') if k == 'del']
    sup = ctx.calls(rm, 'super(*_).remove_node(*_)')
    ok = (bool(pops) or bool(dels)) and len(sup) == 1 and \
        cfg_of(rm).must_pass([ctx.node(rm, sup[0])]) and \
        [exr.term(x) for x in sup[0].args] == [np_]
    ctx.check(ok, rm, 'observation removed with the node',
              'observed.pop(name) and super().remove_node(name)',
              'remove_node does not drop the observation and delegate on every path', fn=rm,
              node=sup[0] if sup else rm.node)
    # the observation is dropped whenever present: guard is membership only
    for p in pops:
        ok = ctx.only_guarded_by(rm, p, ('name in self.observed',))
        ctx.check(ok, rm, 'observation dropped whenever present', 'guard: name in observed',
                  'the observation is dropped only under an extra condition', fn=rm, node=p)
    # GraphicalModel.remove_node: parents read before removal, private orphans removed virtually
    grm = ctx.own_method(gm, 'remove_node')
    exg = ctx.ex(grm)
    gp = ('param', grm.params[1])
    rms = [c for c in ctx.calls(grm, name='remove_node')
           if match(exg.term(c.func.value), pattern('self.source_net')) is not None]
    par = [c for c in ctx.calls(grm, name='get_parents')] + \
          [c for c in ctx.calls(grm, name='predecessors')]
    ok = len(rms) == 1 and bool(par) and ctx.must_precede(grm, par, rms[0]) and \
        exg.term(rms[0].args[0]) == gp
    ctx.check(ok, grm, 'parents read before removal',
              'get_parents(name) before source_net.remove_node(name)',
              'the parent list is read after the node was removed (always empty)', fn=grm,
              node=rms[0] if rms else grm.node)
    rec = [c for c in ctx.calls(grm, name='remove_node')
           if isinstance(c.func.value, ast.Name) and c.func.value.id == grm.self_name]
    ok = False
    for c in rec:
        gs = ctx.guards(grm, c)
        priv = any(pol and (match(t, pattern("_p[0] == '_'")) is not None or
                            contains(t, "_[0] == '_'") or contains(t, "_.startswith('_')"))
                   for (t, pol, _) in gs)
        orphan = any(pol and contains(t, 'self.source_net.degree(_) == 0') for (t, pol, _) in gs)
        loop = enclosing_loop(c)
        if priv and orphan and loop is not None and rms and \
                ctx.must_precede(grm, rms, c):
            ok = True
    ctx.check(ok, grm, 'private orphan parents removed',
              "for p in parents: if p[0] == '_' and degree(p) == 0: self.remove_node(p)",
              'private constant parents left without children are not removed (through the '
              'overridable method) after the node', fn=grm, node=rec[0] if rec else grm.node)


@obligation('C14-c', 'T14', 'copy() re-creates every nested container the model API mutates in '
            'place', floor=2, necessary='a shared state dict or observed dict lets an edit of the '
                                        'copy change the original')
def c14_c(ctx):
    ctx.fact('nx.DiGraph(G) copies the graph, node and edge attribute dicts one level deep: '
             "values such as graph['observed'] and nodes[n]['attr_dict'] are shared")
    em = ctx.cls(EM)
    gm = ctx.cls(GM)
    copies = [m for m in (em.methods.get('copy'), gm.methods.get('copy')) if m is not None]
    if not copies:
        raise AnchorMissing('no copy() method')
    # in-place mutation sites of the two containers (evidence that the rule is needed)
    n_mut = 0
    for f in ctx.repo.module('elfi.model.elfi_model').all_functions:
        for (s, t, k) in ctx.stores(f, "_['attr_dict'][_]") + ctx.stores(f, 'self.observed[_]') + \
                ctx.stores(f, 'self.observed') + ctx.stores(f, "_['attr_dict']"):
            if k != 'assign' or isinstance(t, ast.Subscript):
                n_mut += 1
    if n_mut < 3:
        ctx.undecided('expected in-place mutations of observed / attr_dict, found {}'.format(n_mut))
    deep = False
    obs_ok = False
    attr_ok = False
    via_setter = False
    for m in copies:
        ex = ctx.ex(m)
        for n in own_nodes(m.node):
            if isinstance(n, ast.Call):
                t = ex.term(n)
                if match(t, pattern('copy.deepcopy(self.source_net)')) is not None or \
                        match(t, pattern('deepcopy(self.source_net)')) is not None:
                    deep = True
            if isinstance(n, ast.Assign):
                v = ex.term(n.value)
                for tg in n.targets:
                    tt = ex.term(tg)
                    # observed: kopy.observed = copy(self.observed) / graph['observed'] = ...
                    if (tt[0] == 'attr' and tt[2] == 'observed') or \
                            match(tt, pattern("_.graph['observed']")) is not None:
                        if is_copy_of(v, 'self.observed') or \
                                is_copy_of(v, "self.source_net.graph['observed']"):
                            obs_ok = True
                            via_setter = via_setter or (tt[0] == 'attr' and tt[2] == 'observed')
                    # attr_dict: X['attr_dict'] = copy(X['attr_dict']) inside a loop over nodes
                    if match(tt, pattern("_['attr_dict']")) is not None and \
                            enclosing_loop(n) is not None:
                        if is_copy_of(v, "_['attr_dict']"):
                            lo = enclosing_loop(n)
                            it = ex.term(lo.iter, cfg_of(m).by_stmt[id(lo)]) \
                                if isinstance(lo, ast.For) else None
                            if it is not None and (contains(it, '_.source_net.nodes(*_)') or
                                                   contains(it, '_.source_net.nodes') or
                                                   contains(it, '_.source_net') or
                                                   contains(it, '_.nodes')):
                                attr_ok = True
    where = copies[0]
    ctx.check(deep or obs_ok, em.qname + '.copy', 'observed dict owned by the copy',
              'copy() gives the copy its own observed dict',
              "copy() shares graph['observed'] with the original: changing the copy's observed "
              'data changes the original', fn=where, node=where.node)
    ctx.check(deep or attr_ok, gm.qname + '.copy', 'node states owned by the copy',
              "copy() gives every node of the copy its own ['attr_dict']",
              "copy() shares every node's ['attr_dict'] with the original: parameter flags or "
              'state edits of the copy change the original', fn=copies[-1], node=copies[-1].node)
    # copy() gives the copy its own dict by *assigning* to .observed: that only works while the
    # setter rebinds graph['observed'] (the copy's graph dict still holds the original's dict
    # when the setter runs, so clearing or updating it in place edits the original)
    oset = em.setters.get('observed')
    if oset is None:
        raise AnchorMissing('observed setter of ElfiModel')
    ctx.touch(oset)
    exo = ctx.ex(oset)
    pname = oset.node.args.args[1].arg
    rebinds = []
    for n in own_nodes(oset.node):
        if isinstance(n, ast.Assign):
            for tg in n.targets:
                if match(exo.term(tg), pattern("_.graph['observed']")) is not None:
                    v = exo.term(n.value)
                    if v == ('param', pname) or is_copy_of(v, pname):
                        rebinds.append(n)
    ok = bool(rebinds) and cfg_of(oset).must_pass([ctx.node(oset, r) for r in rebinds])
    if deep or not via_setter:
        ok, inplace_applies = True, False     # copy() does not depend on the setter rebinding
    else:
        inplace_applies = True
    ctx.check(ok, oset, 'observed setter rebinds the dict',
              "graph['observed'] = observed on every path",
              "the observed setter does not rebind graph['observed'] on every path: a copy that "
              'assigns its observed data writes into the dict it still shares with the original',
              fn=oset, node=rebinds[0] if rebinds else oset.node)
    inplace = []
    for n in own_nodes(oset.node):
        if isinstance(n, ast.Call) and isinstance(n.func, ast.Attribute) and \
                n.func.attr in ('clear', 'update', 'pop', 'popitem', 'setdefault', '__setitem__',
                                '__delitem__'):
            if match(exo.term(n.func.value), pattern("_.graph['observed']")) is not None or \
                    match(exo.term(n.func.value), pattern('self.observed')) is not None:
                inplace.append(n)
        if isinstance(n, (ast.Assign, ast.AugAssign, ast.Delete)):
            tgs = n.targets if not isinstance(n, ast.AugAssign) else [n.target]
            for tg in tgs:
                if isinstance(tg, ast.Subscript) and (
                        match(exo.term(tg.value), pattern("_.graph['observed']")) is not None or
                        match(exo.term(tg.value), pattern('self.observed')) is not None):
                    inplace.append(n)
    ctx.check(not (inplace and inplace_applies), oset, 'observed setter leaves the previous dict alone',
              'no clear/update/item assignment on the dict being replaced',
              'the observed setter edits the previous dict in place (`{}`): that dict is shared '
              'with the model this one was copied from'.format(
                  src(inplace[0])[:60] if inplace else ''), fn=oset,
              node=inplace[0] if inplace else oset.node)
    # node-level state kept *outside* attr_dict: containers that node classes modify in place
    # (append / item assignment on self.state[K]) are shared by nx.DiGraph(G) as well
    keys = {}
    for f in ctx.repo.module('elfi.model.elfi_model').all_functions:
        fnode = getattr(f, 'node', None)
        if fnode is None or isinstance(fnode, ast.Lambda):
            continue
        for n in own_nodes(fnode):
            tgt = None
            if isinstance(n, ast.Call) and isinstance(n.func, ast.Attribute) and \
                    n.func.attr in ('append', 'extend', 'insert', 'pop', 'update', 'clear',
                                    'remove', 'setdefault'):
                tgt = n.func.value
            elif isinstance(n, (ast.Assign, ast.AugAssign)):
                t0 = n.targets[0] if isinstance(n, ast.Assign) else n.target
                if isinstance(t0, ast.Subscript):
                    tgt = t0.value
            if isinstance(tgt, ast.Subscript) and isinstance(tgt.value, ast.Attribute) and \
                    tgt.value.attr == 'state' and isinstance(tgt.value.value, ast.Name) and \
                    tgt.value.value.id == 'self' and isinstance(tgt.slice, ast.Constant) and \
                    tgt.slice.value != 'attr_dict':
                keys.setdefault(tgt.slice.value, []).append((f, n))
    if keys:
        own_all = False
        explicit_all = set()
        for m in copies:
            ex = ctx.ex(m)
            for lo in [x for x in own_nodes(m.node) if isinstance(x, ast.For)]:
                it = ex.term(lo.iter, cfg_of(m).by_stmt[id(lo)])
                if not (contains(it, '_.source_net.nodes(*_)') or contains(it, '_.source_net.nodes')
                        or contains(it, '_.source_net')):
                    continue
                for inner in [x for x in ast.walk(lo) if isinstance(x, ast.For) and x is not lo]:
                    for a in ast.walk(inner):
                        if isinstance(a, ast.Assign) and isinstance(a.targets[0], ast.Subscript) \
                                and isinstance(a.value, ast.Call) and \
                                callee_name(a.value) in ('deepcopy', 'copy') and \
                                ex.term(a.targets[0].slice)[0] in ('elem', 'item'):
                            own_all = True
                explicit = set()
                for a in ast.walk(lo):
                    if isinstance(a, ast.Assign) and isinstance(a.targets[0], ast.Subscript) and \
                            isinstance(a.targets[0].slice, ast.Constant) and \
                            isinstance(a.value, ast.Call) and \
                            callee_name(a.value) in ('deepcopy', 'copy', 'list', 'dict'):
                        explicit.add(a.targets[0].slice.value)
                explicit_all |= explicit
        for key in sorted(keys, key=str):
            (f0, n0) = keys[key][0]
            ctx.check(deep or own_all or key in explicit_all, gm.qname + '.copy',
                      'node-level state `{}` owned by the copy'.format(key),
                      'copy() re-creates self.state[{!r}] for the copy'.format(key),
                      '{} modifies self.state[{!r}] in place (`{}`) but copy() shares that '
                      'container with the original: adapting the copy changes the original'
                      .format(f0.qname.split(':')[-1], key, src(n0)[:50]), fn=copies[-1],
                      node=copies[-1].node)
    # the copy is a new graph object, not the same one
    g = gm.methods.get('copy')
    if g is not None:
        ex = ctx.ex(g)
        st = [s for (s, t, k) in ctx.stores(g, '_.source_net') if k == 'assign']
        ok = any(match(ex.term(s.value), pattern('nx.DiGraph(self.source_net)')) is not None or
                 contains(ex.term(s.value), 'deepcopy(self.source_net)') or
                 match(ex.term(s.value), pattern('self.source_net.copy()')) is not None
                 for s in st)
        ctx.check(ok, g, 'graph structure copied', 'kopy.source_net = nx.DiGraph(self.source_net)',
                  'the copy does not get a new graph built from the original', fn=g,
                  node=st[0] if st else g.node)
        rr = returns(g)
        ok = bool(rr) and all(ex.term(r.value) != ('param', 'self') for r in rr)
        ctx.check(ok, g, 'a new object is returned', 'returns the new instance',
                  'copy() returns self', fn=g, node=rr[0] if rr else g.node)


@obligation('C14-d', 'T11', 'replacing a node by one of its descendants is refused', floor=1,
            necessary='the kept children would be re-attached below their own descendant: a '
                      'cycle')
def c14_d(ctx):
    gm = ctx.cls(GM)
    em = ctx.cls(EM)
    nr = ctx.cls(NR)
    chain = [ctx.own_method(nr, 'become'), ctx.own_method(em, 'update_node'),
             ctx.own_method(gm, 'update_node')]
    found = None
    for f in chain:
        ex = ctx.ex(f)
        for r in ctx.stmts(f, ast.Raise):
            for (t, pol, tast) in ctx.guards(f, r):
                if not pol:
                    continue
                t = unweak(t)    # only locates the guard; what it establishes is checked below
                if contains(t, 'nx.ancestors(*_)') or contains(t, 'nx.descendants(*_)') or \
                        contains(t, 'nx.has_path(*_)'):
                    # must dominate the first mutation in this function
                    muts = [c for c in ctx.calls(f) if callee_name(c) in
                            ('remove_node', 'add_node', 'add_edge', 'add_edges_from',
                             'update_node')]
                    tn = ctx.node(f, tast)
                    if all(cfg_of(f).dominates(tn, ctx.node(f, c)) for c in muts):
                        found = (f, r, t)
                if pol is True and contains(t, 'not nx.is_directed_acyclic_graph(_)'):
                    found = (f, r, t)
    ctx.check(found is not None, chain[-1], 'cycle guard',
              'raise under an ancestor / descendant test before the graph is touched'
              + (' ({})'.format(found[0].name) if found else ''),
              'no API on the become() path establishes that the replacement does not depend on '
              'the replaced node: a.become(descendant_of_a) silently creates a cycle',
              fn=found[0] if found else chain[-1], node=found[1] if found else chain[-1].node)
    # where the guard is an ancestor test: at every mutation of the graph it is established that
    # the replaced node is NOT an ancestor of the replacement (a raise under `A and B` or a
    # negated membership does not establish it)
    if found is not None and contains(found[2], 'nx.ancestors(*_)'):
        f = found[0]
        ex = ctx.ex(f)
        muts = [c for c in ctx.calls(f) if callee_name(c) in
                ('remove_node', 'add_node', 'add_edge', 'add_edges_from')]
        np_, up_ = ('param', f.params[1]), ('param', f.params[2])
        for c in muts[:1] + muts[-1:]:
            st = c
            while not isinstance(st, ast.stmt):
                st = st._parent
            facts = ctx.guards(f, st)
            est = any((not pol) and match(t, pattern('_n in nx.ancestors(self.source_net, _u)'))
                      is not None and
                      match(t, pattern('_n in nx.ancestors(self.source_net, _u)'))['n'] == np_ and
                      match(t, pattern('_n in nx.ancestors(self.source_net, _u)'))['u'] == up_
                      for (t, pol, _) in facts)
            same = any((not pol) and match(t, pattern('_a == _b')) is not None and
                       {match(t, pattern('_a == _b'))['a'], match(t, pattern('_a == _b'))['b']}
                       == {np_, up_} for (t, pol, _) in facts)
            ctx.check(est and same, f, 'graph touched only when the replaced node is neither the '
                      'replacement nor one of its ancestors',
                      'not (node == updating_node or node in ancestors(updating_node))',
                      'at `{}` it is not established that the replaced node is not an ancestor '
                      'of (or equal to) the replacement'.format(src(c)[:50]), fn=f, node=c)
    # become: same model required, names passed as (kept, replacement)
    be = chain[0]
    ex = ctx.ex(be)
    calls = ctx.calls(be, name='update_node')
    ok = len(calls) == 1 and [ex.term(a) for a in calls[0].args] == [
        pattern_term('self.name'), ('attr', ('param', be.params[1]), 'name')]
    ctx.check(ok, be, 'become argument order', 'model.update_node(self.name, other_node.name)',
              'become passes the node names in the wrong order', fn=be,
              node=calls[0] if calls else be.node)
    g = False
    for r in ctx.stmts(be, ast.Raise):
        for (t, pol, tast) in ctx.guards(be, r):
            if pol and contains(t, '_.model is not self.model'):
                g = True
    ctx.check(g, be, 'same-model guard', 'raises for a node of another model',
              'become accepts a node of a different model', fn=be, node=be.node)


@obligation('C14-e', 'T8', 'parameter names are the sorted parameter nodes; the setter visits '
            'every node', floor=3,
            necessary='an unsorted list makes the column order depend on insertion order')
def c14_e(ctx):
    em = ctx.cls(EM)
    getter = em.methods.get('parameter_names')
    setter = em.setters.get('parameter_names')
    if getter is None or setter is None:
        raise AnchorMissing('parameter_names property / setter')
    ctx.touch(getter)
    rr = returns(getter)
    ok = False
    if len(rr) == 1:
        t = ctx.term(getter, rr[0].value)
        m = match(t, pattern('sorted(_c)'))
        if m is not None and m['c'][0] == 'comp':
            c = m['c']
            it = c[3][0][0]
            ifs = c[3][0][1]
            ok = match(it, pattern('self.nodes')) is not None and len(ifs) == 1 and \
                contains(ifs[0], "'_parameter' in _['attr_dict']") and c[2][0] == 'elem'
    ctx.check(ok, getter, 'sorted parameter nodes',
              "sorted(n for n in nodes if '_parameter' in state(n)['attr_dict'])",
              'parameter_names is not the sorted list of nodes flagged _parameter', fn=getter,
              node=rr[0] if rr else getter.node)
    ctx.touch(setter)
    ex = ctx.ex(setter)
    loops = [n for n in own_nodes(setter.node) if isinstance(n, ast.For)]
    ok = False
    for lo in loops:
        it = ex.term(lo.iter, cfg_of(setter).by_stmt[id(lo)])
        if match(it, pattern('self.nodes')) is None:
            continue
        sets = [n for n in ast.walk(lo) if isinstance(n, ast.Assign) and
                any(match(ex.term(tg), pattern("_['attr_dict']['_parameter']")) is not None
                    for tg in n.targets)]
        pops = [n for n in ast.walk(lo) if isinstance(n, ast.Call) and callee_name(n) == 'pop' and
                n.args and ex.term(n.args[0]) == ('const', '_parameter')] + \
               [n for n in ast.walk(lo) if isinstance(n, ast.Delete)]
        if sets and pops:
            sg = [(t, pol) for (t, pol, _) in ctx.guards(setter, sets[0])
                  if match(t, pattern('_n in _s')) is not None]
            pg = [(t, pol) for (t, pol, _) in ctx.guards(setter, pops[0])]
            member = [t for (t, pol) in sg if pol]
            ok = bool(member) and any((t, False) in pg for t in member)
            # ... and the loop ends only by exhausting the nodes: an early exit leaves the
            # flag on the nodes that were not reached
            early = [n for n in ast.walk(lo) if isinstance(n, ast.Return) or
                     (isinstance(n, ast.Break) and enclosing_loop(n) is lo)]
            if early:
                ok = False
    ctx.check(ok, setter, 'setter visits every node',
              'flag set for listed nodes, removed for all others',
              'the setter does not set the flag on the listed nodes and clear it on every other '
              'node', fn=setter, node=loops[0] if loops else setter.node)
    r_ok = any(pol and contains(t, '0 < len(_)') for r in ctx.stmts(setter, ast.Raise)
               for (t, pol, _) in ctx.guards(setter, r))
    ctx.check(r_ok, setter, 'unknown names refused', 'raises for names that are not nodes',
              'names that are not nodes of the model are silently accepted', fn=setter,
              node=setter.node)


@obligation('C14-f', 'T8', 'save and load pickle the model object under the same path', floor=2,
            necessary='a different path or a partial dump loses the model')
def c14_f(ctx):
    em = ctx.cls(EM)
    sv = ctx.own_method(em, 'save')
    ldm = ctx.own_method(em, 'load')
    exs, exl = ctx.ex(sv), ctx.ex(ldm)
    d = ctx.calls(sv, 'pickle.dump(self, *_)')
    ctx.check(len(d) == 1 and cfg_of(sv).must_pass([ctx.node(sv, d[0])]), sv, 'whole model dumped',
              'pickle.dump(self, file)', 'save does not pickle the model object itself', fn=sv,
              node=d[0] if d else sv.node)
    l = ctx.calls(ldm, 'pickle.load(_)')
    rr = returns(ldm)
    ok = len(l) == 1 and bool(rr) and contains(exl.term(rr[-1].value), 'pickle.load(_)')
    ctx.check(ok, ldm, 'model loaded', 'return pickle.load(file)',
              'load does not return the unpickled object', fn=ldm, node=l[0] if l else ldm.node)
    if d and l and len(d[0].args) >= 2:
        ps = exs.term(d[0].args[1])
        pl = exl.term(l[0].args[0])
        ms = match(ps, pattern("open(_p, 'wb')"))
        ml = match(pl, pattern("open(_p, 'rb')"))
        ok = ms is not None and ml is not None

        def shape(t):
            # normalise  self.name -> NAME, name -> NAME
            from ..values import subst
            return subst(subst(t, {pattern_term('self.name'): ('param', 'NAME')}),
                         {('param', 'name'): ('param', 'NAME')})
        if ok:
            ok = shape(ms['p']) == shape(ml['p'])
        ctx.check(ok, sv, 'same file name on both sides',
                  "name + '.pkl' under prefix, opened 'wb' / 'rb'",
                  'save and load build different paths: {} vs {}'.format(
                      show(ps)[:80], show(pl)[:80]), fn=sv, node=d[0])


@obligation('C14-g', 'T5 T8', 'positional parents are numbered densely in declaration order',
            floor=4, necessary='a default index that counts named parents too leaves a gap; '
                               'parents listed in another order swap the operation\'s inputs')
def c14_g(ctx):
    gm = ctx.cls(GM)
    ae = ctx.own_method(gm, 'add_edge')
    ex = ctx.ex(ae)
    dflt = [n for n in own_nodes(ae.node) if isinstance(n, ast.Assign) and
            isinstance(n.targets[0], ast.Name) and n.targets[0].id == ae.params[3]]
    ok = len(dflt) == 1 and match(ex.term(dflt[0].value),
                                  pattern('len(self.get_parents(child_name))')) is not None and \
        any(pol and match(t, pattern('param_name is None')) is not None
            for (t, pol, _) in ctx.guards(ae, dflt[0]))
    ctx.check(ok, ae, 'default index = number of positional parents so far',
              'param_name = len(get_parents(child)) when None',
              'the default positional index is not the number of positional parents the child '
              'already has', fn=ae, node=dflt[0] if dflt else ae.node)
    adds = ctx.calls(ae, 'self.source_net.add_edge(*_)')
    ok = bool(adds) and all(
        [ex.term(a) for a in c.args] == [('param', ae.params[1]), ('param', ae.params[2])] and
        'param' in [k.arg for k in c.keywords] for c in adds)
    ctx.check(ok, ae, 'edge direction parent -> child with its parameter',
              'add_edge(parent, child, param=param_name)',
              'the edge is not added from parent to child carrying its parameter', fn=ae,
              node=adds[0] if adds else ae.node)
    r = [s for s in ctx.stmts(ae, ast.Raise)]
    ok = sum(1 for s in r if any((not pol) and match(t, pattern('self.has_node(_)')) is not None
                                 for (t, pol, _) in ctx.guards(ae, s))) >= 2
    ctx.check(ok, ae, 'both end points must exist', 'raises for an unknown parent or child',
              'an edge to / from a node that does not exist is accepted', fn=ae, node=ae.node)
    gp = ctx.own_method(gm, 'get_parents')
    exg = ctx.ex(gp)
    rr = returns(gp)
    ok = False
    if rr:
        t = exg.term(rr[-1].value)
        ok = t[0] == 'comp' and match(t[3][0][0], pattern('sorted(_a, key=itemgetter(0))')) \
            is not None and ((t[2][0] == 'sub' and t[2][2] == ('const', 1)) or
                             (t[2][0] == 'item' and t[2][2] == 1))
    ctx.check(ok, gp, 'positional parents sorted by their index',
              '[a[1] for a in sorted(args, key=itemgetter(0))]',
              'get_parents does not return the positional parents ordered by their index',
              fn=gp, node=rr[-1] if rr else gp.node)
    apps = ctx.calls(gp, name='append')
    ok = bool(apps) and all(any(pol and match(t, pattern("isinstance(_p, int)")) is not None
                                for (t, pol, _) in ctx.guards(gp, c)) for c in apps)
    ctx.check(ok, gp, 'only integer-indexed parents are positional', 'isinstance(param, int)',
              'named parents are listed among the positional ones', fn=gp,
              node=apps[0] if apps else gp.node)
    an = ctx.own_method(gm, 'add_node')
    ok = any(any(pol and match(t, pattern('self.has_node(name)')) is not None
                 for (t, pol, _) in ctx.guards(an, s)) for s in ctx.stmts(an, ast.Raise))
    ctx.check(ok, an, 'duplicate names refused', 'raises when the node exists',
              'adding a node under an existing name is accepted', fn=an, node=an.node)
    # non-node parents become private constants named after the child
    nr = ctx.cls(NR)
    ap = nr.lookup('_add_parents')
    if ap is not None:
        ctx.touch(ap)
        exa = ctx.ex(ap)
        cs = ctx.calls(ap, 'Constant(*_)')
        ok = bool(cs) and all(
            any(pol is False and match(t, pattern('isinstance(_p, NodeReference)')) is not None
                for (t, pol, _) in ctx.guards(ap, c)) and
            contains(exa.term([k.value for k in c.keywords if k.arg == 'name'][0]),
                     "'_' + self.name") for c in cs if any(k.arg == 'name' for k in c.keywords))
        ctx.check(ok, ap, 'plain values become private constants',
                  "Constant(value, name='_<child>_xxxx') for non-node parents",
                  'plain parent values are not wrapped into private constants named after the '
                  'child (remove_node could not clean them up)', fn=ap,
                  node=cs[0] if cs else ap.node)
        ed = ctx.calls(ap, 'self.model.add_edge(*_)')
        ok = bool(ed) and all(len(c.args) == 2 and
                              exa.term(c.args[1]) == pattern_term('self.name') for c in ed) and \
            all(isinstance(enclosing_loop(c), ast.For) for c in ed)
        ctx.check(ok, ap, 'parents attached in the order given', 'for parent in parents: add_edge',
                  'the parents are not attached one by one in the order given', fn=ap,
                  node=ed[0] if ed else ap.node)


@obligation('C14-h', 'T7 T8', 'become() transfers every incoming edge of the replacement together '
            'with its edge data', floor=2,
            necessary='edges rebuilt from the positional parent list lose the parents passed by '
                      'name (and any other edge data): the operation silently runs with its '
                      'defaults')
def c14_h(ctx):
    gm = ctx.cls(GM)
    un = ctx.own_method(gm, 'update_node')
    ex = ctx.ex(un)
    upd, node = ('param', un.params[2]), ('param', un.params[1])
    loops = [l for l in own_nodes(un.node) if isinstance(l, ast.For)]
    ok = False
    site = None
    for l in loops:
        it = ex.term(l.iter)
        m = match(it, pattern('self.source_net.in_edges(_u, data=True)'))
        if m is None or m['u'] != upd:
            continue
        for c in ast.walk(l):
            if isinstance(c, ast.Call) and isinstance(c.func, ast.Attribute) and \
                    c.func.attr == 'add_edge':
                a = [ex.term(x) for x in c.args]
                starkw = [k for k in c.keywords if k.arg is None]
                # add_edge(u, node, **data) with (u, v, data) the loop's triple
                if len(a) == 2 and a[1] == node and a[0][0] == 'item' and a[0][2] == 0 and \
                        starkw and ex.term(starkw[0].value)[0] == 'item' and \
                        ex.term(starkw[0].value)[2] == 2 and \
                        ex.term(starkw[0].value)[1] == a[0][1]:
                    ok = True
                    site = c
    also = [c for c in ctx.calls(un, name='add_edges_from')
            if contains(ex.term(c.args[0]), 'self.source_net.in_edges(_, data=True)')]
    ctx.check(ok or bool(also), un, 'incoming edges copied with their data',
              'for u, v, data in in_edges(updating_node, data=True): add_edge(u, node, **data)',
              'the edges into the replaced node are not copied from the replacement\'s incoming '
              'edges with their data (named parents and indices can be lost)', fn=un,
              node=site or un.node)
    # outgoing edges of the replaced node are kept with their data
    oe = [s for s in own_nodes(un.node) if isinstance(s, ast.Assign) and
          match(ex.term(s.value), pattern('list(self.source_net.edges(_n, data=True))')) is not None
          and match(ex.term(s.value), pattern('list(self.source_net.edges(_n, data=True))'))['n']
          == node]
    back = [c for c in ctx.calls(un, name='add_edges_from')]
    rm = [c for c in ctx.calls(un, 'self.remove_node(_)') if ex.term(c.args[0]) == node]
    ok2 = bool(oe) and bool(back) and bool(rm) and \
        ctx.must_precede(un, oe, ctx_stmt14(rm[0])) and \
        any(ex.term(c.args[0]) == ex.term(oe[0].value) or
            (isinstance(c.args[0], ast.Name) and c.args[0].id == oe[0].targets[0].id)
            for c in back)
    ctx.check(ok2, un, 'children kept: outgoing edges saved before removal and restored',
              'out_edges = list(edges(node, data=True)); remove_node(node); add_edges_from(..)',
              'the outgoing edges of the replaced node are not saved (with data) before it is '
              'removed and restored afterwards', fn=un, node=oe[0] if oe else un.node)


def ctx_stmt14(node):
    n = node
    while n is not None and not isinstance(n, ast.stmt):
        n = getattr(n, '_parent', None)
    return n


@obligation('C14-i', 'T11 T7', 'the observed data move with a replacement exactly when the '
            'replacement had some; the reference that was replaced stays usable; a copy is '
            'returned', floor=6,
            necessary='a negated membership test pops a missing key or never moves the data; a '
                      'replacement whose reference keeps its old name points at a node that no '
                      'longer exists')
def c14_i(ctx):
    em = ctx.cls(EM)
    up = ctx.own_method(em, 'update_node')
    ex = ctx.ex(up)
    cfg = cfg_of(up)
    name_p, upd_p = ('param', up.params[1]), ('param', up.params[2])
    MEM = '{} in self.observed'.format(up.params[2])
    pops = [c for c in ctx.calls(up, name='pop')
            if c.args and ex.term(c.args[0]) == upd_p and
            match(ex.term(c.func.value), pattern('self.observed')) is not None]
    puts = [s for (s, t, k) in ctx.stores(up, 'self.observed[_]')
            if k == 'assign' and ex.term(t.slice) == name_p]
    if len(pops) != 1 or len(puts) != 1:
        ctx.undecided('pop / store of the observation in update_node not found')
    ok = any(pol and match(t, pattern(MEM)) is not None for (t, pol, _) in ctx.guards(up, pops[0]))
    ctx.check(ok, up, 'observation taken exactly when the replacement has one',
              'if updating_name in self.observed: obs = self.observed.pop(updating_name)',
              'the observation is not popped under `updating_name in self.observed`', fn=up,
              node=pops[0])
    # stored exactly when popped: a flag that is True exactly on the popping branch (or the
    # store sits on the popping branch itself)
    same_branch = cfg.must_precede([ctx.node(up, pops[0])], ctx.node(up, puts[0]))
    flag_ok = False
    for (t, pol, ta) in ctx.guards(up, puts[0]):
        if not isinstance(ta, ast.Name) or not pol:
            continue
        defs = [n for n in own_nodes(up.node) if isinstance(n, ast.Assign) and
                isinstance(n.targets[0], ast.Name) and n.targets[0].id == ta.id]
        tr = [d for d in defs if isinstance(d.value, ast.Constant) and d.value.value is True]
        fa = [d for d in defs if isinstance(d.value, ast.Constant) and d.value.value is False]
        if len(tr) == 1 and len(fa) == 1 and len(defs) == 2:
            key = lambda n: sorted(sorted(map(repr, g)) for g in ctx.guard_groups(up, n))
            flag_ok = key(tr[0]) == key(pops[0]) and not ctx.guard_groups(up, fa[0]) and \
                cfg.must_precede([ctx.node(up, fa[0])], ctx.node(up, tr[0])) and \
                cfg.must_precede([ctx.node(up, fa[0])], ctx.node(up, puts[0]))
    ctx.check(same_branch or flag_ok, up, 'observation stored exactly when one was taken',
              'flag False; set True where popped; store under the flag',
              'the observation is stored under a condition that is not `one was popped` (None '
              'stored for unobserved nodes, or observed data dropped)', fn=up, node=puts[0])
    # ElfiModel.copy returns the copy it built from the base copy
    cp = ctx.own_method(em, 'copy')
    exc = ctx.ex(cp)
    rr = returns(cp)
    falls = [p for (p, lab) in cfg_of(cp).ret.pred
             if not (p.kind == 'stmt' and isinstance(p.ast, ast.Return))]
    ok = len(rr) == 1 and not falls and match_any_(exc.term(rr[0].value),
                                                   ('super(*_).copy()', 'super().copy()'))
    ctx.check(ok, cp, 'copy returns the new model', 'kopy = super().copy(); ...; return kopy',
              'ElfiModel.copy does not return the model built by the base copy', fn=cp,
              node=rr[0] if rr else cp.node)
    # become(): same-model check, structural update, both references end up on the kept node
    nr = ctx.cls('elfi.model.elfi_model:NodeReference')
    be = ctx.own_method(nr, 'become')
    exb = ctx.ex(be)
    oth = ('param', be.params[1])
    rs = ctx.stmts(be, ast.Raise)
    ok = bool(rs) and any(
        any(pol and match_any_(t, ('{0}.model is not self.model'.format(be.params[1]),
                                   'self.model is not {0}.model'.format(be.params[1])))
            for (t, pol, _) in ctx.guards(be, r)) for r in rs)
    un = ctx.calls(be, 'self.model.update_node(*_)')
    ok = ok and len(un) == 1 and all(ctx.must_precede(be, [cfg_parent_if(r)], un[0]) for r in rs)
    ctx.check(ok, be, 'replacement from another model refused before anything changes',
              'if other_node.model is not self.model: raise', 'a node of another model is '
              'accepted as replacement (its name is looked up in this model)', fn=be,
              node=rs[0] if rs else be.node)
    ok = len(un) == 1 and [exb.term(a) for a in un[0].args] == [
        pattern_term('self.name'), ('attr', oth, 'name')] and \
        cfg_of(be).must_pass([ctx.node(be, un[0])])
    ctx.check(ok, be, 'kept node first, replacement second',
              'self.model.update_node(self.name, other_node.name)',
              'become does not call update_node(kept name, replacement name)', fn=be,
              node=un[0] if un else be.node)
    st_n = [s for (s, t, k) in ctx.stores(be, '{}.name'.format(be.params[1]))
            if isinstance(s, ast.Assign)]
    st_m = [s for (s, t, k) in ctx.stores(be, '{}.model'.format(be.params[1]))
            if isinstance(s, ast.Assign)]
    ok = len(st_n) == 1 and len(st_m) == 1 and bool(un) and \
        exb.term(st_n[0].value) == pattern_term('self.name') and \
        exb.term(st_m[0].value) == pattern_term('self.model') and \
        cfg_of(be).must_pass([ctx.node(be, st_n[0])]) and \
        cfg_of(be).must_pass([ctx.node(be, st_m[0])]) and \
        ctx.must_precede(be, un, st_n[0])
    ctx.check(ok, be, 'the replacement\'s reference points at the kept node afterwards',
              'other_node.name = self.name; other_node.model = self.model',
              'after become() the replacement\'s reference still names the removed node', fn=be,
              node=(st_n or st_m or [be.node])[0])


def match_any_(t, pats):
    from ..values import match_any
    return match_any(t, pats) is not None


def cfg_parent_if(node):
    n = getattr(node, '_parent', None)
    while n is not None and not isinstance(n, ast.If):
        n = getattr(n, '_parent', None)
    return n.test if n is not None else node
