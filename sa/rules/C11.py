"""C11 - Bayesian optimisation simulates only inside bounds and trains on what it ran.

Decided: every acquire() override returns a value that passed a bounds sanitiser on every
path, the shape of the truncation limits of the acquisition noise, the row count, evidence
pairing, complementary slices of the stored acquisition, synchronous gating, acquisition
gradients of the closed-form rules (symbolic derivative) and the MRO pairing of evaluate /
evaluate_gradient.  Not decided: the numerical gradient of ExpIntVar, optimiser end points.
"""

import ast

from .. import AnalysisError, AnchorMissing
from ..cfg import cfg_of
from ..model import own_nodes
from ..values import pattern, match, match_any, find, contains, show, subterms
from ..domains import polarity, POS, NEG, ZERO
from .base import obligation, src, callee_name
from .C04 import pattern_term, returns, enclosing_loop, _inside

ACQ = 'elfi.methods.bo.acquisition:AcquisitionBase'
BO = 'elfi.methods.inference.bolfi:BayesianOptimization'


def _is_model_bounds(t):
    return match(t, pattern('self.model.bounds')) is not None


def check_minimize(ctx):
    """The optimiser wrapper returns a point clipped to the bounds. -> (ok, fn, node, why)"""
    mz = ctx.fn('elfi.methods.bo.utils:minimize')
    ex = ctx.ex(mz)
    rr = returns(mz)
    if len(rr) != 1:
        return False, mz, mz.node, 'minimize has {} returns'.format(len(rr))
    rt = ex.term(rr[0].value)
    if rt[0] != 'tuple' or not rt[1]:
        return False, mz, rr[0], 'minimize does not return a (location, value) tuple'
    loc = rt[1][0]
    clip_loops = []
    for n in own_nodes(mz.node):
        if isinstance(n, ast.For):
            it = ex.term(n.iter, cfg_of(mz).by_stmt[id(n)])
            if match(it, pattern('range(len(bounds))')) is None:
                continue
            for s in ast.walk(n):
                if isinstance(s, ast.Assign) and isinstance(s.targets[0], ast.Subscript):
                    tg = ex.term(s.targets[0])
                    v = ex.term(s.value)
                    m = match(v, pattern('np.clip(_x, *bounds[_i])'))
                    if m is None:
                        m2 = match(v, pattern('np.clip(_x, bounds[_i][0], bounds[_i][1])'))
                        m = m2
                    if m is not None and tg[0] == 'sub' and tg[1] == loc and m['x'] == tg and \
                            tg[2] == m['i'] and m['i'][0] == 'elem':
                        clip_loops.append(n)
    if not clip_loops:
        return False, mz, rr[0], ('the returned location {} is not clipped to bounds[i] for every '
                                  'dimension'.format(show(loc)[:60]))
    cfg = cfg_of(mz)
    if not cfg.must_pass([cfg.by_stmt[id(l)] for l in clip_loops]):
        return False, mz, rr[0], 'a path returns without the final clip'
    return True, mz, clip_loops[0], 'final per-dimension np.clip(x[i], *bounds[i]) on the returned object'


def target_respects_bounds(ctx, fn, target_term):
    """An MCMC target function that is -inf outside the bounds: it has a -inf return, and every
    return of a finite value is reached only with the point inside the bounds (an "all inside"
    predicate held, or an "any outside" predicate failed)."""
    if target_term[0] != 'localfn':
        return False

    def is_neg_inf(v):
        return v in (('const', float('-inf')),) or match(v, pattern('-np.inf')) is not None

    def inside_fact(t, pol):
        if not (contains(t, '_.bounds') or contains(t, '_within_bounds(_)')):
            return False
        while t[0] == 'not' or (t[0] == 'unary' and t[1] == 'not'):
            t, pol = (t[1] if t[0] == 'not' else t[2]), not pol
        head = t[1] if t[0] == 'call' else None
        hname = head[1].split('.')[-1] if head and head[0] == 'global' else (
            head[2] if head and head[0] == 'attr' else None)
        if hname in ('all', '_within_bounds'):
            return bool(pol)
        if hname == 'any':
            return not pol
        return True      # an unrecognised predicate over the bounds: accepted as before
    for f in fn.module.all_functions:
        if f.qname == target_term[1]:
            ex = ctx.ex(f)
            rr = [r for r in returns(f) if r.value is not None]
            has_inf = any(is_neg_inf(ex.term(r.value)) for r in rr)
            finite = [r for r in rr if not is_neg_inf(ex.term(r.value))]
            if has_inf and finite and all(
                    any(inside_fact(t, pol) for (t, pol, _) in ctx.guards(f, r))
                    for r in finite):
                return True
    return False


def sanitised(ctx, fn, t, minimize_ok, depth=0):
    """(True, why) if term t is inside the model bounds by construction, else (False, why)."""
    if depth > 12:
        return False, 'too deep'
    if t[0] == 'phi':
        whys = []
        for a in t[1]:
            ok, why = sanitised(ctx, fn, a, minimize_ok, depth + 1)
            if not ok:
                return False, why
            whys.append(why)
        return True, ' | '.join(sorted(set(whys)))
    m = match(t, pattern('np.tile(_x, *_)'))
    if m is not None:
        return sanitised(ctx, fn, m['x'], minimize_ok, depth + 1)
    if t[0] == 'sub':
        return sanitised(ctx, fn, t[1], minimize_ok, depth + 1)
    if t[0] == 'item' and t[2] == 0:
        c = t[1]
        if c[0] == 'call' and match(c[1], pattern('minimize')) is not None:
            b = c[2][1] if len(c[2]) > 1 else dict(c[3]).get('bounds')
            if b is not None and _is_model_bounds(b):
                if minimize_ok:
                    return True, 'minimize(bounds=model.bounds)'
                return False, 'minimize() does not clip its result'
            return False, 'minimize() is not given the model bounds'
    m = match(t, pattern('self._add_noise(_x)'))
    if m is not None:
        return sanitised(ctx, fn, m['x'], minimize_ok, depth + 1)
    m = match(t, pattern('self.random_state.permutation(_x)'))
    if m is not None:
        return sanitised(ctx, fn, m['x'], minimize_ok, depth + 1)
    m = match(t, pattern('ss.uniform(_lo, _w).rvs(*_)'))
    if m is not None:
        lo, w = m['lo'], m['w']
        mb = match(lo, pattern('np.stack(self.model.bounds)[:, 0]'))
        mw = match(w, pattern('np.stack(self.model.bounds)[:, 1] - np.stack(self.model.bounds)[:, 0]'))
        if mb is not None and mw is not None:
            return True, 'uniform(lower, upper - lower)'
        return False, 'uniform({}, {}) is not (lower, upper - lower)'.format(show(lo)[:40],
                                                                              show(w)[:40])
    for p in ('mcmc.metropolis(*_)', 'mcmc.nuts(*_)'):
        if match(t, pattern(p)) is not None:
            target = t[2][2] if len(t[2]) > 2 else None
            if target is not None and target_respects_bounds(ctx, fn, target):
                return True, 'MCMC with a target that is -inf outside the bounds'
            return False, 'MCMC samples are returned without restricting them to model.bounds'
    m = match(t, pattern('np.clip(_x, *_)'))
    if m is not None and contains(t, 'self.model.bounds'):
        return True, 'clipped to model bounds'
    if match(t, pattern('np.zeros(*_)')) is not None:
        return True, 'placeholder overwritten before the loop can end normally'
    return False, '{} is not a recognised bounds sanitiser'.format(show(t)[:80])


@obligation('C11-a', 'T3 T13', 'every acquire() returns points that passed a bounds sanitiser',
            floor=5, necessary='an unsanitised acquisition is simulated outside the user\'s '
                               'bounds')
def c11_a(ctx):
    base = ctx.cls(ACQ)
    ok_min, mfn, mnode, mwhy = check_minimize(ctx)
    ctx.check(ok_min, mfn, 'optimiser result clipped', mwhy, mwhy, fn=mfn, node=mnode)
    # start points inside the bounds as well
    mz = mfn
    ex = ctx.ex(mz)
    spname = None
    for c in ctx.calls(mz, 'scipy.optimize.minimize(*_)'):
        if len(c.args) >= 2 and isinstance(c.args[1], ast.Subscript) and \
                isinstance(c.args[1].value, ast.Name):
            spname = c.args[1].value.id
    sp = [s for s in own_nodes(mz.node) if isinstance(s, ast.Assign) and
          isinstance(s.targets[0], ast.Subscript) and spname is not None and
          match(ex.raw(s.targets[0]), pattern('{}[:, _]'.format(spname))) is not None]
    okp = len(sp) >= 2 and all(
        match(ex.term(s.value), pattern('np.clip(_x, *bounds[_i])')) is not None or
        match(ex.term(s.value), pattern('_r.uniform(*bounds[_i], _n)')) is not None for s in sp)
    ctx.check(okp, mz, 'start points inside bounds',
              'uniform(*bounds[i]) or clip(prior draw, *bounds[i])',
              'optimiser start points are not all drawn or clipped inside the bounds', fn=mz,
              node=sp[0] if sp else mz.node)
    sc = ctx.calls(mz, 'scipy.optimize.minimize(*_)')
    okb = bool(sc) and all(any(k.arg == 'bounds' and ex.term(k.value) == ('param', 'bounds')
                               for k in c.keywords) for c in sc)
    ctx.check(okb, mz, 'bounds handed to scipy', 'scipy.optimize.minimize(..., bounds=bounds)',
              'the bounds are not passed to scipy.optimize.minimize', fn=mz,
              node=sc[0] if sc else mz.node)
    acquires = base.overrides('acquire')
    if len(acquires) < 5:
        ctx.undecided('expected 5 acquire implementations, found {}'.format(len(acquires)))
    for a in acquires:
        exa = ctx.ex(a)
        rr = [r for r in returns(a) if r.value is not None]
        if not rr:
            ctx.bad(a, 'return value not sanitised', 'acquire returns nothing', fn=a, node=a.node)
            continue
        allok, whys = True, []
        for r in rr:
            t = exa.term(r.value)
            # gp = self.model alias is expanded by the value graph
            ok, why = sanitised(ctx, a, t, ok_min)
            allok = allok and ok
            whys.append(why)
        ctx.check(allok, a, 'return value not sanitised' if not allok else 'return value sanitised',
                  '; '.join(whys)[:160], '; '.join(w for w in whys)[:200], fn=a, node=rr[0])


@obligation('C11-b', 'T4 T9', 'acquisition noise is a normal truncated to the bounds, in '
            'standard units', floor=4,
            necessary='swapped or unscaled truncation limits put noisy points outside the '
                      'bounds')
def c11_b(ctx):
    base = ctx.cls(ACQ)
    ctx.fact('scipy.stats.truncnorm(a, b, loc, scale): a, b are in standard units, i.e. '
             '(limit - loc) / scale')
    noisers = [m for m in base.methods.values() if ctx.calls(m, 'ss.truncnorm.rvs(*_)')]
    if not noisers:
        raise AnchorMissing('no truncated-normal noise in AcquisitionBase')
    for m in noisers:
        ex = ctx.ex(m)
        for c in ctx.calls(m, 'ss.truncnorm.rvs(*_)'):
            kws = dict((k.arg, k.value) for k in c.keywords)
            if len(c.args) < 2 or 'loc' not in kws or 'scale' not in kws:
                ctx.undecided('unrecognised truncnorm call shape at ' + m.where(c))
            a, b = ex.term(c.args[0]), ex.term(c.args[1])
            loc, scale = ex.term(kws['loc']), ex.term(kws['scale'])
            lo = lambda x: match(x, pattern('self.model.bounds[_][0]')) is not None
            hi = lambda x: match(x, pattern('self.model.bounds[_][1]')) is not None
            is_loc = lambda x: x == loc
            pos = ()
            ok_a = polarity(a, lo, positive=[scale]) == POS and polarity(a, hi) == ZERO and \
                polarity(a, is_loc, positive=[scale]) == NEG
            ok_b = polarity(b, hi, positive=[scale]) == POS and polarity(b, lo) == ZERO and \
                polarity(b, is_loc, positive=[scale]) == NEG
            ctx.check(ok_a, m, 'lower limit', 'a = (lower - x) / std',
                      'a = {} is not (lower bound - x) / std'.format(show(a)[:80]), fn=m, node=c)
            ctx.check(ok_b, m, 'upper limit', 'b = (upper - x) / std',
                      'b = {} is not (upper bound - x) / std'.format(show(b)[:80]), fn=m, node=c)
            div_ok = a[0] == 'binop' and a[1] == '/' and a[3] == scale and \
                b[0] == 'binop' and b[1] == '/' and b[3] == scale
            ctx.check(div_ok, m, 'limits in units of the scale',
                      'both limits divided by the scale passed to truncnorm',
                      'the limits are not divided by the very std passed as scale', fn=m, node=c)
            sd = match(scale, pattern('np.sqrt(_v)'))
            ok_sd = sd is not None and contains(sd['v'], 'self.noise_var')
            ctx.check(ok_sd, m, 'scale is a standard deviation', 'scale = sqrt(noise variance)',
                      'scale = {} is not the square root of the noise variance'.format(
                          show(scale)[:60]), fn=m, node=c)
            # written back to the same column it was centred on
            p = getattr(c, '_parent', None)
            ok_col = isinstance(p, ast.Assign) and ex.term(p.targets[0]) == loc
            ctx.check(ok_col, m, 'noise replaces the column it is centred on',
                      'x[:, i] = truncnorm(..., loc=x[:, i])',
                      'the noisy column is written to {} but centred on {}'.format(
                          src(p.targets[0]) if isinstance(p, ast.Assign) else '?',
                          show(loc)[:40]), fn=m, node=c)
            same_dim = all(s[2] == loc[2][1][1] if False else True for s in ())
            # same dimension index in bounds and column
            idx = [s[1][2] for s in subterms(a) if lo(s)] + [s[1][2] for s in subterms(b) if hi(s)]
            col = loc[2][1][1] if (loc[0] == 'sub' and loc[2][0] == 'tuple' and
                                   len(loc[2][1]) == 2) else None
            ctx.check(bool(idx) and col is not None and all(i == col for i in idx), m,
                      'bounds of the same dimension', 'bounds[i] with column i',
                      'the bounds index {} differs from the column index {}'.format(
                          [show(i) for i in idx], show(col) if col else None), fn=m, node=c)
            # zero noise variance is a legal setting: the division by std and truncnorm with
            # scale 0 give nan, and nan is not inside the bounds - that column must be skipped
            zero_skipped = any(
                (not pol) and match_any(t, ('_s == 0', '0 == _s')) is not None and
                match_any(t, ('_s == 0', '0 == _s'))['s'] == scale
                for (t, pol, _) in ctx.guards(m, c)) or any(
                pol and match_any(t, ('_s > 0', '0 < _s', '_s != 0')) is not None and
                match_any(t, ('_s > 0', '0 < _s', '_s != 0'))['s'] == scale
                for (t, pol, _) in ctx.guards(m, c))
            ctx.check(zero_skipped, m, 'a zero noise variance leaves the column as it is',
                      'if std == 0: continue',
                      'the truncated normal is drawn (and the limits divided) with std = 0 '
                      'possible: the acquired column becomes nan, which is outside the bounds',
                      fn=m, node=c)
            # every exit returns the array that was given (noisy or not)
            rr_ = returns(m)
            falls = [p_ for (p_, lab) in cfg_of(m).ret.pred
                     if not (p_.kind == 'stmt' and isinstance(p_.ast, ast.Return))]
            ok_r = bool(rr_) and not falls and all(
                ex.term(r.value) == ('param', m.params[1]) for r in rr_)
            ctx.check(ok_r, m, 'the (noisy) points are returned on every exit', 'return x',
                      'the noise step does not return the points on every exit', fn=m,
                      node=rr_[0] if rr_ else m.node)
            rs = ex.term(kws['random_state']) if 'random_state' in kws else None
            ctx.check(rs == pattern_term('self.random_state'), m, 'noise generator',
                      'random_state=self.random_state',
                      'the noise is not drawn from the acquisition\'s own generator', fn=m, node=c)
        rr = returns(m)
        ok = bool(rr) and all(ex.term(r.value)[0] in ('param',) or True for r in rr)
    # generator of the acquisition: seeded when a seed is given
    init = ctx.own_method(base, '__init__')
    st = [s for (s, t, k) in ctx.stores(init, 'self.random_state') if isinstance(s, ast.Assign)]
    ok = bool(st) and match(ctx.term(init, st[0].value),
                            pattern('np.random if seed is None else np.random.RandomState(seed)')) \
        is not None
    ctx.check(ok, init, 'acquisition generator', 'RandomState(seed) unless seed is None',
              'the acquisition generator is not RandomState(seed)', fn=init,
              node=st[0] if st else init.node)


@obligation('C11-c', 'T3', 'an acquisition call returns exactly the requested number of points',
            floor=5, necessary='too few points starve a batch, too many are silently dropped')
def c11_c(ctx):
    base = ctx.cls(ACQ)
    for a in base.overrides('acquire'):
        ex = ctx.ex(a)
        npar = ('param', a.params[1])
        for r in returns(a):
            if r.value is None:
                continue
            t = ex.term(r.value)
            alts = t[1] if t[0] == 'phi' else (t,)
            bad = []
            for x in alts:
                core = x
                mm = match(core, pattern('self._add_noise(_x)'))
                if mm is not None:
                    core = mm['x']
                ok = False
                if match(core, pattern('np.tile(_x, (_n, 1))')) is not None and \
                        match(core, pattern('np.tile(_x, (_n, 1))'))['n'] == npar:
                    ok = True
                if core[0] == 'sub' and core[2] == ('slice', ('const', None), npar,
                                                     ('const', None)):
                    ok = True
                if core[0] == 'sub' and core[2] == ('slice', ('const', -1), ('const', None),
                                                     ('const', None)):
                    gs = ctx.guards(a, r) or []
                    ok = True   # single last row; selected under `not n > 1`
                    defs = [n for n in own_nodes(a.node) if isinstance(n, ast.Assign) and
                            ex.term(n.value) == core]
                    ok = any(any(pol is False and match(g, pattern('1 < _n')) is not None
                                 for (g, pol, _) in ctx.guards(a, d)) for d in defs)
                m2 = None
                if core[0] == 'call':
                    sz = dict(core[3]).get('size')
                    if sz is not None and sz[0] == 'tuple' and sz[1] and sz[1][0] == npar:
                        ok = True
                if match(core, pattern('np.zeros(*_)')) is not None:
                    ok = True    # placeholder, never returned (loop raises or breaks)
                if not ok:
                    bad.append(core)
            ctx.check(not bad, a, 'row count', 'rows derive from n',
                      'returned rows {} are not determined by n'.format(
                          [show(b)[:60] for b in bad]), fn=a, node=r)
    bo = ctx.cls(BO)
    pn = ctx.own_method(bo, 'prepare_new_batch')
    ex = ctx.ex(pn)
    ac = ctx.calls(pn, name='acquire')
    ok = bool(ac) and all(c.args and match(
        ex.term(c.args[0]), pattern('self.acq_batch_size')) is not None for c in ac)
    ctx.check(ok, pn, 'requested count', 'acquire(self.acq_batch_size, t=...)',
              'the number of requested acquisitions is not acq_batch_size', fn=pn,
              node=ac[0] if ac else pn.node)
    ab = bo.methods.get('acq_batch_size')
    if ab is not None:
        rr = returns(ab)
        ok = len(rr) == 1 and (match(ctx.term(ab, rr[0].value),
                                     pattern('self.batch_size * self.batches_per_acquisition'))
                               is not None or
                               match(ctx.term(ab, rr[0].value),
                                     pattern('self.batches_per_acquisition * self.batch_size'))
                               is not None)
        ctx.check(ok, ab, 'acq_batch_size', 'batch_size * batches_per_acquisition',
                  'acq_batch_size is not batch_size * batches_per_acquisition', fn=ab,
                  node=rr[0] if rr else ab.node)


@obligation('C11-d', 'T7', 'the surrogate is trained on (parameters, target) of the same batch, '
            'in one column order', floor=5,
            necessary='X and Y from different batches, or columns in another order, train the '
                      'surrogate on points that were never simulated')
def c11_d(ctx):
    bo = ctx.cls(BO)
    up = ctx.own_method(bo, 'update')
    ex = ctx.ex(up)
    NAMES = 'self.target_model.parameter_names'
    ups = ctx.calls(up, 'self.target_model.update(*_)')
    ok = len(ups) == 1 and cfg_of(up).must_pass([ctx.node(up, ups[0])])
    ctx.check(ok, up, 'surrogate updated once per batch', 'target_model.update(...) on every path',
              'the surrogate is not updated exactly once per consumed batch', fn=up,
              node=ups[0] if ups else up.node)
    if ups:
        a = [ex.term(x) for x in ups[0].args]
        okx = len(a) >= 2 and match(a[0], pattern('batch_to_arr2d(batch, ' + NAMES + ')')) \
            is not None
        oky = len(a) >= 2 and match(a[1], pattern('batch[self.target_name]')) is not None
        ctx.check(okx, up, 'X from the consumed batch', 'batch_to_arr2d(batch, names)',
                  'X = {} is not built from the consumed batch in target_model.parameter_names '
                  'order'.format(show(a[0])[:80] if a else None), fn=up, node=ups[0])
        ctx.check(oky, up, 'Y from the consumed batch', 'batch[target_name]',
                  'Y = {} is not the target output of the same batch'.format(
                      show(a[1])[:80] if len(a) > 1 else None), fn=up, node=ups[0])
    ne = [s for (s, t, k) in ctx.stores(up, "self.state['n_evidence']")]
    ok = len(ne) == 1 and isinstance(ne[0], ast.AugAssign) and isinstance(ne[0].op, ast.Add) and \
        ex.term(ne[0].value) == pattern_term('self.batch_size') and \
        cfg_of(up).must_pass([ctx.node(up, ne[0])])
    ctx.check(ok, up, 'n_evidence counts consumed points', "state['n_evidence'] += batch_size",
              "n_evidence is not increased by batch_size once per update", fn=up,
              node=ne[0] if ne else up.node)
    sup = ctx.calls(up, 'super(*_).update(batch, batch_index)')
    ctx.check(len(sup) == 1 and cfg_of(up).must_pass([ctx.node(up, sup[0])]), up,
              'base counters', 'super().update(batch, batch_index) once',
              'the base counters are not updated exactly once', fn=up,
              node=sup[0] if sup else up.node)
    # same name list when acquisitions are turned into a batch, and for precomputed evidence
    pn = ctx.own_method(bo, 'prepare_new_batch')
    exp = ctx.ex(pn)
    cs = ctx.calls(pn, 'arr2d_to_batch(*_)')
    ok = bool(cs) and all(len(c.args) == 2 and exp.term(c.args[1]) == pattern_term(NAMES)
                          for c in cs)
    ctx.check(ok, pn, 'acquired columns named in the same order', 'arr2d_to_batch(points, names)',
              'acquired points are assigned to parameters with a different name list', fn=pn,
              node=cs[0] if cs else pn.node)
    init = ctx.own_method(bo, '__init__')
    exi = ctx.ex(init)
    pu = ctx.calls(init, 'self.target_model.update(*_)')
    ok = bool(pu) and all(
        match(exi.term(c.args[0]), pattern('batch_to_arr2d(_p, ' + NAMES + ')')) is not None and
        match(exi.term(c.args[1]), pattern('_p[_k]')) is not None and
        match(exi.term(c.args[0]), pattern('batch_to_arr2d(_p, ' + NAMES + ')'))['p'] ==
        match(exi.term(c.args[1]), pattern('_p[_k]'))['p'] for c in pu)
    ctx.check(ok, init, 'precomputed evidence paired', 'X and Y from the same precomputed dict',
              'precomputed X and Y are not taken from the same dict with the common name list',
              fn=init, node=pu[0] if pu else init.node)
    # helpers: column i <-> names[i]
    b2a = ctx.fn('elfi.methods.utils:batch_to_arr2d')
    a2b = ctx.fn('elfi.methods.utils:arr2d_to_batch')
    for f in (b2a, a2b):
        ctx.touch(f)


@obligation('C11-e', 'T5', 'acquired points are consumed and stored in complementary slices',
            floor=2, necessary='overlapping slices simulate a point twice, a gap loses one')
def c11_e(ctx):
    bo = ctx.cls(BO)
    pn = ctx.own_method(bo, 'prepare_new_batch')
    ex = ctx.ex(pn)
    cs = ctx.calls(pn, 'arr2d_to_batch(*_)')
    st = [s for (s, t, k) in ctx.stores(pn, "self.state['acquisition']") if isinstance(s, ast.Assign)]
    if not cs or not st:
        raise AnchorMissing('prepare_new_batch does not consume / store acquisitions')
    used = ex.term(cs[0].args[0])
    rest = ex.term(st[0].value)
    ok = used[0] == 'sub' and rest[0] == 'sub' and used[1] == rest[1] and \
        used[2][0] == 'slice' and rest[2][0] == 'slice' and \
        used[2][1] == ('const', None) and rest[2][2] == ('const', None) and \
        used[2][2] == rest[2][1] and used[2][2] == pattern_term('self.batch_size')
    ctx.check(ok, pn, 'complementary slices', 'uses [:batch_size], keeps [batch_size:]',
              'consumed slice {} and kept slice {} are not complementary'.format(
                  show(used[2]) if used[0] == 'sub' else show(used)[:40],
                  show(rest[2]) if rest[0] == 'sub' else show(rest)[:40]), fn=pn, node=st[0])
    # the array sliced is the stored one, or a fresh acquisition when the stored one is empty
    base = used[1] if used[0] == 'sub' else None
    ok = base is not None and base[0] == 'phi' and \
        any(a == pattern_term("self.state['acquisition']") for a in base[1]) and \
        any(match(a, pattern('self.acquisition_method.acquire(*_)')) is not None for a in base[1])
    ctx.check(ok, pn, 'source of the points', 'stored acquisition, else a fresh one',
              'the points do not come from (stored acquisition | fresh acquisition)', fn=pn,
              node=cs[0])
    ctx.check(ctx.must_precede(pn, [cs[0]], st[0]) or ctx.node(pn, cs[0]) is not ctx.node(pn, st[0]),
              pn, 'store after use', 'remainder stored after the batch was taken', '', fn=pn,
              node=st[0])


@obligation('C11-f', 'T11 T13', 'with synchronous acquisition a new acquisition waits for all '
            'pending batches', floor=3,
            necessary='acquiring while results are pending fits the surrogate on a '
                      'schedule-dependent evidence set')
def c11_f(ctx):
    bo = ctx.cls(BO)
    pn = ctx.own_method(bo, 'prepare_new_batch')
    ex = ctx.ex(pn)
    ac = ctx.calls(pn, name='acquire')
    ok = bool(ac) and all(any(pol and match(t, pattern("len(self.state['acquisition']) == 0"))
                              is not None for (t, pol, _) in ctx.guards(pn, c)) for c in ac)
    ctx.check(ok, pn, 'acquire only when the stored acquisition is used up',
              "under len(state['acquisition']) == 0",
              'a new acquisition is made although stored points remain', fn=pn,
              node=ac[0] if ac else pn.node)
    # the acquisition rule is told which acquisition this is (LCBSC's exploration schedule)
    okt = bool(ac) and all(
        any(k.arg == 't' and match(ex.term(k.value), pattern(
            'self._get_acquisition_index(batch_index)')) is not None for k in c.keywords) or
        (len(c.args) > 1 and match(ex.term(c.args[1]), pattern(
            'self._get_acquisition_index(batch_index)')) is not None) for c in ac)
    ctx.check(okt, pn, 'acquire receives the acquisition index', 'acquire(n, t=t)',
              'acquire is not given the acquisition index of the batch (iteration-dependent '
              'rules fall back to t=None)', fn=pn, node=ac[0] if ac else pn.node)
    # initial evidence comes from the prior: early return when t < 0
    early = [r for r in returns(pn) if r.value is None]
    ok = any(any(pol and match(t, pattern('self._get_acquisition_index(batch_index) < 0'))
                 is not None for (t, pol, _) in ctx.guards(pn, r)) for r in early)
    ctx.check(ok, pn, 'initial evidence from the prior', 'return None while t < 0',
              'initial evidence batches are not left to the prior (t < 0)', fn=pn,
              node=early[0] if early else pn.node)
    al = ctx.own_method(bo, '_allow_submit')
    exa = ctx.ex(al)
    rf = [r for r in returns(al) if r.value is not None and exa.term(r.value) == ('const', False)]
    gate = None
    for r in rf:
        gs_ = [t for (t, pol, _) in ctx.guards(al, r) if pol and t[0] != 'bool']
        if any(match(x, pattern("len(self.state['acquisition']) == 0")) is not None
               for x in gs_) and \
                any(match(x, pattern('self.batches.has_pending')) is not None for x in gs_):
            gate = r
    ctx.check(gate is not None, al, 'submission gated on pending batches',
              "return False when no stored acquisition is left and batches are pending",
              'submission is not refused while batches are pending and a new acquisition would '
              'be needed', fn=al, node=gate or al.node)
    if gate is not None:
        # reachable only when async_acq is false
        ra = [r for r in returns(al) if r.value is not None and
              exa.term(r.value) == ('const', True) and
              any(pol and match(t, pattern('self.async_acq')) is not None
                  for (t, pol, _) in ctx.guards(al, r))]
        ok = bool(ra) and all(ctx.must_precede(al, [cfg_parent_test(al, r)], gate) for r in ra)
        asy = any(pol is False and match(t, pattern('self.async_acq')) is not None
                  for (t, pol, _) in ctx.guards(al, gate))
        ctx.check(asy, al, 'gate bypassed only by async_acq', 'gate runs when async_acq is false',
                  'the gate is not reached exactly when async_acq is false', fn=al, node=gate)


def cfg_parent_test(fn, ret):
    n = getattr(ret, '_parent', None)
    while n is not None and not isinstance(n, ast.If):
        n = getattr(n, '_parent', None)
    return n.test if n is not None else ret


@obligation('C11-g', 'T7', 'the positional bounds follow parameter_names, not the order in which '
            'the user wrote the dict', floor=2,
            necessary='bounds in dict order apply one parameter\'s box to another parameter')
def c11_g(ctx):
    gp = ctx.cls('elfi.methods.bo.gpy_regression:GPyRegression')
    init = ctx.own_method(gp, '__init__')
    ex = ctx.ex(init)
    st = [s for (s, t, k) in ctx.stores(init, 'self.bounds') if isinstance(s, ast.Assign)]
    if not st or not isinstance(st[0].value, ast.Name):
        ctx.undecided('self.bounds is not assigned from a local')
    node = ctx.node(init, st[0])
    defs = ex.reaching(st[0].value.id, node)
    n_named = 0
    for d in defs:
        if d.kind != 'assign':
            continue
        v = ex.raw(d.payload)
        if v[0] != 'comp':
            continue
        it = v[3][0][0]
        by_names = it == ('name', 'parameter_names') or it == ('param', 'parameter_names')
        by_dict = match(it, pattern('bounds.keys()')) is not None or it in (('name', 'bounds'),
                                                                          ('param', 'bounds'))
        if by_names:
            n_named += 1
            ctx.ok(init, 'bounds listed in parameter_names order', src(d.payload), fn=init,
                   node=d.node.ast)
        elif by_dict:
            single = any(pol and match(t, pattern('len(bounds) == 1')) is not None
                         for (t, pol, _) in ctx.guards(init, d.node.ast))
            ctx.check(single, init, 'dict order used only for a single parameter',
                      'bounds.keys() only when len(bounds) == 1',
                      'the bounds list follows the insertion order of the user\'s dict for more '
                      'than one parameter', fn=init, node=d.node.ast)
        else:
            ctx.bad(init, 'bounds order', 'bounds are listed by iterating {}'.format(show(it)),
                    fn=init, node=d.node.ast)
    ctx.check(n_named >= 1, init, 'bounds follow parameter_names',
              '[bounds[n] for n in parameter_names]',
              'no branch lists the bounds in parameter_names order', fn=init, node=st[0])
    pn = [s for (s, t, k) in ctx.stores(init, 'self.parameter_names') if isinstance(s, ast.Assign)]
    ok = bool(pn) and ex.term(pn[0].value) == ('param', 'parameter_names')
    ctx.check(ok, init, 'same name list stored', 'self.parameter_names = parameter_names', '',
              fn=init, node=pn[0] if pn else init.node)


def check_column_helpers(ctx):
    """arr2d_to_batch / batch_to_arr2d: column i <-> names[i] (shared by C07, C11, C20)."""
    a2b = ctx.fn('elfi.methods.utils:arr2d_to_batch')
    b2a = ctx.fn('elfi.methods.utils:batch_to_arr2d')
    exa = ctx.ex(a2b)
    rr = returns(a2b)
    ok = False
    if rr:
        t = exa.term(rr[-1].value)
        if t[0] == 'comp' and t[1] == 'dict' and \
                match(t[3][0][0], pattern('enumerate(names)')) is not None:
            k, v = t[2][1]
            ok = k[0] == 'item' and k[2] == 1 and v[0] == 'sub' and v[2][0] == 'tuple' and \
                len(v[2][1]) == 2 and v[2][1][1] == ('item', k[1], 0) and \
                v[2][1][0] == ('slice', ('const', None), ('const', None), ('const', None)) and \
                match(v[1], pattern('x.reshape((-1, len(names)))')) is not None
    ctx.check(ok, a2b, 'column i named names[i]',
              '{p: x[:, i] for i, p in enumerate(names)} on x reshaped (-1, len(names))',
              'arr2d_to_batch does not give column i the name names[i]', fn=a2b,
              node=rr[-1] if rr else a2b.node)
    exb = ctx.ex(b2a)
    cs = [c for c in ctx.calls(b2a, 'np.column_stack(_)')]
    ok = False
    for c in cs:
        t = exb.term(c.args[0])
        if t[0] == 'comp' and t[1] == 'list' and t[3][0][0] == ('param', 'names') and \
                not t[3][0][1] and t[2][0] == 'sub' and t[2][2][0] == 'elem' and \
                t[2][2][1] == ('param', 'names'):
            ok = True
    ctx.check(ok, b2a, 'columns stacked in names order',
              'column_stack([batch[n] for n in names])',
              'batch_to_arr2d does not stack the outputs in the order of names', fn=b2a,
              node=cs[0] if cs else b2a.node)


@obligation('C11-h', 'T7', 'array <-> batch conversions pair column i with names[i]', floor=2,
            necessary='another pairing simulates one parameter at another parameter\'s value '
                      'and trains the surrogate on mislabelled columns')
def c11_h(ctx):
    check_column_helpers(ctx)


def _phi_alts(t):
    return list(t[1]) if t[0] == 'phi' else [t]


@obligation('C11-i', 'T14 T8', 'evaluate_gradient is the derivative of the evaluate of the same '
            'class (symbolically for the closed-form rules)', floor=5,
            necessary='the optimiser and the acquisition sampler follow the gradient: a gradient '
                      'of another function sends them to points that do not optimise the '
                      'acquisition rule')
def c11_i(ctx):
    from .. import symdiff as sd
    from ..ratfun import Rat, Unsupported
    sd.selfcheck()
    base = ctx.cls(ACQ)
    classes = [c for c in base.all_subclasses()]
    n_sym = 0
    for c in classes:
        ev = c.lookup('evaluate')
        gr = c.lookup('evaluate_gradient')
        if ev is None or gr is None:
            continue
        ev_abstract = ev.cls is base
        gr_abstract = gr.cls is base
        if ev_abstract and gr_abstract:
            continue
        # (1) pairing: the gradient in force is defined by the class that defines evaluate, or
        #     below it
        ok = (not gr_abstract) and (ev_abstract or gr.cls is ev.cls or
                                    gr.cls.is_subclass_of(ev.cls))
        ctx.check(ok, c.qname, 'gradient defined with (or below) the evaluate it differentiates',
                  '{}.evaluate / {}.evaluate_gradient'.format(ev.cls.name, gr.cls.name),
                  '{c}.evaluate comes from {e} but {c}.evaluate_gradient from {g}: the gradient '
                  'belongs to another acquisition function'.format(
                      c=c.name, e=ev.cls.name, g=gr.cls.name), fn=gr, node=gr.node)
        if gr.cls is not c and ev.cls is not c:
            continue     # inherited pair, decided at the defining class
        if gr.cls is not c:
            continue
        exg = ctx.ex(gr)
        rets_g = returns(gr)
        # (2a) numerical derivative of the class's own evaluate
        num = [r for r in rets_g if match(exg.term(r.value),
                                          pattern('numgrad(self.evaluate, *_)')) is not None or
               (exg.term(r.value)[0] == 'call' and exg.term(r.value)[1][0] == 'global' and
                exg.term(r.value)[1][1].endswith('.numgrad') and exg.term(r.value)[2] and
                exg.term(r.value)[2][0] == pattern_term('self.evaluate'))]
        if num and len(num) == len(rets_g):
            x_ok = all(exg.term(r.value)[2][1] == ('param', gr.params[1]) for r in num
                       if len(exg.term(r.value)[2]) > 1)
            ctx.check(x_ok, gr, 'numerical derivative of self.evaluate at the query point',
                      'numgrad(self.evaluate, x)', 'the numerical gradient is not taken at the '
                      'query point', fn=gr, node=num[0])
            continue
        if ev.cls is not c and not gr.cls.is_subclass_of(ev.cls):
            continue
        # (2b) symbolic derivative
        exe = ctx.ex(ev)
        rets_e = returns(ev)
        if len(rets_e) != 1 or len(rets_g) != 1:
            ctx.undecided('{}: expected single returns'.format(c.name))
        alg = sd.Algebra()
        mean = alg.base('mean', 'grad_mean')
        var = alg.base('var', 'grad_var')
        prior = alg.base_logderiv('prior', 'dlogprior')
        cost = alg.base('cost', 'dcost')
        xe, xg = ('param', ev.params[1]), ('param', gr.params[1])
        predict_calls = set()

        def leaf(t, xs=(xe, xg)):
            if t[0] == 'item' and t[1][0] == 'call' and t[1][1][0] == 'attr' and \
                    t[1][1][1] == pattern_term('self.model') and t[1][2] and t[1][2][0] in xs:
                meth = t[1][1][2]
                if meth == 'predict' and t[2] in (0, 1):
                    predict_calls.add(t[1][3])
                    return (mean, var)[t[2]]
                if meth == 'predictive_gradients' and t[2] in (0, 1):
                    return (Rat.sym('grad_mean'), Rat.sym('grad_var'))[t[2]]
            if t[0] == 'call' and t[1][0] == 'attr' and t[2] and t[2][0] in xs:
                owner, meth = t[1][1], t[1][2]
                if owner == pattern_term('self.prior') and meth == 'pdf':
                    return prior
                if owner == pattern_term('self.prior') and meth == 'gradient_logpdf':
                    return Rat.sym('dlogprior')
                if owner == pattern_term('self.additive_cost') and meth == 'evaluate':
                    return cost
                if owner == pattern_term('self.additive_cost') and meth == 'evaluate_gradient':
                    return Rat.sym('dcost')
            # quantities that do not depend on the query point
            if t[0] == 'attr' and t[1] in (('param', 'self'), ('name', 'self')):
                return alg.const('self.' + t[2])
            if t[0] == 'attr' and t[1][0] == 'attr' and t[1][1] in (('param', 'self'),
                                                                    ('name', 'self')):
                return alg.const('self.{}.{}'.format(t[1][2], t[2]))
            if t[0] == 'call' and t[1][0] == 'attr' and t[1][1] in (('param', 'self'),
                                                                    ('name', 'self')) and \
                    not any(x in set(subterms(t)) for x in xs):
                return alg.const('self.{}()'.format(t[1][2]))
            return None
        fe = _phi_alts(exe.term(rets_e[0].value))
        fg = _phi_alts(exg.term(rets_g[0].value))
        if len(fe) != len(fg):
            ctx.check(False, gr, 'same case split in evaluate and evaluate_gradient', '',
                      '{}: evaluate has {} case(s), its gradient {}'.format(c.name, len(fe),
                                                                            len(fg)),
                      fn=gr, node=rets_g[0])
            continue
        try:
            pairs = []
            F = [sd.convert(t, alg, leaf) for t in fe]
            dF = [alg.D(f) for f in F]
        except Unsupported as e:
            ctx.assume('{}.evaluate is outside the differentiable fragment ({}); its gradient is '
                       'not decided'.format(c.name, e))
            continue
        for i, t in enumerate(fg):
            try:
                G = sd.convert(t, alg, sd.opaque_leaf(leaf))
            except sd.Clipped as e:
                ctx.check(False, gr, 'gradient = derivative', '', '{}.evaluate_gradient contains '
                          'the clipping operator {} that evaluate does not have'.format(
                              c.name, e), fn=gr, node=rets_g[0])
                continue
            except Unsupported as e:
                ctx.undecided('{}.evaluate_gradient outside the differentiable fragment: {}'
                              .format(c.name, e))
            # cases are matched as sets: each gradient case equals the derivative of one
            # evaluate case
            ok = any(alg.same(G, d) for d in dF)
            n_sym += 1
            ctx.check(ok, gr, '{}: gradient = d/dx evaluate (case {})'.format(c.name, i),
                      'chain rule over mean, var, prior',
                      '{}.evaluate_gradient is not the derivative of {}.evaluate'.format(
                          c.name, c.name), fn=gr, node=rets_g[0])
        ctx.check(len(predict_calls) <= 1, gr, 'one prediction mode in function and gradient',
                  'same predict(...) keywords', '{}: evaluate and evaluate_gradient call '
                  'model.predict with different keywords {}'.format(c.name, sorted(
                      predict_calls)), fn=gr, node=gr.node)
    if n_sym < 3:
        ctx.undecided('expected symbolic derivative checks for LCBSC and MaxVar, got {} '
                      'cases'.format(n_sym))


@obligation('C11-j', 'T14 T8', 'RandMaxVar samples log(evaluate) and hands NUTS its derivative '
            'evaluate_gradient / evaluate', floor=3,
            necessary='NUTS driven by a gradient that is not the derivative of the log density it '
                      'samples does not leave that density invariant')
def c11_j(ctx):
    from .. import symdiff as sd
    from ..ratfun import Rat, Unsupported
    base = ctx.cls(ACQ)
    rmv = [c for c in base.all_subclasses() if 'acquire' in c.methods and
           ctx.calls(c.methods['acquire'], 'mcmc.nuts(*_)')]
    if len(rmv) != 1:
        raise AnchorMissing('the acquisition class that samples with mcmc.nuts')
    acq = rmv[0].methods['acquire']
    exa = ctx.ex(acq)
    nested = [f for f in acq.module.all_functions if getattr(f, "outer", None) is acq]
    byname = dict((f.name, f) for f in nested)
    nc = ctx.calls(acq, 'mcmc.nuts(*_)')[0]
    if len(nc.args) < 4 or not all(isinstance(a, ast.Name) for a in nc.args[2:4]):
        ctx.undecided('nuts is not called with (n, init, logpdf, gradient) by name')
    L, G = byname.get(nc.args[2].id), byname.get(nc.args[3].id)
    if L is None or G is None:
        raise AnchorMissing('nested log-density / gradient functions of the acquisition sampler')
    # the same log density is used by the Metropolis alternative and the start-point test
    mc = ctx.calls(acq, 'mcmc.metropolis(*_)')
    ok = bool(mc) and all(len(c.args) >= 3 and isinstance(c.args[2], ast.Name) and
                          c.args[2].id == L.name for c in mc)
    ctx.check(ok, acq, 'both samplers target the same log density', '', 'metropolis and nuts are '
              'given different log densities', fn=acq, node=mc[0] if mc else nc)
    alg = sd.Algebra()
    E = alg.base('E', 'dE')

    def leaf_for(f):
        x = ('param', f.params[0])

        def leaf(t):
            if t[0] == 'call' and t[1][0] == 'attr' and \
                    (t[1][1] in (('param', 'self'), ('name', 'self')) or
                     (t[1][1][0] == 'closure' and t[1][1][1] == 'self')) and \
                    t[2] and t[2][0] == x:
                if t[1][2] == 'evaluate':
                    return E
                if t[1][2] == 'evaluate_gradient':
                    return Rat.sym('dE')
            return None
        return leaf

    def finite_returns(f):
        ex = ctx.ex(f)
        out = []
        for r in returns(f):
            t = ex.term(r.value)
            if polarity(t, lambda x: x in (('global', 'numpy.inf'), ('global', 'math.inf'))) \
                    in (NEG, POS) and not contains(t, 'self.evaluate(*_)') and \
                    not contains(t, '_.evaluate(*_)'):
                continue
            out.append((r, t))
        return out
    try:
        fl = finite_returns(L)
        fg = finite_returns(G)
        if len(fl) != 1 or len(fg) != 1:
            ctx.undecided('expected one finite return in each nested function ({} / {})'.format(
                len(fl), len(fg)))
        FL = sd.convert(fl[0][1], alg, leaf_for(L))
        FG = sd.convert(fg[0][1], alg, sd.opaque_leaf(leaf_for(G)))
    except Unsupported as e:
        ctx.undecided('nested density functions outside the fragment: {}'.format(e))
    ctx.check(alg.same(FL, alg.log(E)), L, 'sampled log density = log(evaluate(theta))', '',
              'the sampled log density is not log(self.evaluate(theta))', fn=L, node=fl[0][0])
    ctx.check(alg.same(FG, alg.D(alg.log(E))), G, 'gradient = evaluate_gradient / evaluate', '',
              'the gradient handed to NUTS is not evaluate_gradient(theta) / evaluate(theta), the '
              'derivative of the sampled log density', fn=G, node=fg[0][0])


@obligation('C11-k', 'T14 T8', 'an additive cost is scaled identically in value and gradient',
            floor=1,
            necessary='evaluate_gradient must be the derivative of evaluate: another factor on '
                      'the user\'s gradient than on the user\'s function gives the optimiser a '
                      'wrong jacobian (BOLFIRE uses scale = -1)')
def c11_k(ctx):
    from .. import symdiff as sd
    from ..ratfun import Rat, Unsupported
    cf = ctx.cls('elfi.methods.bo.utils:CostFunction')
    ev = ctx.own_method(cf, 'evaluate')
    gr = ctx.own_method(cf, 'evaluate_gradient')
    alg = sd.Algebra()
    c = alg.base('c', 'dc')

    def leaf_for(f):
        x = ('param', f.params[1])

        def leaf(t):
            if t[0] == 'call' and t[1][0] == 'attr' and t[1][1] in (('param', 'self'),
                                                                    ('name', 'self')) and \
                    t[2] and t[2][0] in (x, ('call', ('global', 'numpy.atleast_2d'), (x,), ())):
                if t[1][2] == 'function':
                    return c
                if t[1][2] == 'gradient':
                    return Rat.sym('dc')
            if t[0] == 'attr' and t[1] in (('param', 'self'), ('name', 'self')):
                return alg.const('self.' + t[2])
            return None
        return leaf
    re_, rg = returns(ev), returns(gr)
    if len(re_) != 1 or len(rg) != 1:
        ctx.undecided('CostFunction: expected single returns')
    try:
        F = sd.convert(ctx.ex(ev).term(re_[0].value), alg, leaf_for(ev))
        G = sd.convert(ctx.ex(gr).term(rg[0].value), alg, sd.opaque_leaf(leaf_for(gr)))
        ok = alg.same(G, alg.D(F))
    except sd.Clipped as e:
        ok = False
    except Unsupported as e:
        ctx.undecided('CostFunction outside the fragment: {}'.format(e))
    ctx.check(ok, gr, 'cost gradient = derivative of the cost value', 'scale * gradient(x)',
              'CostFunction.evaluate_gradient is not the derivative of CostFunction.evaluate '
              '(different scale factors)', fn=gr, node=rg[0])


@obligation('C11-l', 'T5 T14', 'evidence bookkeeping: n_evidence = precomputed + batch_size per '
            'consumed batch; simulation budget and acquisition index are the stated linear forms',
            floor=6,
            necessary='a count that drifts from the rows actually fed to the surrogate stops the '
                      'optimisation early or late; a shifted acquisition index takes prior draws '
                      'for acquisitions (or the reverse)')
def c11_l(ctx):
    from ..ratfun import Rat, Unsupported
    bo = ctx.cls(BO)
    init = ctx.own_method(bo, '__init__')
    exi = ctx.ex(init)
    # precomputed evidence: fed once, in the surrogate's column order, and counted by its length
    ups = ctx.calls(init, 'self.target_model.update(*_)')
    okp = False
    pre_len = None
    for c in ups:
        a = [exi.term(x) for x in c.args]
        m = match(a[0], pattern('batch_to_arr2d(_p, self.target_model.parameter_names)')) \
            if a else None
        tn = [exi.term(s_.value) for (s_, t_, k_) in ctx.stores(init, 'self.target_name')
              if k_ == 'assign']
        if m is not None and len(a) > 1 and a[1][0] == 'sub' and a[1][1] == m['p'] and \
                tn and a[1][2] == tn[0]:
            okp = True
            pre_len = a[0]
    ctx.check(okp, init, 'precomputed evidence fed as (parameters, target) of the same dict',
              'target_model.update(batch_to_arr2d(pre, names), pre[target])',
              'the precomputed evidence is not fed as the parameter columns and target of one '
              'dict', fn=init, node=ups[0] if ups else init.node)
    st = [s for (s, t, k) in ctx.stores(init, "self.state['n_evidence']") if k == 'assign']
    fld = [s for (s, t, k) in ctx.stores(init, 'self.n_precomputed_evidence') if k == 'assign']
    okc = False
    if st and fld and pre_len is not None:
        okc = exi.term(st[-1].value) == pattern_term('self.n_precomputed_evidence') and \
            ctx.must_precede(init, fld, st[-1])
        v = exi.term(fld[-1].value)
        alts = v[1] if v[0] == 'phi' else (v,)
        okc = okc and any(match(a, pattern('len(_x)')) is not None and
                          match(a, pattern('len(_x)'))['x'] == pre_len for a in alts) and \
            any(a == ('const', 0) for a in alts)
    ctx.check(okc, init, 'count starts at the number of precomputed rows (0 without)',
              "state['n_evidence'] = len(precomputed rows) | 0",
              'the evidence count does not start at the number of precomputed rows', fn=init,
              node=st[-1] if st else init.node)
    # one batch_size per consumed batch
    up = ctx.own_method(bo, 'update')
    exu = ctx.ex(up)
    incs = [s for (s, t, k) in ctx.stores(up, "self.state['n_evidence']")]
    oki = len(incs) == 1 and isinstance(incs[0], ast.AugAssign) and \
        isinstance(incs[0].op, ast.Add) and \
        exu.term(incs[0].value) == pattern_term('self.batch_size') and \
        cfg_of(up).must_pass([ctx.node(up, incs[0])])
    ctx.check(oki, up, 'count grows by batch_size once per consumed batch',
              "state['n_evidence'] += self.batch_size",
              'update() does not add exactly batch_size to the evidence count on every path',
              fn=up, node=incs[0] if incs else up.node)
    # linear forms
    from .. import symdiff as sd
    alg = sd.Algebra()

    def leaf(t):
        if t[0] == 'attr' and t[1] in (('param', 'self'), ('name', 'self')):
            return Rat.sym(t[2])
        if t[0] in ('param', 'name'):
            return Rat.sym(t[1])
        return None

    def to_rat(t, lf):
        return sd.convert(t, alg, lf)
    so = ctx.own_method(bo, 'set_objective')
    exs = ctx.ex(so)
    sim = [s for (s, t, k) in ctx.stores(so, "self.objective['n_sim']") if k == 'assign']
    nev = [s for (s, t, k) in ctx.stores(so, "self.objective['n_evidence']") if k == 'assign']
    oks = False
    if sim and nev:
        try:
            a = to_rat(exs.raw(sim[0].value), leaf)
            oks = a.same(Rat.sym('n_evidence') - Rat.sym('n_precomputed_evidence'))
        except Unsupported:
            oks = False
    ctx.check(oks, so, 'simulation budget = requested evidence - precomputed evidence',
              "objective['n_sim'] = n_evidence - n_precomputed_evidence",
              'the simulation budget is not the requested evidence minus the precomputed rows',
              fn=so, node=sim[0] if sim else so.node)
    gi = ctx.own_method(bo, '_get_acquisition_index')
    exg = ctx.ex(gi)
    rr = returns(gi)
    okg = False
    if len(rr) == 1:
        t = exg.term(rr[0].value)
        if t[0] == 'binop' and t[1] == '//':
            try:
                num = to_rat(t[2], leaf)
                den = to_rat(t[3], leaf)
                b, bi = Rat.sym('batch_size'), Rat.sym('batch_index')
                okg = num.same(b * bi - (Rat.sym('n_initial_evidence') -
                                         Rat.sym('n_precomputed_evidence'))) and \
                    den.same(b * Rat.sym('batches_per_acquisition'))
            except Unsupported:
                okg = False
    ctx.check(okg, gi, 'acquisition index',
              '(batch_size*batch_index - (n_initial - n_precomputed)) // (batch_size*'
              'batches_per_acquisition)',
              'the acquisition index is not floor((first simulation index of the batch - initial '
              'simulations) / acquisition batch size)', fn=gi, node=rr[0] if rr else gi.node)
    # the GP is (re)optimised once the initial evidence is in and the interval has passed
    sh = ctx.own_method(bo, '_should_optimize')
    exh = ctx.ex(sh)
    rr = returns(sh)
    okh = False
    if len(rr) == 1:
        t = exh.term(rr[0].value)
        if t[0] == 'bool' and t[1] == 'and' and len(t[2]) == 2:
            cur = pattern('self.target_model.n_evidence + self.batch_size')
            got = set()
            for x in t[2]:
                m1 = match(x, pattern('self.n_initial_evidence <= _c'))
                m2 = match(x, pattern("self.state['last_GP_update'] + self.update_interval <= _c"))
                if m1 is not None and match(m1['c'], cur) is not None:
                    got.add('initial')
                if m2 is not None and match(m2['c'], cur) is not None:
                    got.add('interval')
            okh = got == {'initial', 'interval'}
    ctx.check(okh, sh, 'optimise when the initial evidence is complete and the interval passed',
              'current >= n_initial_evidence and current >= last_GP_update + update_interval', '',
              fn=sh, node=rr[0] if rr else sh.node)
    # the result reports the surrogate's evidence under the surrogate's column names
    er = ctx.own_method(bo, 'extract_result')
    exe = ctx.ex(er)
    outs = [n for n in own_nodes(er.node) if isinstance(n, ast.Assign) and
            match(exe.term(n.value), pattern(
                'arr2d_to_batch(self.target_model.X, self.target_model.parameter_names)'))
            is not None]
    ys = [s for s in own_nodes(er.node) if isinstance(s, ast.Assign) and
          isinstance(s.targets[0], ast.Subscript) and
          exe.term(s.targets[0].slice) == pattern_term('self.target_name') and
          exe.term(s.value) == pattern_term('self.target_model.Y')]
    ctx.check(bool(outs) and bool(ys), er, 'result outputs = the surrogate\'s evidence',
              'outputs = arr2d_to_batch(X, names); outputs[target] = Y',
              'extract_result does not report (X by the surrogate\'s names, Y) of the surrogate',
              fn=er, node=outs[0] if outs else er.node)


@obligation('C11-m', 'T1 T11', 'control flow of the optimisation loop: the batch that was built is '
            'returned, the prior phase is exactly t < 0, the base class\'s refusal to submit is '
            'honoured, and the surrogate\'s optimisation schedule is recorded when it ran',
            floor=6,
            necessary='a batch that is built and not returned is replaced by prior draws; a gate '
                      'that treats acquisition 0 as prior phase lets it start while initial '
                      'batches are pending (schedule-dependent evidence); an unrecorded '
                      'optimisation makes every later batch re-optimise')
def c11_m(ctx):
    bo = ctx.cls(BO)
    pn = ctx.own_method(bo, 'prepare_new_batch')
    ex = ctx.ex(pn)
    cfg = cfg_of(pn)
    T_ = 'self._get_acquisition_index(batch_index)'
    rr = returns(pn)
    falls = [p for (p, lab) in cfg.ret.pred if not (p.kind == 'stmt' and
                                                    isinstance(p.ast, ast.Return))]
    valued = [r for r in rr if r.value is not None and ex.term(r.value) != ('const', None)]
    bare = [r for r in rr if r not in valued]
    ok = bool(valued) and not falls and all(
        match(ex.term(r.value), pattern('arr2d_to_batch(_a, self.target_model.parameter_names)'))
        is not None for r in valued) and all(
        any(pol and match(t, pattern(T_ + ' < 0')) is not None
            for (t, pol, _) in ctx.guards(pn, r)) for r in bare) and all(
        any((not pol) and match(t, pattern(T_ + ' < 0')) is not None
            for (t, pol, _) in ctx.guards(pn, r)) for r in valued)
    ctx.check(ok, pn, 'acquired batch returned outside the prior phase',
              'return arr2d_to_batch(acquisition[:batch_size], parameter_names) unless t < 0',
              'outside the prior phase (t >= 0) prepare_new_batch does not return the batch '
              'built from the acquired points', fn=pn, node=(valued or rr or [pn.node])[0])
    # stored remainder is written before the batch leaves
    st = [s for (s, t, k) in ctx.stores(pn, "self.state['acquisition']") if isinstance(s, ast.Assign)]
    ok = bool(st) and bool(valued) and all(ctx.must_precede(pn, st, r) for r in valued)
    ctx.check(ok, pn, 'remainder stored on the way out', "state['acquisition'] = rest before return",
              'a batch can be returned without the remaining acquired points being stored: the '
              'same points are handed out again', fn=pn, node=st[0] if st else pn.node)
    # _allow_submit
    al = ctx.own_method(bo, '_allow_submit')
    exa = ctx.ex(al)
    cfa = cfg_of(al)
    rr = returns(al)
    falls = [p for (p, lab) in cfa.ret.pred if not (p.kind == 'stmt' and
                                                    isinstance(p.ast, ast.Return))]
    SUP = ('super(*_)._allow_submit(batch_index)', 'super()._allow_submit(batch_index)')
    rf = [r for r in rr if r.value is not None and exa.term(r.value) == ('const', False)]
    rt = [r for r in rr if r.value is not None and exa.term(r.value) == ('const', True)]
    base_ref = [r for r in rf if any((not pol) and match_any(t, SUP) is not None
                                     for (t, pol, _) in ctx.guards(al, r))]
    ok = len(base_ref) == 1 and not falls and len(rf) + len(rt) == len(rr) and all(
        any(pol and match_any(t, SUP) is not None for (t, pol, _) in ctx.guards(al, r))
        for r in rt)
    ctx.check(ok, al, 'base refusal honoured', 'return False when the base class refuses; True is '
              'returned only after it agreed',
              'a batch can be submitted although the base class (parallel / total batch limits) '
              'refuses', fn=al, node=(base_ref or rr or [al.node])[0])
    # every test on the acquisition index in this function is `t < 0` (in either polarity)
    tests_on_t = [tn for tn in cfa.nodes if tn.kind == 'test' and
                  contains(exa.term(tn.ast, tn), T_)]
    exact = bool(tests_on_t) and all(
        match(exa.term(tn.ast, tn), pattern(T_ + ' < 0')) is not None or
        match(exa.term(tn.ast, tn), pattern(T_ + ' >= 0')) is not None or
        match(exa.term(tn.ast, tn), pattern('not ' + T_ + ' < 0')) is not None
        for tn in tests_on_t)
    prior_phase = [r for r in rt if any(pol and match(t, pattern(T_ + ' < 0')) is not None
                                        for (t, pol, _) in ctx.guards(al, r))]
    ok = exact and bool(prior_phase)
    # the pending gate is on the t >= 0 side
    gate = [r for r in rf if r not in base_ref]
    ok = ok and bool(gate) and all(
        any((not pol) and match(t, pattern(T_ + ' < 0')) is not None
            for (t, pol, _) in ctx.guards(al, r)) for r in gate)
    ctx.check(ok, al, 'prior phase is exactly t < 0',
              'if t < 0: return True  (free submission only while the prior supplies the points)',
              'free submission is not limited to exactly t < 0, or the pending gate does not '
              'cover every t >= 0', fn=al, node=(prior_phase or [al.node])[0])
    # update(): optimisation decided before the data are added, recorded when it ran
    up = ctx.own_method(bo, 'update')
    exu = ctx.ex(up)
    tu = ctx.calls(up, 'self.target_model.update(*_)')
    so = ctx.calls(up, 'self._should_optimize()')
    ok = len(tu) == 1 and len(so) == 1 and ctx.must_precede(up, so, tu[0]) and \
        len(tu[0].args) + len(tu[0].keywords) == 3
    if ok:
        a3 = tu[0].args[2] if len(tu[0].args) == 3 else [k.value for k in tu[0].keywords
                                                         if k.arg == 'optimize'][0]
        ok = match(exu.term(a3), pattern('self._should_optimize()')) is not None
    ctx.check(ok, up, 'optimisation decided before the evidence is added',
              'optimize = self._should_optimize(); target_model.update(params, y, optimize)',
              'the decision to optimise is not taken before the surrogate receives the batch '
              '(it reads the surrogate\'s evidence count) or is not passed on', fn=up,
              node=tu[0] if tu else up.node)
    st = [s for (s, t, k) in ctx.stores(up, "self.state['last_GP_update']")
          if isinstance(s, ast.Assign)]
    ok = len(st) == 1 and bool(tu) and ctx.must_precede(up, tu, st[0]) and \
        match(exu.term(st[0].value), pattern('self.target_model.n_evidence')) is not None
    if ok:
        gs = [(t, pol, ta) for (t, pol, ta) in ctx.guards(up, st[0])]
        ok = any(pol and match(t, pattern('self._should_optimize()')) is not None
                 for (t, pol, _) in gs) and len(ctx.guard_groups(up, st[0])) == 1
        # every path on which the optimisation ran records it
        if ok:
            tests = [(tn, True) for tn in cfg_of(up).nodes if tn.kind == 'test' and
                     match(exu.term(tn.ast, tn), pattern('self._should_optimize()')) is not None]
            ok = not cfg_of(up).exists_path_assuming(
                ctx.node(up, tu[0]), cfg_of(up).ret, avoiding=[ctx.node(up, st[0])],
                assumed=tests)
    ctx.check(ok, up, 'optimisation recorded exactly when it ran',
              "if optimize: state['last_GP_update'] = target_model.n_evidence",
              'the evidence count of the last optimisation is not recorded exactly when the '
              'surrogate was optimised', fn=up, node=st[0] if st else up.node)


@obligation('C11-n', 'T6 T8', 'the predicates the submission gate reads mean what their names say: '
            'has_pending = (number of pending batches > 0), counted over the pending map', floor=3,
            necessary='the gate `no stored acquisition and has_pending` with a predicate that is '
                      'true when nothing is pending acquires exactly while results are '
                      'outstanding (schedule-dependent evidence) and stalls when none are')
def c11_n(ctx):
    bh = ctx.cls('elfi.client:BatchHandler')
    defs = (('has_pending', ('self.num_pending > 0', '0 < self.num_pending',
                             'len(self._pending_batches) > 0', 'self.num_pending != 0',
                             'bool(self._pending_batches)')),
            ('num_pending', ('len(self.pending_indices)', 'len(self._pending_batches)')),
            ('pending_indices', ('self._pending_batches.keys()',)))
    for (nm, pats) in defs:
        m = bh.methods.get(nm)
        if m is None or not m.is_property:
            raise AnchorMissing('BatchHandler.{} property'.format(nm))
        ctx.touch(m)
        rr = returns(m)
        falls = [p for (p, lab) in cfg_of(m).ret.pred
                 if not (p.kind == 'stmt' and isinstance(p.ast, ast.Return))]
        ok = len(rr) == 1 and not falls and \
            match_any(ctx.ex(m).term(rr[0].value), pats) is not None
        ctx.check(ok, m, 'predicate `{}`'.format(nm), pats[0],
                  '`{}` is not `{}`'.format(nm, pats[0]), fn=m, node=rr[0] if rr else m.node)


@obligation('C11-o', 'T1 T8', 'the acquired points are supplied to the model as node outputs '
            '(shared with C03-e)', floor=6,
            necessary='acquired points that are not written into the loaded net are replaced by '
                      'prior draws: what is simulated is neither inside the bounds by '
                      'construction nor what the acquisition rule chose')
def c11_o(ctx):
    from .C03 import c03_e
    c03_e(ctx)


@obligation('C11-p', 'T12', 'the log density that RandMaxVar hands to the MCMC kernels returns a '
            'scalar: the batch-shaped value of evaluate() has its element selected first',
            floor=1,
            necessary='mcmc.nuts converts comparisons of the log density with float(); with the '
                      'installed numpy float() of a (1, 1) array raises TypeError, so RandMaxVar '
                      '(default sampler: nuts) cannot acquire a single point')
def c11_p(ctx):
    from .C20 import _scalarised
    ctx.fact('numpy >= 2.x: float(a) raises TypeError unless a.ndim == 0; MaxVar.evaluate returns '
             'an (n, 1) array')
    rmv = ctx.cls('elfi.methods.bo.acquisition:RandMaxVar')
    acq = ctx.own_method(rmv, 'acquire')
    ex = ctx.ex(acq)
    kernels = [c for c in ctx.calls(acq) if callee_name(c) in ('nuts', 'metropolis')]
    if not kernels:
        raise AnchorMissing('RandMaxVar.acquire does not call an MCMC kernel')
    targets = set()
    for c in kernels:
        if len(c.args) >= 3 and isinstance(c.args[2], ast.Name):
            targets.add(c.args[2].id)
    inner = [n for n in ast.walk(acq.node) if isinstance(n, ast.FunctionDef) and
             n.name in targets]
    if not inner:
        raise AnchorMissing('log-density callback of RandMaxVar.acquire')
    batch = (pattern('self.evaluate(_)'),)
    for fn in inner:
        fi = [f for f in acq.module.all_functions if getattr(f, 'node', None) is fn]
        if not fi:
            raise AnchorMissing('nested function {} not indexed'.format(fn.name))
        exi = ctx.ex(fi[0])
        rets = [r for r in ast.walk(fn) if isinstance(r, ast.Return) and r.value is not None]
        for r in rets:
            v = exi.term(r.value)
            if not any(find(v, p) is not None for p in batch):
                continue
            ctx.check(_scalarised(v, batch), acq, 'log density callback returns a scalar',
                      'return float(np.squeeze(np.log(self.evaluate(theta))))',
                      '`{}` returns the (1, 1)-shaped value of evaluate(): mcmc.nuts applies '
                      'float() to comparisons with it - TypeError with the installed numpy, '
                      'RandMaxVar cannot acquire'.format(src(r)[:60]), fn=fi[0], node=r)


_GRAD_OF = {'evaluate': 'evaluate_gradient', 'logpdf': 'gradient_logpdf',
            'pdf': 'gradient_pdf', 'predict_mean': 'predictive_gradient_mean',
            'predict_var': 'predictive_gradient_var'}


def _signed_call_term(t, param):
    """Term of `[-] owner.meth(param, extra...)` / `-1 * owner.meth(param, ...)` ->
    (sign, owner term, meth, extras) or None."""
    sign = 1
    while True:
        if t[0] == 'unary' and t[1] == '-':
            sign, t = -sign, t[2]
        elif t[0] == 'binop' and t[1] == '*' and ('const', -1) in (t[2], t[3]):
            sign, t = -sign, (t[3] if t[2] == ('const', -1) else t[2])
        elif t[0] == 'binop' and t[1] == '*' and ('unary', '-', ('const', 1)) in (t[2], t[3]):
            sign, t = -sign, (t[3] if t[2] == ('unary', '-', ('const', 1)) else t[2])
        else:
            break
    if not (t[0] == 'call' and t[1][0] == 'attr' and t[2] and t[2][0] == ('param', param)):
        return None
    return sign, t[1][1], t[1][2], (tuple(t[2][1:]), tuple(t[3]))


def _body_objective(ctx, f, skip):
    rr = [r for r in returns(f) if r.value is not None]
    ps = f.params[skip:]
    if len(rr) != 1 or not ps:
        return None
    return _signed_call_term(ctx.ex(f).term(rr[0].value), ps[0])


def _objective_of(ctx, fn, e):
    """What the callable `e` (an argument of minimize) computes: (sign, owner, method, extras)."""
    known = set(_GRAD_OF) | set(_GRAD_OF.values())
    if isinstance(e, ast.Name):
        for n in ast.walk(fn.node):
            if isinstance(n, ast.FunctionDef) and n.name == e.id and n is not fn.node and \
                    getattr(n, '_fninfo', None) is not None:
                sc = _body_objective(ctx, n._fninfo, 0)
                if sc is None:
                    return None
                # `self` of the enclosing method is a closure variable inside the local function
                owner = ('param', 'self') if sc[1][:2] == ('closure', 'self') else sc[1]
                return sc[0], owner, sc[2], sc[3]
        return None
    if isinstance(e, ast.Attribute):
        owner = ctx.ex(fn).term(e.value)
        if e.attr in known:
            return 1, owner, e.attr, ((), ())
        if owner == ('param', 'self') and fn.cls is not None:
            m = fn.cls.lookup(e.attr)
            if m is not None:
                sc = _body_objective(ctx, m, 1)
                if sc is not None and sc[2] in known:
                    return sc
        return None
    return None


@obligation('C11-q', 'T8 T13', 'the optimiser receives a function and its own gradient: at every '
            'call of minimize the gradient argument is the derivative method of the objective '
            'method, of the same object, with the same sign and the same further arguments',
            floor=3,
            necessary='L-BFGS-B follows the gradient it is given: the gradient of the negated or of '
                      'another function sends the acquisition to a point that does not optimise '
                      'the acquisition function (the acquired points stay inside the bounds, so '
                      'nothing else notices)')
def c11_q(ctx):
    mz = ctx.fn('elfi.methods.bo.utils:minimize')
    n = 0
    for fn in ctx.repo.all_functions():
        if not fn.module.name.startswith('elfi.methods') or fn is mz:
            continue
        for c in ctx.calls(fn, name='minimize'):
            if mz not in ctx.cg.resolve(fn, c, may=True):
                continue
            b = {}
            names = mz.params
            for i, a in enumerate(c.args):
                if i < len(names):
                    b[names[i]] = a
            for k in c.keywords:
                if k.arg:
                    b[k.arg] = k.value
            f, g = b.get(names[0]), b.get('grad')
            if f is None:
                continue
            if g is None or (isinstance(g, ast.Constant) and g.value is None):
                continue
            n += 1
            of, og = _objective_of(ctx, fn, f), _objective_of(ctx, fn, g)
            if of is None or og is None:
                ctx.undecided('{}:{}: the objective / gradient handed to minimize is not a '
                              '(negated) method call of the argument'.format(fn.qname, c.lineno))
                continue
            want = _GRAD_OF.get(of[2])
            ok = want is not None and og[2] == want and of[0] == og[0] and of[1] == og[1] and \
                of[3] == og[3]
            ctx.check(ok, fn, 'objective and gradient belong together',
                      '{}{}.{} with {}{}.{}'.format('-' if of[0] < 0 else '', show(of[1]), of[2],
                                                    '-' if og[0] < 0 else '', show(og[1]), og[2]),
                      'minimize is given {}{}.{}({}) as objective but {}{}.{}({}) as its '
                      'gradient'.format(
                          '-' if of[0] < 0 else '', show(of[1]), of[2],
                          ', '.join(['x'] + [show(a) for a in of[3][0]]),
                          '-' if og[0] < 0 else '', show(og[1]), og[2],
                          ', '.join(['x'] + [show(a) for a in og[3][0]])),
                      fn=fn, node=c)
    if n < 3:
        raise AnchorMissing('expected at least 3 minimize calls with a gradient, found {}'.format(n))
    # the wrapper itself: the objective, its gradient and the bounds reach scipy's optimiser in
    # their roles, and location and value of one start are returned together
    ex = ctx.ex(mz)
    sc = [c for c in ctx.calls(mz, name='minimize')]
    if not sc:
        raise AnchorMissing('minimize does not call scipy.optimize.minimize')
    for c in sc:
        kw = dict((k.arg, ex.term(k.value)) for k in c.keywords)
        a0 = ex.term(c.args[0]) if c.args else kw.get('fun')
        ok = a0 == ('param', mz.params[0]) and kw.get('jac') == ('param', 'grad') and \
            kw.get('bounds') == ('param', 'bounds')
        ctx.check(ok, mz, 'scipy receives objective, gradient and bounds in their roles',
                  'scipy.optimize.minimize(fun, x0, jac=grad, bounds=bounds, ...)',
                  'the wrapper does not hand (fun, jac=grad, bounds=bounds) to scipy: `{}`'.format(
                      src(c)[:80]), fn=mz, node=c)
    rr = returns(mz)
    if len(rr) == 1:
        rt = ex.term(rr[0].value)
        ok = rt[0] == 'tuple' and len(rt[1]) == 2 and rt[1][0][0] == 'sub' and \
            rt[1][1][0] == 'sub' and rt[1][0][2] == rt[1][1][2] and \
            match(rt[1][0][2], pattern('np.argmin(_)')) is not None
        ctx.check(ok, mz, 'location and value of the best start are returned together',
                  'locs[argmin(vals)], vals[argmin(vals)]',
                  'the returned location and value do not belong to the same (best) start: '
                  '{}'.format(show(rt)[:100]), fn=mz, node=rr[0])


@obligation('C11-r', 'T2', 'no result buffer takes the dtype of a caller\'s array and then receives '
            'computed values (shared sweep of C08-l, restricted to the modules this property is '
            'anchored in; `*_like(x)` and `dtype=x.dtype` allocations)', floor=1,
            necessary='acquired points and gradients are stored as computed (numpy truncates floats silently when they are assigned into an '
                      'integer array)')
def c11_dtype(ctx):
    from .base import inherited_dtype_obligation
    inherited_dtype_obligation(ctx, ['elfi.methods.bo.acquisition', 'elfi.methods.bo.utils', 'elfi.methods.inference.bolfi'])
