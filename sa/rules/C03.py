"""C03 - compiled execution equals the dataflow meaning of the graph.

Decided: agreement of the compiler's and the loader's instruction tables, access path of the
reserved state flags, the rejection guard for stochastic observed ancestors, positional
argument order, pairing of supplied outputs with removed operations, the needed-set
computation, node-completeness of the dependency graph, wiring of observed twins.
Not decided: value equality of outputs for arbitrary graphs.
"""

import ast

from .. import AnalysisError, AnchorMissing
from ..cfg import cfg_of
from ..model import own_nodes
from ..values import pattern, match, match_any, find, contains, show, subterms
from .base import obligation, src, callee_name, if_branches, split_if
from .C04 import pattern_term, returns, enclosing_loop, _inside

RESERVED = {'_operation', '_output', '_stochastic', '_observable', '_uses_observed',
            '_uses_batch_size', '_uses_meta'}


def const_dict(t):
    """{key: value term} of a dict(...) call or a dict literal with constant keys, else None."""
    if t[0] == 'call' and match(t[1], pattern('dict')) is not None and not t[2]:
        return dict((k, v) for (k, v) in t[3] if k is not None)
    if t[0] == 'dict':
        out = {}
        for (k, v) in t[1]:
            if k[0] != 'const':
                return None
            out[k[1]] = v
        return out
    return None


@obligation('C03-a', 'T8', 'compiler and loader agree on instruction nodes and edge parameters',
            floor=5, necessary='a node named differently on the two sides is never given its '
                               'value and the operation fails or silently gets a default')
def c03_a(ctx):
    comp = ctx.fn('elfi.compiler:AdditionalNodesCompiler.compile')
    load = ctx.fn('elfi.loader:AdditionalNodesLoader.load')
    exc, exl = ctx.ex(comp), ctx.ex(load)
    cmap = lmap = None
    cnode = lnode = None
    for n in own_nodes(comp.node):
        if isinstance(n, ast.Assign):
            d = const_dict(exc.term(n.value))
            if d and all(k.startswith('_uses') for k in d):
                cmap, cnode = d, n
    for n in own_nodes(load.node):
        if isinstance(n, ast.Assign):
            d = const_dict(exl.term(n.value))
            if d and all(k.startswith('_') for k in d) and len(d) >= 2 and \
                    not all(k in ('batch_index', 'submission_index') for k in d):
                if any(contains(v, 'context.batch_size') for v in d.values()):
                    lmap, lnode = d, n
    if cmap is None:
        raise AnchorMissing('instruction_node_map not found in AdditionalNodesCompiler')
    if lmap is None:
        raise AnchorMissing('details table not found in AdditionalNodesLoader')
    cvals = set(v[1] for v in cmap.values() if v[0] == 'const')
    ctx.check(cvals == set(lmap), comp, 'instruction node names',
              'compiler nodes {} = loader keys {}'.format(sorted(cvals), sorted(lmap)),
              'compiler creates nodes {} but the loader fills {}'.format(sorted(cvals),
                                                                        sorted(lmap)),
              fn=comp, node=cnode)
    # flag -> node pairing and loader values
    want = {'_uses_batch_size': ('_batch_size', 'context.batch_size'), '_uses_meta': ('_meta', None)}
    for flag, (node, val) in want.items():
        ok = flag in cmap and cmap[flag] == ('const', node) and node in lmap
        if ok and val is not None:
            ok = lmap[node] == pattern_term(val)
        ctx.check(ok, comp, 'flag {} -> node {}'.format(flag, node),
                  '{} nodes get an edge from {} which the loader fills with {}'.format(
                      flag, node, val or 'the meta dict'),
                  'flag {} is not served by node {} filled with {}'.format(flag, node, val),
                  fn=comp, node=cnode)
    # edge parameter = node name without the underscore
    edges = ctx.calls(comp, name='add_edge')
    ok = False
    for e in edges:
        kws = dict((k.arg, k.value) for k in e.keywords)
        if 'param' in kws:
            t = exc.term(kws['param'])
            if t[0] == 'sub' and t[2] == ('slice', ('const', 1), ('const', None), ('const', None)) \
                    and e.args and exc.term(e.args[0]) == t[1]:
                ok = True
    # the edge is added exactly for nodes whose flag is set to a true value (the public
    # getter reads `.get(flag, False)`: a present-but-false flag means "not used")
    okt = bool(edges) and all(
        any(pol and match(g, pattern("_d['attr_dict'][_i]")) is not None and
            match(g, pattern("_d['attr_dict'][_i]"))['i'][0] in ('item', 'elem')
            for (g, pol, _) in ctx.guards(comp, e)) and
        not any(pol and match(g, pattern("_i in _d['attr_dict']")) is not None
                for (g, pol, _) in ctx.guards(comp, e)) for e in edges)
    ctx.check(okt, comp, 'instruction served iff the flag is true',
              "if d['attr_dict'].get(instruction): add_edge(...)",
              'the instruction edge is added on mere presence of the flag (a flag set to False '
              'still gets batch_size / meta), unlike the getter which reads its truth value',
              fn=comp, node=edges[0] if edges else comp.node)
    ctx.check(ok, comp, 'edge parameter is the node name without underscore',
              "add_edge(_node, node, param=_node[1:]) -> 'batch_size', 'meta'",
              'the instruction edge parameter is not the node name with the leading underscore '
              'removed', fn=comp, node=edges[0] if edges else comp.node)
    rv = ctx.fn('elfi.model.utils:rvs_from_distribution')
    ctx.check('batch_size' in rv.all_params, rv, 'consumer keyword batch_size',
              'rvs_from_distribution accepts batch_size',
              'rvs_from_distribution has no batch_size parameter', fn=rv, node=rv.node)
    # meta dict content
    md = None
    for n in own_nodes(load.node):
        if isinstance(n, ast.Assign):
            d = const_dict(exl.term(n.value))
            if d and 'batch_index' in d:
                md = (d, n)
    ok = md is not None and md[0].get('batch_index') == ('param', 'batch_index') and \
        md[0].get('master_seed') == pattern_term('context.seed') and \
        md[0].get('submission_index') == pattern_term('context.num_submissions') and \
        md[0].get('model_name') == pattern_term("compiled_net.graph['name']")
    ctx.check(ok, load, 'meta dict',
              'batch_index, submission_index, master_seed, model_name from context / net',
              'the meta dict does not carry batch_index / master_seed / submission_index / '
              'model_name from the context', fn=load, node=md[1] if md else load.node)
    st = [(s, t) for (s, t, k) in ctx.stores(load, "compiled_net.nodes[_]['output']")
          if k == 'assign']
    ok = False
    for (s, t) in st:
        lo = enclosing_loop(s)
        if isinstance(lo, ast.For) and lmap is not None:
            it = exl.term(lo.iter, cfg_of(load).by_stmt[id(lo)])
            key = exl.term(t.value.slice)
            v = exl.term(s.value)
            if match(it, pattern('_d.items()')) is not None and key[0] == 'item' and \
                    key[2] == 0 and v[0] == 'item' and v[2] == 1 and key[1] == v[1] and \
                    any(pol and match(g, pattern('_n in compiled_net')) is not None
                        for (g, pol, _) in ctx.guards(load, s)):
                ok = True
    ctx.check(ok, load, 'instruction values loaded into present nodes',
              "for node, v in details.items(): if node in net: nodes[node]['output'] = v",
              'the instruction values are not stored as outputs of their own nodes', fn=load,
              node=st[0][0] if st else load.node)
    # random state node: same name on both sides (compiler name checked in C02-d)
    rl = ctx.fn('elfi.loader:RandomStateLoader.load')
    rc = ctx.fn('elfi.compiler:RandomStateCompiler.compile')
    names_c = set(ctx.ex(rc).term(e.args[0]) for e in ctx.calls(rc, name='add_edge') if e.args)
    names_l = set()
    for (s, t, k) in ctx.stores(rl, 'compiled_net.nodes[_][_]'):
        names_l.add(ctx.ex(rl).term(t.value.slice))
    ctx.check(names_c == names_l and len(names_c) == 1, rc, 'random state node name',
              'compiler {} = loader {}'.format([show(x) for x in names_c],
                                               [show(x) for x in names_l]),
              'compiler names the generator node {} but the loader fills {}'.format(
                  [show(x) for x in names_c], [show(x) for x in names_l]), fn=rc, node=rc.node)
    # observed: edge param 'observed' = keyword of distance_as_discrepancy; same naming helper
    oc = ctx.fn('elfi.compiler:ObservedCompiler.compile')
    ol = ctx.fn('elfi.loader:ObservedLoader.load')
    dd = ctx.fn('elfi.model.utils:distance_as_discrepancy')
    oe = [e for e in ctx.calls(oc, name='add_edge')
          if any(k.arg == 'param' for k in e.keywords)]
    ok = bool(oe) and all(ctx.ex(oc).term([k.value for k in e.keywords if k.arg == 'param'][0])
                          == ('const', 'observed') for e in oe) and 'observed' in dd.all_params
    ctx.check(ok, oc, "edge parameter 'observed'",
              "param='observed' = keyword of distance_as_discrepancy",
              "the observed tuple is not passed under the keyword `observed` that "
              "distance_as_discrepancy expects", fn=oc, node=oe[0] if oe else oc.node)
    on = ctx.fn('elfi.utils:observed_name')
    ok = bool(ctx.calls(oc, resolved_to=on)) and bool(ctx.calls(ol, resolved_to=on)) and \
        bool(ctx.calls(ctx.fn('elfi.compiler:ObservedCompiler.make_observed_copy'),
                       resolved_to=on))
    ctx.check(ok, on, 'one naming helper for observed twins',
              'compiler and loader both use observed_name()',
              'compiler and loader do not derive the twin name with the same helper', fn=on,
              node=on.node)


def _node_data_like(t):
    """term denotes the *outer* data dict of a source_net node."""
    return match(t, pattern('_.nodes[_]')) is not None or \
        match(t, pattern('_.nodes.get(*_)')) is not None or \
        match(t, pattern('_.nodes(data=True)')) is not None or \
        (t[0] == 'item' and t[2] == 1 and t[1][0] == 'elem' and
         contains(t[1][1], '_.nodes(data=True)')) or \
        match(t, pattern('_._node[_]')) is not None


@obligation('C03-b', 'T8', 'reserved state flags are read through the attr_dict of a node',
            floor=8, necessary='a flag looked up in the outer node dict is never found: the '
                               'check or instruction depending on it is dead')
def c03_b(ctx):
    ctx.fact("source_net.add_node(name, attr_dict=state): the state dict is the value of key "
             "'attr_dict' of the node's data dict (docs/developer/architecture.rst)")
    mods = ('elfi.compiler', 'elfi.loader', 'elfi.executor', 'elfi.client')
    n_reads = 0
    for mn in mods:
        m = ctx.repo.module(mn)
        for f in m.all_functions:
            ex = ctx.ex(f)
            for n in own_nodes(f.node):
                key = None
                cont = None
                if isinstance(n, ast.Compare) and len(n.ops) == 1 and \
                        isinstance(n.ops[0], (ast.In, ast.NotIn)) and \
                        isinstance(n.left, ast.Constant) and n.left.value in RESERVED:
                    key, cont = n.left.value, n.comparators[0]
                elif isinstance(n, ast.Call) and isinstance(n.func, ast.Attribute) and \
                        n.func.attr == 'get' and n.args and isinstance(n.args[0], ast.Constant) \
                        and n.args[0].value in RESERVED:
                    key, cont = n.args[0].value, n.func.value
                elif isinstance(n, ast.Subscript) and isinstance(n.slice, ast.Constant) and \
                        n.slice.value in RESERVED and isinstance(n.ctx, ast.Load):
                    key, cont = n.slice.value, n.value
                if key is None:
                    continue
                t = ex.term(cont)
                alts = t[1] if t[0] == 'phi' else (t,)
                for a in alts:
                    inner = match(a, pattern("_['attr_dict']")) is not None or \
                        match(a, pattern("_.get('attr_dict', _)")) is not None
                    outer = _node_data_like(a)
                    if inner:
                        n_reads += 1
                        ctx.ok(f, 'flag {} read through attr_dict'.format(key), src(n)[:80],
                               fn=f, node=n)
                    elif outer:
                        n_reads += 1
                        ctx.bad(f, 'flag {} read on the outer node dict'.format(key),
                                "`{}` looks for {} in the node's data dict, where it never is "
                                "(the state lives under ['attr_dict'])".format(src(n)[:80], key),
                                fn=f, node=n)
    if n_reads < 8:
        ctx.undecided('only {} reserved-flag reads recognised'.format(n_reads))


@obligation('C03-c', 'T11', 'observed data that would depend on a stochastic node is refused',
            floor=1, necessary='otherwise the observed twin is evaluated with a random draw')
def c03_c(ctx):
    oc = ctx.fn('elfi.compiler:ObservedCompiler.compile')
    ex = ctx.ex(oc)
    good = None
    for r in ctx.stmts(oc, ast.Raise):
        gs = ctx.guards(oc, r)
        flag = [(t, pol) for (t, pol, _) in gs if pol and (
            match(t, pattern("'_stochastic' in _")) is not None or
            match(t, pattern("_['_stochastic']")) is not None)]
        if not flag:
            continue
        # inside: for ancestor in nx.ancestors(compiled_net, observed_name(node)): for node in
        # uses_observed
        lo = enclosing_loop(r)
        if not isinstance(lo, ast.For):
            continue
        it = ex.term(lo.iter, cfg_of(oc).by_stmt[id(lo)])
        m = match(it, pattern('nx.ancestors(compiled_net, _x)'))
        if m is None or not contains(m['x'], 'observed_name(_)'):
            continue
        outer = enclosing_loop(lo)
        if not isinstance(outer, ast.For):
            continue
        # the tested node is the loop element
        tested_elem = any(s[0] == 'elem' and s[1] == it for (t, pol) in flag for s in subterms(t))
        if tested_elem:
            good = (r, outer)
    ctx.check(good is not None, oc, 'stochastic ancestor guard',
              'raise when an ancestor of an observed twin carries _stochastic',
              'no raise is reachable under a _stochastic test over the ancestors of the observed '
              'twins', fn=oc, node=good[0] if good else oc.node)
    if good is not None:
        outer = good[1]
        it = ex.term(outer.iter, cfg_of(oc).by_stmt[id(outer)])
        # the outer loop ranges over the collected _uses_observed nodes
        apps = [c for c in ctx.calls(oc, name='append')
                if isinstance(outer.iter, ast.Name) and isinstance(c.func.value, ast.Name) and
                c.func.value.id == outer.iter.id]
        ok = False
        for c in apps:
            for (t, pol, _) in ctx.guards(oc, c):
                if pol and contains(t, "_['_uses_observed']"):
                    ok = True
        ctx.check(ok, oc, 'guard covers every node that uses observed data',
                  'loop over the collected _uses_observed nodes',
                  'the guard does not range over all nodes flagged _uses_observed', fn=oc,
                  node=outer)
        ctx.check(cfg_of(oc).must_pass([cfg_of(oc).by_stmt[id(outer)]]), oc,
                  'guard on every path', 'the check loop runs before compile returns',
                  'compile can return without running the check', fn=oc, node=outer)


@obligation('C03-d', 'T3', 'positional parents are passed in declared order, named ones by name',
            floor=3, necessary='unordered positional arguments swap the operation\'s inputs')
def c03_d(ctx):
    ex_cls = ctx.cls('elfi.executor:Executor')
    execute = ctx.own_method(ex_cls, 'execute')
    runs = [f for f in ctx.reachable([execute], depth=2, may=False)
            if f.cls is ex_cls and any(
                isinstance(n, ast.Call) and any(isinstance(a, ast.Starred) for a in n.args) and
                any(k.arg is None for k in n.keywords) for n in own_nodes(f.node))]
    if not runs:
        raise AnchorMissing('no function reachable from Executor.execute applies fn(*args, '
                            '**kwargs)')
    for run in runs:
        ex = ctx.ex(run)
        for n in own_nodes(run.node):
            if not (isinstance(n, ast.Call) and any(isinstance(a, ast.Starred) for a in n.args)):
                continue
            star = [a for a in n.args if isinstance(a, ast.Starred)][0]
            t = ex.term(star.value)
            m = match(t, pattern('[_e for _x in sorted(_a, key=itemgetter(0))]'))
            ok = t[0] == 'comp' and len(t[3]) == 1 and \
                match(t[3][0][0], pattern('sorted(_a, key=itemgetter(0))')) is not None and \
                ((t[2][0] == 'item' and t[2][2] == 1) or
                 (t[2][0] == 'sub' and t[2][1][0] == 'elem' and t[2][2] == ('const', 1)))
            ctx.check(ok, run, 'positional arguments sorted by edge parameter',
                      '[a[1] for a in sorted(args, key=itemgetter(0))]',
                      'positional arguments are {} - not ordered by their integer edge '
                      'parameter'.format(show(t)[:100]), fn=run, node=n)
        # collection: (param, output) for int params, kwargs[param] = output otherwise
        apps = ctx.calls(run, name='append')
        ok = False
        for c in apps:
            if c.args:
                t = ex.term(c.args[0])
                if t[0] == 'tuple' and len(t[1]) == 2 and \
                        match(t[1][0], pattern("G[_p][node]['param']")) is not None and \
                        match(t[1][1], pattern("G.nodes[_p]['output']")) is not None:
                    for (g, pol, _) in ctx.guards(run, c):
                        if pol and match(g, pattern("isinstance(G[_p][node]['param'], int)")) \
                                is not None:
                            ok = True
        ctx.check(ok, run, 'positional collection',
                  "(edge param, parent output) collected for integer params",
                  'integer-parameter parents are not collected as (param, output) pairs', fn=run,
                  node=apps[0] if apps else run.node)
        kwname = None
        for n in own_nodes(run.node):
            if isinstance(n, ast.Call) and any(isinstance(a, ast.Starred) for a in n.args):
                for k2 in n.keywords:
                    if k2.arg is None and isinstance(k2.value, ast.Name):
                        kwname = k2.value.id
        kw = [(s, t, k) for (s, t, k) in ctx.stores(run, (kwname or 'kwargs') + '[_]',
                                                    expanded=False) if k == 'assign']
        ok = False
        for (s, t, k) in kw:
            if match(ex.term(t.slice), pattern("G[_p][node]['param']")) is not None and \
                    match(ex.term(s.value), pattern("G.nodes[_p]['output']")) is not None:
                ok = True
        ctx.check(ok, run, 'named collection', 'kwargs[param] = parent output',
                  'named parents are not passed under their edge parameter name', fn=run,
                  node=kw[0][0] if kw else run.node)
        # every predecessor is visited
        loops = [n for n in own_nodes(run.node) if isinstance(n, ast.For)]
        ok = any(match(ex.term(lo.iter, cfg_of(run).by_stmt[id(lo)]),
                       pattern('G.predecessors(node)')) is not None for lo in loops)
        ctx.check(ok, run, 'all parents visited', 'for parent in G.predecessors(node)',
                  'the arguments are not collected from all predecessors of the node', fn=run,
                  node=loops[0] if loops else run.node)


def _output_store_sites(ctx):
    """(fn, stmt, node-dict term) for every store of an `output` into a net node."""
    sites = []
    for f in ctx.repo.all_functions():
        if f.module.name.startswith(('elfi.examples', 'elfi.visualization')):
            continue
        ex = ctx.ex(f)
        for n in own_nodes(f.node):
            if isinstance(n, ast.Assign):
                for tg in n.targets:
                    if isinstance(tg, ast.Subscript):
                        t = ex.term(tg)
                        if t[2] == ('const', 'output') and match(t[1], pattern('_.nodes[_]')) \
                                is not None:
                            sites.append((f, n, t[1], 'assign'))
            elif isinstance(n, ast.Call) and callee_name(n) == 'update' and n.args and \
                    isinstance(n.func, ast.Attribute):
                recv = ex.term(n.func.value)
                if match(recv, pattern('_.nodes[_]')) is None:
                    continue
                d = const_dict(ex.term(n.args[0]))
                if d is not None and 'output' in d:
                    sites.append((f, n, recv, 'update'))
                elif d is None and contains(ex.term(n.args[0]), "{'output': _}"):
                    sites.append((f, n, recv, 'update'))
                else:
                    # update(<call returning {'output': ...}>): follow one level
                    for tgt in ctx.cg.resolve(f, n.args[0]) if isinstance(n.args[0], ast.Call) \
                            else []:
                        for r in returns(tgt):
                            rt = ctx.ex(tgt).term(r.value) if r.value is not None else None
                            if rt is not None and (contains(rt, "{'output': _}") or
                                                   (const_dict(rt) or {}).get('output')):
                                sites.append((f, n, recv, 'update'))
    return sites


@obligation('C03-e', 'T1', 'a node that is given a value loses its operation', floor=6,
            necessary='a node with both output and operation is refused by the executor, or its '
                      'operation runs although the value was supplied')
def c03_e(ctx):
    sites = _output_store_sites(ctx)
    if len(sites) < 6:
        ctx.undecided('expected >= 6 output-supplying sites, found {}'.format(len(sites)))
    # the public places where values are supplied must each still do so
    required = [('elfi.loader:ObservedLoader.load', 'observed data'),
                ('elfi.loader:PoolLoader.load', 'stored pool values'),
                ('elfi.loader:AdditionalNodesLoader.load', 'batch_size / meta'),
                ('elfi.client:BatchHandler.submit', 'overriding batch values'),
                ('elfi.model.extensions:ModelPrior.rvs', 'the caller\'s generator'),
                ('elfi.executor:Executor.execute', 'operation results')]
    for (q, what) in required:
        f = ctx.fn(q)
        mine = [x for x in sites if x[0] is f]
        ctx.check(bool(mine), f, 'values are supplied as node outputs',
                  '{} stored as output of their node'.format(what),
                  '{} no longer stores {} into the node it belongs to'.format(f.name, what),
                  fn=f, node=mine[0][1] if mine else f.node)
    ev = [x for x in sites if x[0].cls is not None and x[0].cls.name == 'ModelPrior'
          and x[0].name != 'rvs']
    ctx.check(bool(ev), 'elfi.model.extensions:ModelPrior', 'query point supplied as outputs',
              'ModelPrior evaluation overrides parameter nodes',
              'ModelPrior no longer overrides the parameter nodes with the query point')
    # supplied values are the ones meant: submit / ModelPrior iterate the whole batch dict
    sub = ctx.fn('elfi.client:BatchHandler.submit')
    exs = ctx.ex(sub)
    for (f, n, nd, kind) in [x for x in sites if x[0] is sub]:
        lo = enclosing_loop(n)
        ok = isinstance(lo, ast.For) and match(
            exs.term(lo.iter, cfg_of(sub).by_stmt[id(lo)]), pattern('(batch or {}).items()')) \
            is not None
        d = const_dict(exs.term(n.args[0])) if kind == 'update' else None
        ok = ok and d is not None and d.get('output', ('x',))[0] == 'item' and \
            d['output'][2] == 1 and nd[2][0] == 'item' and nd[2][2] == 0
        ctx.check(ok, sub, 'every overriding value goes to its own node',
                  'for k, v in batch.items(): nodes[k] gets v',
                  'the overriding batch values are not stored node by node', fn=sub, node=n)
    for (f, n, nd, kind) in sites:
        ex = ctx.ex(f)
        # nodes that are created without an operation by the compiler
        keyt = nd[2]
        exempt = None
        if keyt[0] == 'const' and keyt[1] in ('_random_state',):
            exempt = 'generator node is created without an operation'
        if keyt[0] in ('elem', 'item') and contains(keyt, 'dict(_batch_size=_, _meta=_).items()'):
            exempt = 'instruction nodes are created without an operation'
        if exempt:
            ctx.ok(f, 'node without operation', exempt, fn=f, node=n)
            continue
        removals = []
        for m in own_nodes(f.node):
            if isinstance(m, ast.Delete):
                for tg in m.targets:
                    t = ex.term(tg)
                    if t == ('sub', nd, ('const', 'operation')):
                        removals.append(m)
            elif isinstance(m, ast.Call) and callee_name(m) == 'pop' and m.args and \
                    ex.term(m.args[0]) == ('const', 'operation') and \
                    ex.term(m.func.value) == nd:
                removals.append(m)
        ok = bool(removals) and ctx.must_follow(f, n, removals)
        ctx.check(ok, f, 'operation removed with the supplied output',
                  "`{}` is followed on every path by removing ['operation'] of the same node"
                  .format(src(n)[:60]),
                  "`{}` supplies an output but the node keeps its operation on some path".format(
                      src(n)[:60]), fn=f, node=n)


@obligation('C03-f', 'T3', 'only ancestors of runnable outputs without a present value are '
            'executed', floor=4,
            necessary='otherwise operations the outputs do not need (or whose value was '
                      'supplied) run, or needed ones are skipped')
def c03_f(ctx):
    eo = ctx.fn('elfi.executor:Executor.get_execution_order')
    ex = ctx.ex(eo)
    # needed = outputs that carry an operation
    nd = [n for n in own_nodes(eo.node) if isinstance(n, ast.Assign) and
          any(isinstance(t, ast.Name) and t.id == 'needed' for t in n.targets)]
    ok = False
    the_needed = None
    for n in own_nodes(eo.node):
        if isinstance(n, ast.Assign):
            t = ex.term(n.value)
            m = match(t, pattern('tuple(sorted(_c))'))
            if m is not None and m['c'][0] == 'comp':
                c = m['c']
                if match(c[3][0][0], pattern("G.graph['outputs']")) is not None and \
                        len(c[3][0][1]) == 1 and \
                        match(c[3][0][1][0], pattern("'operation' in G.nodes[_]")) is not None:
                    ok = True
                    the_needed = t
    ctx.check(ok, eo, 'needed outputs', "outputs that still have an 'operation'",
              'the set of needed outputs is not {outputs with an operation}', fn=eo, node=eo.node)
    # nodes with an output are removed from the dependency graph
    rms = [c for c in ctx.calls(eo, name='remove_node')]
    ok = False
    for c in rms:
        for (t, pol, _) in ctx.guards(eo, c):
            if pol and match(t, pattern("'output' in G.nodes[_n]")) is not None:
                ok = True
    ctx.check(ok, eo, 'valued nodes cut the dependency graph',
              "dep_graph.remove_node(n) when 'output' in G.nodes[n]",
              'nodes with a present output are not removed from the dependency graph', fn=eo,
              node=rms[0] if rms else eo.node)
    # nodes_to_execute = needed + ancestors in dep graph
    ups = [c for c in ctx.calls(eo, name='update')]
    ok = False
    for c in ups:
        if c.args and match(ex.term(c.args[0]), pattern('nx.ancestors(_d, _n)')) is not None:
            lo = enclosing_loop(c)
            if isinstance(lo, ast.For) and the_needed is not None and \
                    ex.term(lo.iter, cfg_of(eo).by_stmt[id(lo)]) == the_needed:
                recv = ex.term(c.func.value)
                if match(recv, pattern('set(_x)')) is not None and recv[2][0] == the_needed:
                    ok = True
    ctx.check(ok, eo, 'execution set', 'set(needed) + ancestors(dep_graph, n) for n in needed',
              'the execution set is not {needed} united with their ancestors in the cut graph',
              fn=eo, node=ups[0] if ups else eo.node)
    # ReduceCompiler: removes exactly the non-ancestors of the outputs
    rc = ctx.fn('elfi.compiler:ReduceCompiler.compile')
    exr = ctx.ex(rc)
    rms = ctx.calls(rc, name='remove_node')
    ok = False
    for c in rms:
        for (t, pol, _) in ctx.guards(rc, c):
            if pol and match(
                    t, pattern("_n not in nbunch_ancestors(compiled_net, "
                               "compiled_net.graph['outputs'])")) is not None:
                lo = enclosing_loop(c)
                if isinstance(lo, ast.For) and match(
                        exr.term(lo.iter, cfg_of(rc).by_stmt[id(lo)]),
                        pattern('list(compiled_net.nodes())')) is not None:
                    ok = True
    ctx.check(ok, rc, 'reduction', 'remove nodes outside nbunch_ancestors(net, outputs)',
              'ReduceCompiler does not remove exactly the nodes outside the ancestors of the '
              'outputs (iterating a snapshot of the nodes)', fn=rc,
              node=rms[0] if rms else rc.node)
    na = ctx.fn('elfi.utils:nbunch_ancestors')
    exn = ctx.ex(na)
    rr = returns(na)
    ok = bool(rr) and contains(exn.term(rr[0].value), 'set(nbunch)')
    ok = ok and any(match(exn.term(n.value), pattern('_.union(nx.ancestors(G, _))')) is not None
                    for n in own_nodes(na.node) if isinstance(n, ast.Assign))
    ctx.check(ok, na, 'ancestors include the outputs themselves',
              'set(nbunch) united with nx.ancestors(G, n)',
              'nbunch_ancestors does not return the outputs together with their ancestors',
              fn=na, node=rr[0] if rr else na.node)
    # executed operation is removed after it ran: each operation runs once
    exe = ctx.fn('elfi.executor:Executor.execute')
    exx = ctx.ex(exe)
    both = any(contains(exx.term(n.test), "{'operation', 'output'} <= _.keys()")
               for n in own_nodes(exe.node) if isinstance(n, ast.If))
    rr = returns(exe)
    okr = bool(rr) and match(exx.term(rr[-1].value),
                             pattern("{_k: G.nodes[_k]['output'] for _k in G.graph['outputs']}")) \
        is not None
    if not okr and rr:
        t = exx.term(rr[-1].value)
        okr = t[0] == 'comp' and t[1] == 'dict' and \
            match(t[3][0][0], pattern("G.graph['outputs']")) is not None
    ctx.check(okr, exe, 'result', "{k: G.nodes[k]['output'] for k in outputs}",
              'execute does not return the outputs of exactly the requested nodes', fn=exe,
              node=rr[-1] if rr else exe.node)


@obligation('C03-g', 'T8', 'the dependency graph contains every node that is removed from it or '
            'queried in it', floor=2,
            necessary='a graph built from the edge list lacks isolated nodes: remove_node / '
                      'ancestors raise for a disconnected node')
def c03_g(ctx):
    ctx.fact('nx.DiGraph(edges) contains only the end points of the edges; remove_node and '
             'nx.ancestors raise for a node that is not in the graph')
    eo = ctx.fn('elfi.executor:Executor.get_execution_order')
    ex = ctx.ex(eo)
    sites = [c for c in ctx.calls(eo, name='remove_node')] + \
        [c for c in ctx.calls(eo, 'nx.ancestors(*_)')]
    if len(sites) < 2:
        ctx.undecided('expected remove_node and ancestors on the dependency graph')
    for c in sites:
        gexpr = c.func.value if callee_name(c) == 'remove_node' else c.args[0]
        if not isinstance(gexpr, ast.Name):
            ctx.undecided('dependency graph is not a local variable')
        node = ctx.node(eo, c)
        defs = ex.reaching(gexpr.id, node)
        complete = False
        why = ''
        for d in defs:
            if d.kind != 'assign':
                continue
            v = ex.term(d.payload, d.node)
            if match(v, pattern('nx.DiGraph(G)')) is not None or \
                    match(v, pattern('G.copy()')) is not None or \
                    match(v, pattern('nx.DiGraph(G.edges, *_)')) is None and \
                    match(v, pattern('nx.DiGraph(G.edges())')) is None and contains(v, 'G'):
                complete = True
                why = 'built from G itself'
            else:
                # edge-only construction: nodes must be added before use
                adds = [a for a in ctx.calls(eo, name='add_nodes_from')
                        if isinstance(a.func.value, ast.Name) and a.func.value.id == gexpr.id and
                        a.args and (match(ex.term(a.args[0]), pattern('G.nodes')) is not None or
                                    match(ex.term(a.args[0]), pattern('G.nodes()')) is not None or
                                    match(ex.term(a.args[0]), pattern('G')) is not None)]
                if adds and ctx.must_precede(eo, adds, c):
                    complete = True
                    why = 'edge list plus add_nodes_from(G.nodes)'
        if not complete:
            for (t, pol, _) in ctx.guards(eo, c):
                if pol and (contains(t, '_ in ' + gexpr.id) or contains(t, gexpr.id + '.has_node(_)')):
                    complete = True
                    why = 'guarded by membership'
        ctx.check(complete, eo, 'node-complete dependency graph at ' + callee_name(c),
                  why, '`{}` may be given a node that `{}` (built from the edge list only) does '
                       'not contain'.format(src(c)[:60], gexpr.id), fn=eo, node=c)


@obligation('C03-h', 'T8', 'observed twins are wired to the observed twins of observable parents',
            floor=5, necessary='a twin wired to the simulated parent computes "observed" data '
                               'from a simulation')
def c03_h(ctx):
    oc = ctx.fn('elfi.compiler:ObservedCompiler.compile')
    ex = ctx.ex(oc)
    edges = [e for e in ctx.calls(oc, name='add_edge') if len(e.args) >= 2 and
             not any(k.arg == 'param' for k in e.keywords)]
    if not edges:
        raise AnchorMissing('ObservedCompiler copies no edges')
    for e in edges:
        a0, a1 = ex.term(e.args[0]), ex.term(e.args[1])
        lo = enclosing_loop(e)
        okl = isinstance(lo, ast.For) and match(
            ex.term(lo.iter, cfg_of(oc).by_stmt[id(lo)]),
            pattern('source_net.predecessors(_n)')) is not None
        ctx.check(okl, oc, 'every parent of the node is linked',
                  'for parent in source_net.predecessors(node)',
                  'the twin is not linked to all predecessors of its node', fn=oc, node=e)
        ok = a0[0] == 'phi' and len(a0[1]) == 2 and \
            any(match(x, pattern('observed_name(_p)')) is not None for x in a0[1]) and \
            any(x[0] == 'elem' for x in a0[1])
        ctx.check(ok, oc, 'link parent',
                  'observed_name(parent) for observable parents, the parent itself otherwise',
                  'the twin\'s parent is {} - not (observed twin | parent itself)'.format(
                      show(a0)[:100]), fn=oc, node=e)
        # the choice is made on membership in the observable list
        sel = [n for n in ast.walk(lo) if isinstance(n, ast.If)] if isinstance(lo, ast.For) else []
        okm = False
        for n in sel:
            br = if_branches(ex, n, '_p in _o')
            if br is not None:
                body_obs = any(isinstance(s, ast.Assign) and contains(
                    ex.term(s.value), 'observed_name(_)') for s in br[0])
                else_plain = any(isinstance(s, ast.Assign) and ex.term(s.value)[0] == 'elem'
                                 for s in br[1])
                okm = body_obs and else_plain
        ctx.check(okm, oc, 'observable parents get their twin',
                  'if parent in observable: observed_name(parent) else: parent',
                  'the branches that choose the twin\'s parent are swapped or missing', fn=oc,
                  node=sel[0] if sel else e)
        ctx.check(match(a1, pattern('observed_name(_n)')) is not None, oc, 'link target',
                  'edge ends in observed_name(node)',
                  'the copied edge does not end in the observed twin', fn=oc, node=e)
        star = [k for k in e.keywords if k.arg is None]
        okd = bool(star) and (match(ex.term(star[0].value),
                                    pattern('source_net[_p][_n].copy()')) is not None or
                              match(ex.term(star[0].value), pattern('source_net[_p][_n]'))
                              is not None)
        ctx.check(okd, oc, 'edge data copied', '**source_net[parent][node]',
                  'the edge parameter of the original edge is not carried over', fn=oc, node=e)
        okg = any(pol is False and match(t, pattern("_['_stochastic']")) is not None
                  for (t, pol, _) in ctx.guards(oc, e))
        ctx.check(okg, oc, 'stochastic nodes keep no observed parents',
                  'edges copied only when the node is not stochastic',
                  'edges are copied for stochastic nodes as well (their twin must be given, not '
                  'computed)', fn=oc, node=e)
    # the observed tuple flows from the twin into the node that uses it
    oe = [e for e in ctx.calls(oc, name='add_edge')
          if any(k.arg == 'param' for k in e.keywords)]
    okdir = bool(oe) and all(
        len(e.args) >= 2 and contains(ex.term(e.args[0]), 'cls.make_observed_copy(*_)') and
        ex.term(e.args[1])[0] == 'elem' and
        any(pol and contains(t, "_['_uses_observed']") for (t, pol, _) in ctx.guards(oc, e))
        for e in oe)
    ctx.check(okdir, oc, 'observed edge direction', 'add_edge(twin, node, param=observed)',
              'the edge carrying the observed tuple does not run from the twin to the node '
              'flagged _uses_observed', fn=oc, node=oe[0] if oe else oc.node)
    # _uses_observed: twin runs args_to_tuple and feeds param 'observed'
    mk = ctx.calls(oc, name='make_observed_copy')
    ok = any(len(c.args) >= 3 and match(ex.term(c.args[2]), pattern('args_to_tuple')) is not None
             and any(pol and contains(t, "_['_uses_observed']")
                     for (t, pol, _) in ctx.guards(oc, c)) for c in mk)
    ctx.check(ok, oc, 'discrepancy twin collects a tuple',
              'make_observed_copy(node, net, args_to_tuple) for _uses_observed nodes',
              'the twin of a node that uses observed data does not collect its parents\' twins '
              'into a tuple', fn=oc, node=mk[0] if mk else oc.node)
    ok = any(len(c.args) == 2 and any(pol and contains(t, "_['_observable']")
                                      for (t, pol, _) in ctx.guards(oc, c)) for c in mk)
    ctx.check(ok, oc, 'observable nodes get a twin', 'make_observed_copy(node, net)',
              'observable nodes do not get an observed twin', fn=oc, node=mk[0] if mk else oc.node)
    moc = ctx.fn('elfi.compiler:ObservedCompiler.make_observed_copy')
    exm = ctx.ex(moc)
    adds = ctx.calls(moc, name='add_node')
    ok = False
    for c in adds:
        star = [k for k in c.keywords if k.arg is None]
        if star and c.args and match(exm.term(c.args[0]), pattern('observed_name(node)')) \
                is not None:
            t = exm.term(star[0].value)
            alts = t[1] if t[0] == 'phi' else (t,)
            if any(match(a, pattern('compiled_net.nodes[node].copy()')) is not None for a in alts) \
                    and any(match(a, pattern('dict(operation=operation)')) is not None
                            for a in alts):
                ok = True
    ctx.check(ok, moc, 'twin content',
              'copy of the node\'s compiled dict, or dict(operation=given)',
              'the observed twin is not created from a copy of the node\'s own compiled dict '
              '(or the given operation)', fn=moc, node=adds[0] if adds else moc.node)
    # OutputCompiler: _output -> output, _operation -> operation
    out = ctx.fn('elfi.compiler:OutputCompiler.compile')
    exo = ctx.ex(out)
    pairs = {}
    for (s, t, k) in ctx.stores(out, "_[_]"):
        if k == 'assign' and contains(exo.term(t.value), 'compiled_net.nodes(data=True)'):
            key = exo.term(t.slice)
            v = exo.term(s.value)
            m = match(v, pattern("source_net.nodes[_n]['attr_dict'][_k]"))
            if key[0] == 'const' and m is not None and m['k'][0] == 'const':
                pairs[key[1]] = m['k'][1]
    gok = True
    for (s, t, k) in ctx.stores(out, "_[_]"):
        if k == 'assign' and contains(exo.term(t.value), 'compiled_net.nodes(data=True)'):
            v = exo.term(s.value)
            m = match(v, pattern("source_net.nodes[_n]['attr_dict'][_k]"))
            if m is not None and m['k'][0] == 'const':
                want = pattern("'{}' in source_net.nodes[_n]['attr_dict']".format(m['k'][1]))
                if not any(pol and match(g, want) is not None
                           for (g, pol, _) in ctx.guards(out, s)):
                    gok = False
    ctx.check(gok, out, 'state key copied only when present', "if '_output' in state: ...",
              'a state key is copied under a test of another (or the negated) key', fn=out,
              node=out.node)
    def _pos(r, pat):
        return any(pol and g[0] != 'bool' and match(g, pattern(pat)) is not None
                   for (g, pol, _) in ctx.guards(out, r))
    r_both = any(_pos(r, "'_output' in _") and _pos(r, "'_operation' in _")
                 for r in ctx.stmts(out, ast.Raise))
    ctx.check(r_both, out, 'ambiguous node refused', 'raise when both _output and _operation',
              'a node with both _output and _operation is not refused', fn=out, node=out.node)
    ctx.check(pairs == {'output': '_output', 'operation': '_operation'}, out,
              'state keys map to computation keys',
              "_output -> output, _operation -> operation",
              'state keys are mapped as {}'.format(pairs), fn=out, node=out.node)
    # pipeline order in the client
    comp = ctx.fn('elfi.client:ClientBase.compile')
    order = [callee_qual(ctx, comp, c) for c in ctx.calls(comp, name='compile')]
    want = ['OutputCompiler', 'ObservedCompiler', 'AdditionalNodesCompiler',
            'RandomStateCompiler', 'ReduceCompiler']
    ctx.check(order == want, comp, 'compiler pipeline order', ' -> '.join(order),
              'compilers run in order {} (expected {})'.format(order, want), fn=comp,
              node=comp.node)
    ld = ctx.fn('elfi.client:ClientBase.load_data')
    lorder = [callee_qual(ctx, ld, c) for c in ctx.calls(ld, name='load')]
    ctx.check(sorted(lorder) == sorted(['ObservedLoader', 'AdditionalNodesLoader',
                                        'RandomStateLoader', 'PoolLoader'])
              and lorder[-1] == 'PoolLoader', ld, 'loader pipeline',
              ' -> '.join(lorder),
              'loaders run as {} (all four needed, pool values last so that they override)'
              .format(lorder), fn=ld, node=ld.node)
    cp = [n for n in own_nodes(ld.node) if isinstance(n, ast.Assign) and
          match(ctx.ex(ld).term(n.value), pattern('nx.DiGraph(compiled_net)')) is not None]
    ctx.check(bool(cp), ld, 'compiled net is not modified by loading',
              'loaded_net = nx.DiGraph(compiled_net)',
              'load_data writes batch data into the shared compiled net', fn=ld, node=ld.node)


def callee_qual(ctx, fn, call):
    f = call.func
    if isinstance(f, ast.Attribute) and isinstance(f.value, ast.Name):
        return f.value.id
    return src(f)


# Declared order of positional parents is fixed when the edges are added (= C14-g).
from . import C14 as _C14   # noqa: E402

obligation('C03-i', 'T5 T8', 'positional parents are numbered in declaration order when the graph '
           'is built (shared with C14-g)', floor=4,
           necessary='the executor sorts positional arguments by the index stored on the edge: '
                     'a wrong index is a wrong argument order')(_C14.c14_g)


@obligation('C03-j', 'T6 T11', 'every node whose value is present is cut out of the dependency '
            'graph, unconditionally', floor=2,
            necessary='a supplied node that stays in the dependency graph keeps its ancestors '
                      'reachable: their operations run although nothing requested depends on them')
def c03_j(ctx):
    eo = ctx.fn('elfi.executor:Executor.get_execution_order')
    ex = ctx.ex(eo)
    rm = ctx.calls(eo, name='remove_node')
    if not rm:
        raise AnchorMissing('remove_node on the dependency graph')
    g = cfg_of(eo)
    for c in rm:
        lp = enclosing_loop(c)
        has = False
        extra = []
        for (tn, pol) in g.guards_of(ctx.node(eo, c)):
            if tn.kind != 'test' or lp is None or not _inside(tn.ast, lp):
                continue        # conditions on the whole computation (nothing needed, cache hit)
            t = ex.raw(tn.ast)
            if pol and match(t, pattern("'output' in _")) is not None:
                has = True
            elif (not pol) and isinstance(tn.stmt, ast.If) and tn.stmt.body and \
                    all(isinstance(b, ast.Raise) for b in tn.stmt.body[-1:]):
                continue        # a validation test that raises: not a condition on the removal
            else:
                extra.append(t)
        ctx.check(has and not extra, eo, 'valued node removed under `output present` only',
                  "if 'output' in attr: dep_graph.remove_node(node)",
                  'the removal of a valued node from the dependency graph also depends on {}: '
                  'a supplied node can stay and pull its ancestors into the execution order'
                  .format([show(t)[:50] for t in extra]) if extra else
                  'remove_node is not executed for nodes whose output is present', fn=eo, node=c)
        # it runs for every node of the graph (loop over the sort order / all nodes)
        it = ex.term(lp.iter) if isinstance(lp, ast.For) else None
        ok = it is not None and (contains(it, 'nx_constant_topological_sort(G)') or
                                 match_any(it, ('G.nodes', 'G.nodes()', 'G')) is not None or
                                 contains(it, "_['sort_order']"))
        ctx.check(ok, eo, 'all nodes are visited', 'for node in sort_order',
                  'the pruning loop does not run over all nodes of the graph', fn=eo,
                  node=lp or c)


@obligation('C03-k', 'T2 T11', 'a loader visits every node it is responsible for: its loops are '
            'never left early', floor=3,
            necessary='a loop that stops at the first node it has nothing to do for leaves the '
                      'values of the later nodes unloaded: their operations run although a value '
                      'was supplied')
def c03_k(ctx):
    lm = ctx.repo.module('elfi.loader')
    n = 0
    for c in lm.classes.values():
        ld = c.methods.get('load')
        if ld is None:
            continue
        loops = [l for l in own_nodes(ld.node) if isinstance(l, (ast.For, ast.While))]
        for l in loops:
            n += 1
            early = [s for s in ast.walk(l) if isinstance(s, ast.Break) or
                     (isinstance(s, ast.Return))]
            early = [s for s in early if enclosing_loop(s) is l]
            ctx.check(not early, ld, 'loop over the nodes runs to the end',
                      'only `continue` skips a node',
                      '{}.load leaves its loop early ({}): nodes after the first skipped one '
                      'are not loaded'.format(c.name, type(early[0]).__name__.lower()
                                              if early else ''), fn=ld,
                      node=early[0] if early else l)
    if n < 3:
        ctx.undecided('expected loader loops, found {}'.format(n))


# become() must hand over named parents as well (= C14-h).
@obligation('C03-l', 'T7 T8', 'a node that becomes another takes over all its incoming edges with '
            'their data (shared with C14-h)', floor=2,
            necessary='named parents dropped by become() are not passed to the operation')
def c03_l(ctx):
    from . import C14 as _C14
    return _C14.c14_h(ctx)


@obligation('C03-m', 'T11 T1', 'execute(): a node of the order runs its operation exactly when it '
            'carries one, its value replaces the operation, inconsistent nodes are refused; the '
            'order is the topological order restricted to the execution set and is what is '
            'returned', floor=7,
            necessary='an operation that runs under the negated test never runs (or a supplied '
                      'value is recomputed); an order filtered by the complement runs exactly the '
                      'operations the outputs do not need')
def c03_m(ctx):
    exe = ctx.fn('elfi.executor:Executor.execute')
    ex = ctx.ex(exe)
    cfg = cfg_of(exe)
    loops = [n for n in own_nodes(exe.node) if isinstance(n, ast.For)]
    lo = None
    for n in loops:
        if match(ex.term(n.iter, cfg.by_stmt[id(n)]), pattern('cls.get_execution_order(G)')) \
                is not None and isinstance(n.target, ast.Name):
            lo = n
    ctx.check(lo is not None, exe, 'nodes visited in execution order',
              'for node in cls.get_execution_order(G)',
              'execute does not iterate over the execution order', fn=exe,
              node=loops[0] if loops else exe.node)
    if lo is None:
        return
    runs = [c for c in ast.walk(lo) if isinstance(c, ast.Call) and
            match(ex.term(c), pattern('cls._run(*_)')) is not None]
    if len(runs) != 1:
        ctx.undecided('expected one call of _run in the loop, found {}'.format(len(runs)))
    run = runs[0]
    a = [ex.term(x) for x in run.args]
    nd = a[1] if len(a) == 3 else None
    ok = len(a) == 3 and nd is not None and nd[0] == 'elem' and \
        match(a[0], pattern("G.nodes[_n]['operation']")) is not None and \
        match(a[0], pattern("G.nodes[_n]['operation']"))['n'] == nd and a[2] == ('param', 'G')
    ctx.check(ok, exe, 'the node\'s own operation is run on the graph',
              "cls._run(G.nodes[node]['operation'], node, G)",
              '_run is not given (operation of the node, the node, the graph)', fn=exe, node=run)
    HAS_OP = "'operation' in G.nodes[_n]"
    BOTH = ("{'operation', 'output'} <= G.nodes[_n].keys()",
            "G.nodes[_n].keys() >= {'operation', 'output'}")
    gs = ctx.guards(exe, run)
    ok = any(pol and match(t, pattern(HAS_OP)) is not None for (t, pol, _) in gs)
    inner = set(id(x) for x in ast.walk(lo))
    local = [(ex.term(tn.ast, tn), pol) for (tn, pol) in cfg.guards_of(ctx.node(exe, run))
             if tn.kind == 'test' and id(tn.ast) in inner]
    extra = [t for (t, pol) in local
             if not (pol and match(t, pattern(HAS_OP)) is not None) and
             not ((not pol) and match_any(t, BOTH) is not None)]
    ctx.check(ok and not extra, exe, 'operation runs exactly when the node carries one',
              "if 'operation' in attr: ... _run(...)",
              'the operation is run under another condition than `the node carries an '
              'operation`', fn=exe, node=run)
    # value stored into the node, operation dropped afterwards (runs once)
    st = getattr(run, '_parent', None)
    okv = isinstance(st, ast.Call) and callee_name(st) == 'update' and \
        match(ex.term(st.func.value), pattern('G.nodes[_n]')) is not None and \
        match(ex.term(st.func.value), pattern('G.nodes[_n]'))['n'] == nd
    dels = [n for n in ast.walk(lo) if isinstance(n, ast.Delete) and
            any(match(ex.term(t), pattern("G.nodes[_n]['operation']")) is not None
                for t in n.targets)] + \
           [c for c in ast.walk(lo) if isinstance(c, ast.Call) and callee_name(c) == 'pop' and
            c.args and ex.term(c.args[0]) == ('const', 'operation')]
    okv = okv and len(dels) == 1 and cfg.exists_path(ctx.node(exe, run), ctx.node(exe, dels[0])) \
        and not cfg.exists_path(ctx.node(exe, dels[0]), ctx.node(exe, run),
                                avoiding=[cfg.by_stmt[id(lo)]])
    ctx.check(okv, exe, 'value stored, operation dropped after it ran',
              "G.nodes[node].update(_run(...)); del G.nodes[node]['operation']",
              'the result of the operation is not stored in the node, or the operation is not '
              'removed after it ran', fn=exe, node=st if isinstance(st, ast.Call) else run)
    # refusals
    rs = [r for r in ast.walk(lo) if isinstance(r, ast.Raise) and
          not any(isinstance(h, ast.ExceptHandler) and _inside(r, h) for h in ast.walk(lo))]
    both = [r for r in rs if any(pol and match_any(t, BOTH) is not None
                                 for (t, pol, _) in ctx.guards(exe, r))]
    none = [r for r in rs if any((not pol) and match(t, pattern(HAS_OP)) is not None
                                 for (t, pol, _) in ctx.guards(exe, r)) and
            any((not pol) and match(t, pattern("'output' in G.nodes[_n]")) is not None
                for (t, pol, _) in ctx.guards(exe, r))]
    ctx.check(len(both) == 1 and len(none) == 1 and len(rs) == 2, exe,
              'inconsistent nodes refused', 'raise for (operation and output) / (neither)',
              'a node with both an operation and a value, or with neither, is not refused '
              'exactly in these two cases', fn=exe, node=(rs or [lo])[0])
    # get_execution_order: ordered list = sort order restricted to the execution set, cached
    # under the (needed, given) key, returned
    eo = ctx.fn('elfi.executor:Executor.get_execution_order')
    exo = ctx.ex(eo)
    cfo = cfg_of(eo)
    CACHE = "G.graph.get('_executor_cache', _)"
    st = [s for s in own_nodes(eo.node) if isinstance(s, ast.Assign) and
          isinstance(s.targets[0], ast.Subscript) and
          match(exo.term(s.targets[0].value), pattern(CACHE)) is not None and
          exo.raw(s.targets[0].slice) != ('const', 'sort_order')]
    ok = len(st) == 1
    if ok:
        v = exo.term(st[0].value)
        ok = v[0] == 'comp' and v[1] == 'list' and len(v[3]) == 1 and len(v[3][0][1]) == 1
        if ok:
            it, cond, elt = v[3][0][0], v[3][0][1][0], v[2]
            mm = match(cond, pattern('_n in _s'))
            srt = [s_ for s_ in own_nodes(eo.node) if isinstance(s_, ast.Assign) and
                   match(exo.term(s_.value), pattern('nx_constant_topological_sort(G)'))
                   is not None and isinstance(s_.targets[0], ast.Subscript) and
                   exo.raw(s_.targets[0].slice) == ('const', 'sort_order')]
            ok = mm is not None and mm['n'] == elt and elt[0] == 'elem' and \
                (contains(it, 'nx_constant_topological_sort(G)') or
                 (match(it, pattern("_c['sort_order']")) is not None and len(srt) == 1 and
                  cfo.exists_path(ctx.node(eo, srt[0]), ctx.node(eo, st[0])))) and \
                match(mm['s'], pattern('set(_x)')) is not None
    ctx.check(ok, eo, 'order = topological order restricted to the execution set',
              '[n for n in sort_order if n in nodes_to_execute]',
              'the execution order is not the constant topological order filtered to the nodes '
              'that must run', fn=eo, node=st[0] if st else eo.node)
    if st:
        keyt = exo.term(st[0].targets[0].slice)
        g_ok = any(pol and match(t, pattern('_k not in _c')) is not None and
                   match(t, pattern('_k not in _c'))['k'] == keyt
                   for (t, pol, _) in ctx.guards(eo, st[0])) or \
            any((not pol) and match(t, pattern('_k in _c')) is not None and
                match(t, pattern('_k in _c'))['k'] == keyt
                for (t, pol, _) in ctx.guards(eo, st[0]))
        rr = returns(eo)
        falls = [p for (p, lab) in cfo.ret.pred
                 if not (p.kind == 'stmt' and isinstance(p.ast, ast.Return))]
        r_main = [r for r in rr if match(exo.term(r.value), pattern(CACHE + '[_k]')) is not None
                  and match(exo.term(r.value), pattern(CACHE + '[_k]'))['k'] == keyt]
        r_empty = [r for r in rr if exo.term(r.value) == ('list', ())]
        ok = g_ok and not falls and len(r_main) == 1 and len(r_main) + len(r_empty) == len(rr) \
            and all(any(pol and match_any(t, ('len(_n) == 0', 'not _n')) is not None
                        for (t, pol, _) in ctx.guards(eo, r)) or
                    any((not pol) and t[0] in ('name',) for (t, pol, _) in ctx.guards(eo, r))
                    for r in r_empty)
        ctx.check(ok, eo, 'computed once per key, the entry of this key returned',
                  'if key not in cache: cache[key] = ...; return cache[key]',
                  'the order is not computed when (and only when) its key is missing, or another '
                  'entry than this key\'s is returned', fn=eo, node=r_main[0] if r_main else
                  st[0])


# Frozen guard table for the compilers and loaders: which test decides, and on which side, that
# an instruction node / edge / value is added.  Rows confirmed by reading the code at the pinned
# commit; the statement patterns are over expanded terms, so local renames do not move them.
_C03_GUARDS = [
    ('elfi.compiler:RandomStateCompiler.compile',
     "compiled_net.add_edge('_random_state', _n, param='random_state')",
     [("'_stochastic' in _d['attr_dict']", True)],
     'the generator is wired to exactly the stochastic nodes'),
    ('elfi.compiler:RandomStateCompiler.compile', "compiled_net.add_node('_random_state')",
     [("'_stochastic' in _d['attr_dict']", True), ("compiled_net.has_node('_random_state')", False)],
     'the generator node is created once, when a stochastic node needs it'),
    ('elfi.compiler:AdditionalNodesCompiler.compile', 'compiled_net.add_edge(_i, _n, param=_p)',
     [("_d['attr_dict'].get(_f)", True)],
     'an instruction node is wired to exactly the nodes that declare the instruction'),
    ('elfi.compiler:AdditionalNodesCompiler.compile', 'compiled_net.add_node(_i)',
     [("_d['attr_dict'].get(_f)", True), ('compiled_net.has_node(_i)', False)],
     'an instruction node is created once, when a node declares the instruction'),
    ('elfi.compiler:OutputCompiler.compile', "store:_['output']",
     [("'_output' in _s", True)], 'a constant value is compiled to an output'),
    ('elfi.compiler:OutputCompiler.compile', "store:_['operation']",
     [("'_output' in _s", False), ("'_operation' in _s", True)],
     'an operation is compiled exactly for nodes without a constant value'),
    ('elfi.compiler:ObservedCompiler.make_observed_copy', 'raise:0',
     [('compiled_net.has_node(_o)', True)], 'an observed twin is never created twice'),
    ('elfi.loader:ObservedLoader.load', 'compiled_net.nodes[_o].update(dict(output=_v))',
     [('compiled_net.has_node(_o)', True)],
     'an observation is loaded into the observed twin when the net has one'),
    ('elfi.loader:RandomStateLoader.load', "store:compiled_net.nodes['_random_state'][_]",
     [("compiled_net.has_node('_random_state')", True)],
     'the generator is loaded only when the net has a generator node'),
    ('elfi.loader:PoolLoader.load', "store:compiled_net.nodes[_]['output']",
     [('context.pool is None', False), ('compiled_net.has_node(_n)', True), ('_n in _b', True)],
     'a stored value is loaded exactly for nodes of the net that the stored batch contains'),
    ('elfi.loader:PoolLoader.load', "compiled_net.graph['outputs'].add(_n)",
     [('context.pool is None', False), ('compiled_net.has_node(_n)', True), ('_n in _b', False)],
     'a store without this batch requests the node'),
]


@obligation('C03-n', 'T11', 'compilers and loaders add instruction nodes, edges and values on the '
            'right side of their tests (frozen table of {} rows)'.format(len(_C03_GUARDS)),
            floor=len(_C03_GUARDS),
            necessary='a negated test wires the generator / batch size / meta data to the nodes '
                      'that do not declare them (and not to those that do), or loads stored '
                      'values into the wrong nodes')
def c03_n(ctx):
    from .base import check_guard_table
    check_guard_table(ctx, _C03_GUARDS)


_C03_TWIN = [
    ('elfi.compiler:ObservedCompiler.make_observed_copy', 'compiled_net.nodes[node].copy()',
     [('operation is None', True)],
     'an observed twin takes over the node\'s own instruction only when no operation is given'),
    ('elfi.compiler:ObservedCompiler.make_observed_copy', 'raise:0',
     [('compiled_net.has_node(_o)', True)],
     'an observed twin is never created twice'),
]


@obligation('C03-o', 'T11', 'the batch generator supplied to the stochastic nodes is chosen on the '
            'right side of the seed tests (shared with C02-l), and an observed twin copies the '
            'node\'s own instruction exactly when no replacement operation is given', floor=4,
            necessary='"the batch generator ... supplied exactly to the nodes that declare them": '
                      'with a seed test negated the nodes receive the process-wide generator; a '
                      'discrepancy\'s twin that copies the discrepancy operation instead of the '
                      'tuple builder no longer hands on the observed twins of its parents')
def c03_o(ctx):
    from .base import check_guard_table
    from .C02 import _C02_GUARDS
    check_guard_table(ctx, _C02_GUARDS)
    check_guard_table(ctx, _C03_TWIN)
