"""C20 - BSL: synthetic likelihood arguments and the Metropolis-Hastings step.

Decided: theta / theta-tilde typestate at the transform call sites, agreement of the case
encoding in the three transform helpers, the proposal path, polarity of the MH log-ratio and
the acceptance test, rejection without simulation, argument roles of the likelihood calls,
transform inversion and Jacobian per bound type and the unbiased-estimator formula (exact
rational-function / log-linear normal forms, sa/ratfun.py), whitening convention, scale typestate.
Not decided: the semi-parametric likelihood, the Warton / glasso estimators (library code).
"""

import ast

from .. import AnalysisError, AnchorMissing
from ..cfg import cfg_of
from ..model import own_nodes
from ..values import pattern, match, match_any, find, find_all, contains, show, subterms
from ..domains import polarity, leaf_matcher, POS, NEG, ZERO, BOTH
from .base import obligation, src, callee_name, if_branches, split_if
from .C04 import pattern_term, returns, enclosing_loop, _inside
from .C01 import missing_library_attrs

BSL = 'elfi.methods.inference.bsl:BSL'
BOUND = 'self.logit_transform_bound'


def roles(ctx):
    """Discover the proposal function P, ratio function R and the helpers F, B, J by role."""
    cls = ctx.cls(BSL)
    P = None
    for m in cls.methods.values():
        if ctx.calls(m, 'self.random_state.multivariate_normal(*_)'):
            P = m
    if P is None:
        raise AnchorMissing('no BSL method draws a Gaussian proposal from self.random_state')
    ex = ctx.ex(P)
    F = B = None
    draws = ctx.calls(P, 'self.random_state.multivariate_normal(*_)')
    bcalls = [c for c in ctx.calls(P) if len(c.args) == 2 and
              ex.term(c.args[1]) == pattern_term(BOUND)]
    for c in bcalls:
        tg = ctx.cg.resolve(P, c)
        if not tg:
            continue
        a0 = ex.term(c.args[0])
        if contains(a0, 'self.random_state.multivariate_normal(*_)'):
            B = tg[0]
        else:
            for d in draws:
                if d.args and contains(ex.term(d.args[0]), 'self.' + tg[0].name + '(*_)'):
                    F = tg[0]
    if F is None or B is None:
        raise AnchorMissing('forward / back transform not identified in ' + P.qname)
    R = None
    J = None
    for m in cls.methods.values():
        if m is P:
            continue
        exm = ctx.ex(m)
        for c in ctx.calls(m):
            if len(c.args) == 2 and exm.term(c.args[1]) == pattern_term(BOUND):
                tg = ctx.cg.resolve(m, c)
                if tg and tg[0] not in (F, B) and \
                        any(contains(exm.term(s.value), "self.state['logposterior'][_]")
                            for s in own_nodes(m.node) if isinstance(s, ast.Assign)):
                    R, J = m, tg[0]
    if R is None:
        raise AnchorMissing('no BSL method combines the log posterior with a Jacobian helper')
    return cls, P, R, F, B, J


def theta_like(t):
    """term is a row of the chain state (theta space)."""
    return match(t, pattern("self.state['params'][_]")) is not None


@obligation('C20-a', 'T9', 'transform helpers receive arguments in the space they expect',
            floor=4, necessary='a Jacobian evaluated at theta instead of theta-tilde changes the '
                               'acceptance probability')
def c20_a(ctx):
    cls, P, R, F, B, J = roles(ctx)
    ctx.assume("state['params'] holds untransformed parameters (it feeds the prior and the "
               "simulator)")
    n = 0
    for m in cls.methods.values():
        ex = ctx.ex(m)
        for c in ctx.calls(m):
            tg = ctx.cg.resolve(m, c)
            if not tg or tg[0] not in (F, B, J) or not c.args:
                continue
            a0 = ex.term(c.args[0])
            n += 1
            if tg[0] is F:
                ok = theta_like(a0)
                ctx.check(ok, m, 'forward transform receives theta',
                          '{}({})'.format(F.name, show(a0)[:60]),
                          'the forward transform is applied to {} which is not an untransformed '
                          'chain state'.format(show(a0)[:80]), fn=m, node=c)
            else:
                # expects theta-tilde: F(theta) or a Gaussian step around F(theta)
                fpat = pattern('self.{}(_t, {})'.format(F.name, BOUND))
                inner = a0
                mm = match(inner, pattern('self.random_state.multivariate_normal(_m, *_)'))
                if mm is not None:
                    inner = mm['m']
                fm = match(inner, fpat)
                ok = fm is not None and theta_like(fm['t'])
                what = 'back-transform' if tg[0] is B else 'Jacobian'
                ctx.check(ok, m, '{} receives theta-tilde'.format(what),
                          '{}({})'.format(tg[0].name, show(a0)[:70]),
                          'the {} expects transformed parameters but receives {}{}'.format(
                              what, show(a0)[:80],
                              ' (untransformed chain state)' if theta_like(a0) else ''),
                          fn=m, node=c)
    if n < 4:
        ctx.undecided('expected >= 4 transform call sites, found {}'.format(n))


@obligation('C20-b', 'T8 T13', 'the three transform helpers use one case encoding and handle '
            'the same cases', floor=3,
            necessary='a helper that encodes or omits a bound type differently pairs a '
                      'transform with the wrong Jacobian')
def c20_b(ctx):
    cls, P, R, F, B, J = roles(ctx)
    enc = {}
    cases = {}
    for h in (F, B, J):
        ex = ctx.ex(h)
        cs = set()
        encs = set()
        for n in own_nodes(h.node):
            if isinstance(n, ast.Compare) and len(n.ops) == 1 and isinstance(n.ops[0], ast.Eq):
                t = ex.term(n)
                if t[0] == 'cmp' and t[2][0] == 'const' and isinstance(t[2][1], str):
                    t = ('cmp', t[1], t[3], t[2])
                if t[0] == 'cmp' and t[3][0] == 'const' and isinstance(t[3][1], str):
                    cs.add(t[3][1])
                    # strip the per-parameter index
                    e = t[2]
                    if e[0] == 'sub':
                        e = e[1]
                    encs.add(e)
        cases[h] = cs
        enc[h] = encs
    ref = None
    for h in (F, B, J):
        ok = cases[h] == {'0', '1', '2', '3'}
        ctx.check(ok, h, 'all four bound types handled', sorted(cases[h]),
                  '{} handles bound types {} (expected 0,1,2,3)'.format(h.name,
                                                                        sorted(cases[h])),
                  fn=h, node=h.node)
    encs = [enc[h] for h in (F, B, J)]
    same = all(len(e) == 1 for e in encs) and len(set(next(iter(e)) for e in encs)) == 1
    want = pattern('np.matmul(np.isinf(_b), [1, 2]).astype(str)')
    good = same and match(next(iter(encs[0])), want) is not None and \
        match(next(iter(encs[0])), want)['b'][0] == 'param'
    ctx.check(good, J, 'one encoding of the bound type',
              'isinf(bound) @ [1, 2] as string in all three helpers',
              'the helpers derive the bound type differently: {}'.format(
                  [show(next(iter(e)))[:70] if e else None for e in encs]), fn=J, node=J.node)


@obligation('C20-c', 'T1', 'with bounds the proposal is transform, Gaussian step, '
            'back-transform around the previous state', floor=3,
            necessary='a step taken in the wrong space is not the proposal the ratio corrects '
                      'for')
def c20_c(ctx):
    cls, P, R, F, B, J = roles(ctx)
    ex = ctx.ex(P)
    rr = returns(P)
    if len(rr) != 1:
        ctx.undecided('proposal function has {} returns'.format(len(rr)))
    t = ex.term(rr[0].value)
    prev = "self.state['params'][self.state['n_samples'] - 1]"
    with_b = 'self.{B}(self.random_state.multivariate_normal(self.{F}({prev}, {bd}), ' \
             'self.sigma_proposals), {bd})'.format(B=B.name, F=F.name, prev=prev, bd=BOUND)
    without = 'self.random_state.multivariate_normal({prev}, self.sigma_proposals)'.format(
        prev=prev)
    m = match(t, pattern('np.atleast_2d(_x)'))
    inner = m['x'] if m is not None else t
    alts = inner[1] if inner[0] == 'phi' else (inner,)
    has_b = any(match(a, pattern(with_b)) is not None for a in alts)
    has_p = any(match(a, pattern(without)) is not None for a in alts)
    ctx.check(has_b, P, 'bounded proposal path',
              'B(N(F(previous), sigma))', 'the bounded proposal is {} instead of '
              'back_transform(N(transform(previous state), sigma_proposals))'.format(
                  show(inner)[:160]), fn=P, node=rr[0])
    ctx.check(has_p and len(alts) == 2, P, 'unbounded proposal path', 'N(previous, sigma)',
              'the unbounded proposal is not N(previous state, sigma_proposals)', fn=P,
              node=rr[0])
    # the bounded branch is taken exactly when bounds are given
    sel = [n for n in own_nodes(P.node) if isinstance(n, ast.If)]
    ok = any(if_branches(ex, n, BOUND + ' is not None') is not None and
             any(isinstance(s, ast.Assign) and contains(ex.term(s.value), 'self.' + B.name + '(*_)')
                 for s in if_branches(ex, n, BOUND + ' is not None')[0]) for n in sel)
    ctx.check(ok, P, 'transform used iff bounds given', 'if logit_transform_bound is not None',
              'the transformed proposal is not selected by `logit_transform_bound is not None`',
              fn=P, node=sel[0] if sel else P.node)


@obligation('C20-d', 'T4 T8', 'log-ratio = current - previous (posterior and Jacobian); accept '
            'iff u < min(1, ratio)', floor=5,
            necessary='an inverted ratio or a maximum makes the chain target a different '
                      'distribution')
def c20_d(ctx):
    cls, P, R, F, B, J = roles(ctx)
    ex = ctx.ex(R)
    rr = returns(R)
    if len(rr) != 1:
        ctx.undecided('ratio function has {} returns'.format(len(rr)))
    t = ex.term(rr[0].value)
    m = match(t, pattern('np.exp(_r)'))
    ctx.check(m is not None, R, 'ratio is exp(log-ratio)', 'np.exp(res)',
              'the ratio is {} not exp(log ratio)'.format(show(t)[:80]), fn=R, node=rr[0])
    if m is None:
        return
    res = m['r']
    nterm = pattern_term("self.state['n_samples']")
    cur = leaf_matcher("self.state['logposterior'][self.state['n_samples']]")
    prv = leaf_matcher("self.state['logposterior'][self.state['n_samples'] - 1]")
    jcur = lambda x: x[0] == 'call' and match(x[1], pattern('self.' + J.name)) is not None and \
        contains(x[2][0], "self.state['params'][self.state['n_samples']]")
    jprv = lambda x: x[0] == 'call' and match(x[1], pattern('self.' + J.name)) is not None and \
        contains(x[2][0], "self.state['params'][self.state['n_samples'] - 1]")
    for (name, leaf, want) in (('current log posterior', cur, POS),
                               ('previous log posterior', prv, NEG),
                               ('Jacobian at the current point', jcur, POS),
                               ('Jacobian at the previous point', jprv, NEG)):
        p = polarity(res, leaf)
        ctx.check(p == want, R, name + ' enters with sign ' + want, 'polarity ' + p,
                  'the log-ratio depends on the {} with polarity {} (expected {})'.format(
                      name, p, want), fn=R, node=rr[0])
    # acceptance in the caller
    callers = [f for (f, n) in ctx.cg.callers_of(R)]
    if not callers:
        raise AnchorMissing('ratio function is never called')
    for f in set(callers):
        exf = ctx.ex(f)
        accs = [n for n in own_nodes(f.node) if isinstance(n, ast.Compare)
                and contains(exf.term(n), 'self.' + R.name + '()')]
        if not accs:
            ctx.bad(f, 'acceptance test', 'the ratio is not compared with a uniform draw', fn=f,
                    node=f.node)
        for n in accs:
            tt = exf.term(n)
            ok = tt[0] == 'cmp' and tt[1] == '<' and \
                match(tt[2], pattern('self.random_state.uniform()')) is not None and \
                (match(tt[3], pattern('np.minimum(1.0, self.{}())'.format(R.name))) is not None or
                 match(tt[3], pattern('np.minimum(self.{}(), 1.0)'.format(R.name))) is not None or
                 match(tt[3], pattern('min(1.0, self.{}())'.format(R.name))) is not None or
                 match(tt[3], pattern('np.minimum(1, self.{}())'.format(R.name))) is not None or
                 match(tt[3], pattern('self.{}()'.format(R.name))) is not None)
            ctx.check(ok, f, 'acceptance test', 'u < minimum(1, ratio), u from self.random_state',
                      'acceptance is `{}` - not u < min(1, ratio) with u from the sampler\'s '
                      'generator'.format(show(tt)[:120]), fn=f, node=n)
        # rejected: state restored from the previous step (params, logprior, logposterior)
        for key in ('params', 'logprior', 'logposterior'):
            st = [s for (s, t2, k) in ctx.stores(f, "self.state['{}'][_]".format(key))
                  if isinstance(s, ast.Assign) and match(
                      exf.term(s.value),
                      pattern("self.state['{}'][self.state['n_samples'] - 1]".format(key)))
                  is not None and exf.term(s.targets[0].slice) == nterm]
            g = False
            for s in st:
                for (gt, pol, _) in ctx.guards(f, s):
                    if pol is False and contains(gt, 'self.random_state.uniform()'):
                        g = True
                    if pol is False and gt[0] == 'phi':
                        g = True
            ctx.check(bool(st) and g, f, 'rejected step restores ' + key,
                      "state['{}'][n] = state['{}'][n-1] on rejection".format(key, key),
                      "a rejected candidate does not restore state['{}'] from the previous "
                      'step'.format(key), fn=f, node=st[0] if st else f.node)
        adv = [s for (s, t2, k) in ctx.stores(f, "self.state['n_samples']")
               if isinstance(s, ast.AugAssign) and isinstance(s.op, ast.Add) and
               exf.term(s.value) == ('const', 1)]
        allw = [s for (s, t2, k) in ctx.stores(f, "self.state['n_samples']")]
        if len(allw) != len(adv):
            adv = []
        ok = len(adv) == 1 and cfg_of(f).must_pass([ctx.node(f, adv[0])])
        ctx.check(ok, f, 'chain advances once per round', "state['n_samples'] += 1 on every path",
                  'the sample counter is not advanced exactly once per processed round', fn=f,
                  node=adv[0] if adv else f.node)
    # generator: RandomState(self.seed)
    init = ctx.own_method(cls, '__init__')
    st = [s for (s, t2, k) in ctx.stores(init, 'self.random_state') if isinstance(s, ast.Assign)]
    ok = bool(st) and match(ctx.term(init, st[0].value),
                            pattern('np.random.RandomState(self.seed)')) is not None
    ctx.check(ok, init, 'sampler generator', 'RandomState(self.seed)',
              'the BSL generator is not RandomState(self.seed)', fn=init,
              node=st[0] if st else init.node)


@obligation('C20-e', 'T11', 'proposals outside the prior support are rejected without '
            'simulating', floor=4,
            necessary='otherwise simulations are spent on (or the chain moves to) a point of '
                      'zero prior density')
def c20_e(ctx):
    cls, P, R, F, B, J = roles(ctx)
    callers = [f for (f, n) in ctx.cg.callers_of(P)]
    if not callers:
        raise AnchorMissing('proposal function is never called')
    ir = callers[0]
    ex = ctx.ex(ir)
    # the log prior of the candidate, as computed or with its element selected (C20-p)
    _lp = 'self.prior.logpdf(self.{}())'.format(P.name)
    _fin = tuple('np.isfinite({})'.format(w.format(_lp)) for w in (
        '{}', 'float(np.squeeze({}))', 'np.squeeze({})', 'float({}[0])', '{}[0]',
        '{}.item()', 'float({}.item())', 'float(np.squeeze({})[()])'))
    tests = [n for n in own_nodes(ir.node) if isinstance(n, ast.If) and
             if_branches(ex, n, _fin) is not None]
    if not tests:
        ctx.bad(ir, 'support test', 'the candidate\'s prior log density is not tested with '
                'isfinite before data collection starts', fn=ir, node=ir.node)
        return
    t = tests[0]
    t_body, t_orelse = if_branches(ex, t, _fin)
    # accept branch: start data collection for this candidate
    acc_store = [s for s in t_body if isinstance(s, ast.Assign) and
                 match(ex.term(s.targets[0]), pattern("self.state['params'][_]")) is not None and
                 contains(ex.term(s.value), 'self.{}()'.format(P.name))]
    brk = [s for s in t_body if isinstance(s, ast.Break)]
    reset = [s for s in t_body if isinstance(s, ast.Assign) and
             match(ex.term(s.targets[0]), pattern("self.state['n_sim_round']")) is not None and
             ex.term(s.value) == ('const', 0)]
    ctx.check(bool(acc_store) and bool(brk) and bool(reset), ir,
              'finite prior: candidate stored, collection starts',
              'params[n] = candidate, n_sim_round = 0, leave the loop',
              'the finite-prior branch does not store the candidate and start a data '
              'collection round', fn=ir, node=t)
    lp = [s for s in t_body if isinstance(s, ast.Assign) and
          match(ex.term(s.targets[0]), pattern("self.state['logprior'][_]")) is not None and
          match_any(ex.term(s.value), tuple(w.format(_lp) for w in (
              '{}', 'float(np.squeeze({}))', 'np.squeeze({})', 'float({}[0])', '{}[0]',
              '{}.item()', 'float({}.item())'))) is not None]
    ctx.check(bool(lp), ir, 'candidate log prior recorded', 'logprior[n] = prior.logpdf(candidate)',
              'the log prior of the accepted candidate is not recorded', fn=ir, node=t)
    # reject branch: copy previous, advance, no break
    for key in ('params', 'logprior', 'logposterior'):
        st = [s for s in t_orelse if isinstance(s, ast.Assign) and match(
            ex.term(s.value),
            pattern("self.state['{}'][self.state['n_samples'] - 1]".format(key))) is not None and
            match(ex.term(s.targets[0]),
                  pattern("self.state['{}'][self.state['n_samples']]".format(key))) is not None]
        ctx.check(bool(st), ir, 'rejected candidate copies previous ' + key,
                  "state['{}'][n] = state['{}'][n-1]".format(key, key),
                  "a candidate outside the support does not copy state['{}'] from the previous "
                  'step'.format(key), fn=ir, node=st[0] if st else t)
    adv = [s for s in t_orelse if isinstance(s, ast.AugAssign) and isinstance(s.op, ast.Add) and
           match(ex.term(s.target), pattern("self.state['n_samples']")) is not None and
           ex.term(s.value) == ('const', 1)]
    nobrk = not any(isinstance(s, (ast.Break, ast.Return)) for s in t_orelse)
    ctx.check(len(adv) == 1 and nobrk, ir, 'rejected candidate advances the chain only',
              'n_samples += 1 and another proposal is made',
              'a candidate outside the support does not just advance the chain and continue '
              'proposing', fn=ir, node=adv[0] if adv else t)
    lo = enclosing_loop(t)
    ok = isinstance(lo, ast.While) and match(
        ex.term(lo.test, cfg_of(ir).by_stmt[id(lo)]),
        pattern("self.state['n_samples'] < len(self.state['params'])")) is not None
    ctx.check(ok, ir, 'proposal loop bounded by the chain length',
              "while n_samples < len(params)",
              'the proposal loop is not bounded by the requested chain length', fn=ir,
              node=lo if lo is not None else t)


def _derives_only_from(t, param, forbid):
    ls = set(s for s in subterms(t) if s[0] == 'param')
    return ('param', param) in ls and not any(('param', f) in ls for f in forbid)


@obligation('C20-f', 'T3 T8 T7', 'likelihood = MVN logpdf(observed; mean, cov of the simulated '
            'summaries)', floor=6,
            necessary='swapped roles (or a covariance with variables in rows) evaluate a '
                      'different density')
def c20_f(ctx):
    ctx.fact('scipy.stats.multivariate_normal.logpdf(x, mean, cov); numpy.cov treats rows as '
             'variables unless rowvar=False')
    pm = ctx.repo.module('elfi.methods.bsl.pdf_methods')
    fns = [f for f in pm.functions.values()
           if ctx.calls(f, 'ss.multivariate_normal.logpdf(*_)')]
    if len(fns) < 2:
        ctx.undecided('expected standard and misspecified likelihood, found {}'.format(
            [f.name for f in fns]))
    for f in fns:
        ex = ctx.ex(f)
        sim, obs = f.params[0], f.params[1]
        for c in ctx.calls(f, 'ss.multivariate_normal.logpdf(*_)'):
            kws = dict((k.arg, k.value) for k in c.keywords)
            x = ex.term(c.args[0]) if c.args else (ex.term(kws['x']) if 'x' in kws else None)
            mean = ex.term(kws['mean']) if 'mean' in kws else (
                ex.term(c.args[1]) if len(c.args) > 1 else None)
            cov = ex.term(kws['cov']) if 'cov' in kws else (
                ex.term(c.args[2]) if len(c.args) > 2 else None)
            ok = x is not None and _derives_only_from(x, obs, [sim])
            ctx.check(ok, f, 'x is the observed summary', show(x)[:80] if x else None,
                      'the density is evaluated at {} which is not (only) the observed '
                      'summaries'.format(show(x)[:80] if x else None), fn=f, node=c)
            okm = mean is not None and ('param', sim) in set(subterms(mean)) and \
                ('param', obs) not in set(s for s in subterms(_strip_whitening(mean)))
            okm = okm and (contains(mean, '_.mean(0)') or contains(mean, 'np.mean(_, 0)') or
                           contains(mean, 'np.mean(_, axis=0)') or contains(mean, '_.mean(axis=0)'))
            ctx.check(okm, f, 'mean is the column mean of the simulated summaries',
                      show(mean)[:80] if mean else None,
                      'mean = {} is not the column mean of the simulated summaries'.format(
                          show(mean)[:100] if mean else None), fn=f, node=c)
            okc = cov is not None and ('param', sim) in set(subterms(cov)) and \
                contains(cov, 'np.cov(_, rowvar=False)')
            bad_cov = [s for s in (subterms(cov) if cov else ())
                       if match(s, pattern('np.cov(*_)')) is not None and
                       not (match(s, pattern('np.cov(_, rowvar=False)')) is not None or
                            match(s, pattern('np.cov(np.transpose(_))')) is not None)]
            ctx.check(okc and not bad_cov, f, 'cov is the covariance with observations in rows',
                      'np.cov(simulated, rowvar=False)',
                      'cov = {} is not np.cov(simulated, rowvar=False)'.format(
                          show(cov)[:100] if cov else None), fn=f, node=c)
        # whitening applied to both sides together
        wh = [n for n in own_nodes(f.node) if isinstance(n, ast.If) and
              match(ex.term(n.test), pattern('whitening is not None')) is not None]
        if 'whitening' in f.all_params:
            ok = False
            for n in wh:
                tg = set()
                for s in n.body:
                    if isinstance(s, ast.Assign) and isinstance(s.targets[0], ast.Name) and \
                            contains(ex.term(s.value), 'whitening'):
                        tg.add(s.targets[0].id)
                if {sim, obs} <= tg:
                    ok = True
            ctx.check(ok, f, 'whitening applied to observed and simulated together',
                      'both transformed in one branch',
                      'the whitening matrix is not applied to both the observed and the '
                      'simulated summaries', fn=f, node=wh[0] if wh else f.node)
        if 'adjustment' in f.all_params:
            for (name, tgt, add) in (('mean', 'mean', 'np.sqrt(np.diag(_)) * gamma'),
                                     ('variance', 'cov', 'np.diag((np.sqrt(np.diag(_)) * gamma) ** 2)')):
                ok = False
                for n in own_nodes(f.node):
                    if isinstance(n, ast.If) and match(
                            ex.term(n.test), pattern("adjustment == '{}'".format(name))) is not None:
                        for s in n.body:
                            if isinstance(s, ast.Assign):
                                v = ex.term(s.value)
                                if v[0] == 'binop' and v[1] == '+' and contains(v, add):
                                    base = v[2]
                                    if tgt == 'mean' and contains(base, '_.mean(0)'):
                                        ok = True
                                    if tgt == 'cov' and contains(base, 'np.cov(*_)'):
                                        ok = True
                ctx.check(ok, f, name + ' adjustment', 'sample {} + {}'.format(tgt, add),
                          'the {} adjustment does not add {} to the sample {}'.format(
                              name, add, tgt), fn=f, node=f.node)
    # call order in the sampler: likelihood(simulated, observed)
    cls = ctx.cls(BSL)
    n = 0
    for m in cls.methods.values():
        for c in ctx.calls(m, 'self.likelihood(*_)'):
            n += 1
            a = [ctx.term(m, x) for x in c.args]
            ok = len(a) == 2 and a[0] == pattern_term('self.simulated') and \
                a[1] == pattern_term('self.observed')
            ctx.check(ok, m, 'likelihood(simulated, observed)', 'argument order',
                      'the likelihood is called with {} instead of (simulated, observed)'.format(
                          [show(x)[:30] for x in a]), fn=m, node=c)
    if n < 1:
        ctx.undecided('no likelihood call in BSL')
    # posterior = likelihood + prior
    n_post = 0
    for m in cls.methods.values():
        for (s, t, k) in ctx.stores(m, "self.state['logposterior'][_]"):
            if isinstance(s, ast.Assign) and contains(ctx.term(m, s.value), 'self.likelihood(*_)') \
                    and cfg_of(m).must_pass([ctx.node(m, s)]) and \
                    ctx.term(m, s.targets[0].slice) == pattern_term("self.state['n_samples']"):
                n_post += 1
    ctx.check(n_post >= 1, cls.qname, 'log posterior of the candidate recorded',
              "state['logposterior'][n] = loglik + logprior[n] on every path",
              'the log posterior of the candidate is not recorded on every path before the '
              'acceptance test')
    for m in cls.methods.values():
        for (s, t, k) in ctx.stores(m, "self.state['logposterior'][_]"):
            if isinstance(s, ast.Assign):
                v = ctx.term(m, s.value)
                if contains(v, 'self.likelihood(*_)') or contains(v, 'loglikelihood'):
                    p1 = polarity(v, lambda x: x[0] == 'call' and match(
                        x[1], pattern('self.likelihood')) is not None)
                    p2 = polarity(v, leaf_matcher("self.state['logprior'][_]"))
                    ctx.check(p1 == POS and p2 == POS, m, 'log posterior = log lik + log prior',
                              'both enter positively',
                              'log posterior combines likelihood ({}) and prior ({}) with wrong '
                              'signs'.format(p1, p2), fn=m, node=s)


def _strip_whitening(t):
    return t


@obligation('C20-g', 'T12', 'library attributes referenced by the BSL step exist', floor=8,
            necessary='a removed numpy alias raises AttributeError on the branch that uses it')
def c20_g(ctx):
    cls = ctx.cls(BSL)
    fs = list(cls.methods.values())
    mb = ctx.cls('elfi.methods.inference.parameter_inference:ModelBased')
    fs += list(mb.methods.values())
    pm = ctx.repo.module('elfi.methods.bsl.pdf_methods')
    for name in ('gaussian_syn_likelihood', 'gaussian_syn_likelihood_ghurye_olkin',
                 'syn_likelihood_misspec', 'wcon'):
        if name in pm.functions:
            fs.append(pm.functions[name])
    for f in fs:
        miss = missing_library_attrs(ctx, f)
        if miss:
            for (node, d) in miss:
                ctx.bad(f, 'missing library attribute',
                        '`{}` does not exist in the installed library'.format(d), fn=f, node=node)
        else:
            ctx.ok(f, 'library attributes resolve', '', fn=f, node=f.node)


@obligation('C20-h', 'T5 T7 T1', 'a round collects exactly n_sim_round simulations at the current '
            'parameters before the likelihood is evaluated', floor=6,
            necessary='rows written to the wrong slice, or a round processed early / late, '
                      'estimate the likelihood from other simulations than those of the candidate')
def c20_h(ctx):
    mb = ctx.cls('elfi.methods.inference.parameter_inference:ModelBased')
    up = ctx.own_method(mb, 'update')
    ex = ctx.ex(up)
    mergers = [f for f in ctx.reachable([up], depth=1, may=False) if f.cls is mb and
               ctx.stores(f, 'self.simulated[_]')]
    if not mergers:
        raise AnchorMissing('no function reachable from ModelBased.update fills self.simulated')
    mg = mergers[0]
    exm = ctx.ex(mg)
    st = [(s, t) for (s, t, k) in ctx.stores(mg, 'self.simulated[_]') if isinstance(s, ast.Assign)]
    s, t = st[0]
    sl = exm.term(t.slice)
    N = pattern_term("self.state['n_sim_round']")
    ok = sl == ('slice', N, ('binop', '+', N, pattern_term('self.batch_size')), ('const', None))
    ctx.check(ok, mg, 'batch rows written after the rows collected so far',
              'simulated[n : n + batch_size] = batch rows',
              'the batch is written to {} instead of [n_sim_round : n_sim_round + batch_size]'
              .format(show(sl)[:80]), fn=mg, node=s)
    v = exm.term(s.value)
    ok = match(v, pattern('batch_to_arr2d(batch, self.feature_names)')) is not None
    ctx.check(ok, mg, 'rows are the features of the consumed batch',
              'batch_to_arr2d(batch, feature_names)',
              'the stored rows are {}'.format(show(v)[:80]), fn=mg, node=s)
    inc = [x for (x, t2, k) in ctx.stores(mg, "self.state['n_sim_round']")]
    ok = len(inc) == 1 and isinstance(inc[0], ast.AugAssign) and isinstance(inc[0].op, ast.Add) and \
        exm.term(inc[0].value) == pattern_term('self.batch_size') and \
        ctx.must_precede(mg, [s], inc[0])
    ctx.check(ok, mg, 'row counter advances by batch_size after the rows are stored',
              "state['n_sim_round'] += batch_size", 'the row counter is not advanced by batch_size '
              'after the rows were written', fn=mg, node=inc[0] if inc else mg.node)
    # round processed exactly when full
    ps = ctx.calls(up, 'self._process_simulated()')
    ok = len(ps) == 1 and ctx.only_guarded_by(
        up, ps[0], ("self.state['n_sim_round'] == self.n_sim_round",), at_most=1) and \
        bool(ctx.guard_groups(up, ps[0]))
    mc = [c for c in ctx.calls(up) if mg in ctx.cg.resolve(up, c)]
    ok = ok and bool(mc) and ctx.must_precede(up, mc, ps[0]) and \
        cfg_of(up).must_pass([ctx.node(up, c) for c in mc])
    ctx.check(ok, up, 'likelihood step exactly when the round is complete',
              'merge; if n_sim_round == self.n_sim_round: _process_simulated()',
              'the collected simulations are not processed exactly when n_sim_round simulations '
              'were merged', fn=up, node=ps[0] if ps else up.node)
    rd = [x for (x, t2, k) in ctx.stores(up, "self.state['round']")]
    ir = ctx.calls(up, 'self._init_round()')
    ok = len(rd) == 1 and bool(ps) and ctx.must_precede(up, ps, rd[0]) and bool(ir) and \
        all(ctx.must_precede(up, rd, c) for c in ir) and \
        all(any(pol and match(t2, pattern("self.state['round'] < self.objective['round']"))
                is not None for (t2, pol, _) in ctx.guards(up, c)) for c in ir)
    ctx.check(ok, up, 'next round prepared after the likelihood step',
              "process; round += 1; if round < objective: _init_round()",
              'the next round is not initialised after the round counter advanced (and only '
              'while rounds remain)', fn=up, node=ir[0] if ir else up.node)
    base_ir = ctx.own_method(mb, '_init_round')
    z = [x for (x, t2, k) in ctx.stores(base_ir, "self.state['n_sim_round']")
         if isinstance(x, ast.Assign) and ctx.term(base_ir, x.value) == ('const', 0)]
    ctx.check(bool(z), base_ir, 'row counter restarts with a round', "state['n_sim_round'] = 0",
              'a new round does not restart the row counter', fn=base_ir,
              node=z[0] if z else base_ir.node)
    # simulations of a round use the candidate, repeated batch_size times
    pn = ctx.own_method(mb, 'prepare_new_batch')
    exp_ = ctx.ex(pn)
    rr = returns(pn)
    ok = bool(rr) and match(
        exp_.term(rr[-1].value),
        pattern('arr2d_to_batch(np.repeat(np.atleast_2d(self.current_params), self.batch_size, '
                'axis=0), self.parameter_names)')) is not None
    ctx.check(ok, pn, 'every simulation of the round uses the candidate',
              'repeat(current_params, batch_size) named by parameter_names',
              'the batch parameters are not the candidate repeated batch_size times in '
              'parameter_names order', fn=pn, node=rr[-1] if rr else pn.node)
    bsl = ctx.cls(BSL)
    cp = bsl.methods.get('current_params')
    if cp is not None:
        ctx.touch(cp)
        rr = returns(cp)
        ok = len(rr) == 1 and match(ctx.term(cp, rr[0].value),
                                    pattern("self.state['params'][self.state['n_samples']]")) \
            is not None
        ctx.check(ok, cp, 'candidate = row n_samples of the chain',
                  "state['params'][state['n_samples']]",
                  'current_params is not the row that the proposal was written to', fn=cp,
                  node=rr[0] if rr else cp.node)
    so = ctx.own_method(mb, 'set_objective')
    exso = ctx.ex(so)
    st2 = [x for (x, t2, k) in ctx.stores(so, "self.objective['n_batches']")
           if isinstance(x, ast.Assign)]
    ok = bool(st2) and match(exso.term(st2[0].value),
                             pattern('rounds * int(self.n_sim_round / self.batch_size)')) \
        is not None
    ctx.check(ok, so, 'batches = rounds x batches per round',
              'rounds * int(n_sim_round / batch_size)',
              'the batch objective is not rounds * (n_sim_round / batch_size)', fn=so,
              node=st2[0] if st2 else so.node)


@obligation('C20-i', 'T9 T8', 'the whitening matrix acts on observed vectors, simulated rows and '
            'covariances under one convention (W v, X W^T, W C W^T)', floor=5,
            necessary='if the observed vector is mapped by W but the simulated rows by W^T the '
                      'density is evaluated in a coordinate system other than the one the sample '
                      'moments are in (any non-symmetric W)')
def c20_i(ctx):
    ctx.fact('numpy.matmul(W, v) maps a column vector by W; rows x_i of X are mapped by W through '
             'matmul(X, transpose(W)); a covariance through matmul(matmul(W, C), transpose(W))')
    WS = (('param', 'whitening'), ('name', 'whitening'))
    WT = [pattern('np.transpose(whitening)'), pattern('whitening.T')]

    class _W(object):
        def __eq__(self, other):
            return other in WS
        __hash__ = None
    W = _W()

    def is_wt(t):
        return any(match(t, p) is not None for p in WT)
    mods = [m for m in ctx.repo.modules.values() if m.name.startswith('elfi.methods.bsl.')]
    n_sites = 0
    for m in mods:
        for f in m.functions.values():
            if 'whitening' not in f.all_params:
                continue
            ex = ctx.ex(f)
            for n in own_nodes(f.node):
                a = None
                if isinstance(n, ast.Call) and match(ex.raw(n.func), pattern('np.matmul')) \
                        is not None and len(n.args) == 2:
                    a = [ex.raw(n.args[0]), ex.raw(n.args[1])]
                elif isinstance(n, ast.Call) and match(ex.raw(n.func), pattern('np.dot')) \
                        is not None and len(n.args) == 2:
                    a = [ex.raw(n.args[0]), ex.raw(n.args[1])]
                elif isinstance(n, ast.BinOp) and isinstance(n.op, ast.MatMult):
                    a = [ex.raw(n.left), ex.raw(n.right)]
                elif isinstance(n, ast.Call) and isinstance(n.func, ast.Attribute) and \
                        n.func.attr == 'dot' and len(n.args) == 1:
                    a = [ex.raw(n.func.value), ex.raw(n.args[0])]
                if a is None:
                    continue
                if not (W == a[0] or W == a[1] or is_wt(a[0]) or is_wt(a[1])):
                    continue
                n_sites += 1
                left_ok = W == a[0] and not (W == a[1] or is_wt(a[1]))      # W v / W C
                right_ok = is_wt(a[1]) and not (W == a[0] or is_wt(a[0]))   # X W^T / (W C) W^T
                ctx.check(left_ok or right_ok, f, 'whitening convention at a matrix product',
                          'W on the left, or W^T on the right',
                          'matrix product {} @ {} applies the whitening matrix under the '
                          'transposed convention (W on the right untransposed, or W^T on the '
                          'left): observed and simulated summaries end up in different '
                          'coordinates'.format(show(a[0])[:40], show(a[1])[:40]), fn=f, node=n)
    if n_sites < 4:
        ctx.undecided('expected at least 4 whitening products in elfi.methods.bsl, found {}'
                      .format(n_sites))


def _case_values(ctx, h):
    """{case string: value term stored into the result array under `type == case`}."""
    ex = ctx.ex(h)
    out = {}
    for n in own_nodes(h.node):
        if not isinstance(n, ast.If):
            continue
        t = ex.term(n.test)
        if t[0] != 'cmp' or t[1] != '==':
            continue
        case = None
        for side in (t[2], t[3]):
            if side[0] == 'const' and isinstance(side[1], str):
                case = side[1]
        if case is None:
            continue
        stores = [s for s in n.body if isinstance(s, ast.Assign) and
                  isinstance(s.targets[0], ast.Subscript)]
        if len(stores) != 1:
            continue
        out[case] = (stores[0], ex.term(stores[0].value))
    return out


def _leaf_of(h):
    """Classify array-element leaves of a transform helper: 'v' = element of the first parameter,
    'a' / 'b' = lower / upper bound of the same row."""
    p0, pb = h.params[0], h.params[1]

    def leaf(t):
        if t[0] != 'sub':
            return None
        base, idx = t[1], t[2]
        if base == ('param', pb) and idx[0] == 'tuple' and len(idx[1]) == 2 and \
                idx[1][0][0] == 'elem' and idx[1][1][0] == 'const':
            return {0: 'a', 1: 'b'}.get(idx[1][1][1])
        if idx[0] == 'elem' and ('param', p0) in set(subterms(base)) and \
                ('param', pb) not in set(subterms(base)):
            return 'v'
        return None
    return leaf


@obligation('C20-j', 'T14', 'per bound type: back-transform inverts the transform, and the '
            'log-Jacobian is log |d theta / d theta-tilde| of the back-transform', floor=8,
            necessary='the acceptance probability uses exp(logJ(proposed) - logJ(current)); with a '
                      'log-Jacobian that is not the derivative of the back-transform the chain '
                      'targets a different density for that bound type')
def c20_j(ctx):
    from .. import ratfun as rf
    rf.selfcheck()
    ctx.fact('formulas are normalised to quotients of polynomials in u = exp(theta-tilde), a, b '
             'over Q; equality is decided by coefficient comparison; d/dy = u d/du')
    cls, P, R, F, B, J = roles(ctx)
    cf, cb, cj = _case_values(ctx, F), _case_values(ctx, B), _case_values(ctx, J)
    cases = sorted(set(cf) & set(cb) & set(cj))
    if len(cases) < 4:
        ctx.undecided('fewer than four common bound-type cases in the transform helpers: {}'
                      .format(cases))
    lf, lb, lj = _leaf_of(F), _leaf_of(B), _leaf_of(J)
    x = rf.Rat.sym('v')
    for k in cases:
        (sf, tf), (sb, tb), (sj, tj) = cf[k], cb[k], cj[k]
        try:
            f_id = lf(tf) == 'v'
            b_id = lb(tb) == 'v'
            E = None if f_id else rf.exp_of(tf, lf, None)      # e^{y} as a function of x
            Bk = None if b_id else rf.to_rat(tb, lb, 'v')      # x as a function of u = e^{y}
            Jk = rf.exp_of(tj, lj, 'v')                        # e^{logJ} as a function of u
        except rf.Unsupported as e:
            ctx.undecided('bound type {}: formula outside the rational fragment ({})'.format(k, e))
        # (1) inversion
        if f_id or b_id:
            ok = f_id and b_id
        else:
            ok = Bk.subst('u', E).same(x)
        ctx.check(ok, B, 'back-transform inverts the transform (type {})'.format(k),
                  'B(F(x)) = x as rational functions',
                  'for bound type {} the back-transform {} applied to the transform {} is not the '
                  'identity'.format(k, src(sb.value), src(sf.value)), fn=B, node=sb)
        # (2) Jacobian
        if b_id:
            want = rf.Rat.const(1)
        else:
            want = rf.Rat.sym('u') * Bk.diff('u')
        okj = Jk.same(want) or Jk.same(-want)
        ctx.check(okj, J, 'log-Jacobian = log |dx/dy| of the back-transform (type {})'.format(k),
                  'exp(logJ) = u * dB/du',
                  'for bound type {} the log-Jacobian `{}` is not the log-derivative of the '
                  'back-transform `{}` (exp(logJ) = {}, d theta/d theta-tilde = {})'.format(
                      k, src(sj.value), src(sb.value), Jk, want), fn=J, node=sj)
    # the case results are summed into one log-Jacobian
    exj = ctx.ex(J)
    rets = returns(J)
    ok = bool(rets) and all(contains(exj.term(r.value), 'np.sum(_)') or
                            contains(exj.term(r.value), '_.sum()') for r in rets)
    ctx.check(ok, J, 'log-Jacobian of the vector = sum over parameters', 'np.sum(logJ)',
              'the per-parameter log-Jacobians are not summed', fn=J, node=rets[0] if rets else
              J.node)


def _strip_calls(t, names, methods=()):
    """Strip shape-only wrappers: np.atleast_2d(x), x.reshape(..), np.squeeze(x) ..."""
    while True:
        if t[0] == 'call' and t[1][0] == 'global' and t[1][1] in names and t[2]:
            t = t[2][0]
            continue
        if t[0] == 'call' and t[1][0] == 'attr' and t[1][2] in methods:
            t = t[1][1]
            continue
        return t


_SHAPE_ONLY = ('numpy.atleast_2d', 'numpy.atleast_1d', 'numpy.squeeze', 'numpy.asarray',
               'numpy.array')
_PD_TESTS = ('numpy.linalg.cholesky', 'scipy.linalg.cholesky', 'scipy.linalg.cho_factor',
             'numpy.linalg.eigvalsh', 'numpy.linalg.eigvals', 'numpy.linalg.eigh',
             'numpy.linalg.eig')


@obligation('C20-k', 'T14 T3 T8', 'unbiased (Ghurye-Olkin) estimator: published coefficients, '
            'psi = (n-1) S - (y-m)(y-m)^T / (1-1/n), zero unless psi is positive definite; '
            'covariances are 2-d for a single summary', floor=12,
            necessary='any other coefficient is a different (biased) estimator; without the '
                      'positive-definiteness test an observation far from the simulated mean '
                      'gets a finite likelihood instead of zero')
def c20_k(ctx):
    from .. import ratfun as rf
    ctx.fact('Price, Drovandi, Lee, Nott (2018) eq. for the unbiased estimator: log p = -d/2 '
             'log 2pi + log c(d,n-2) - log c(d,n-1) - d/2 log(1-1/n) - (n-d-2)/2 log|(n-1)S| + '
             '(n-d-3)/2 log psi(M - (y-m)(y-m)^T/(1-1/n)); |(n-1) S| = (n-1)^d |S|')
    pm = ctx.repo.module('elfi.methods.bsl.pdf_methods')
    wc = [f for f in pm.functions.values()
          if any(isinstance(n, ast.Call) and match(ctx.ex(f).raw(n.func), pattern(
              'scipy.special.loggamma')) is not None for n in own_nodes(f.node))]
    if len(wc) != 1:
        raise AnchorMissing('the log c(k, nu) helper (loggamma) in pdf_methods')
    wcon = wc[0]
    gos = [f for f in pm.functions.values() if f is not wcon and
           any(wcon in ctx.cg.resolve(f, c) for c in ctx.calls(f))]
    if len(gos) != 1:
        raise AnchorMissing('the unbiased likelihood (caller of {})'.format(wcon.name))
    go = gos[0]
    ex = ctx.ex(go)
    sim, obs = go.params[0], go.params[1]
    P_SIM, P_OBS = ('param', sim), ('param', obs)
    wq = 'elfi.methods.bsl.pdf_methods.' + wcon.name

    def leaf(t):
        if t[0] == 'item' and t[1] == ('attr', P_SIM, 'shape') and t[2] in (0, 1):
            return 'nd'[t[2]]
        if t in (('global', 'math.pi'), ('global', 'numpy.pi')):
            return 'pi'
        return None

    def atom(t):
        try:
            if t[0] == 'call' and t[1][0] == 'global' and t[1][1] in ('math.log', 'numpy.log') \
                    and len(t[2]) == 1:
                return ('log', rf.to_rat(t[2][0], leaf))
            if t[0] == 'call' and t[1] == ('global', wq) and len(t[2]) == 2 and not t[3]:
                return ('wcon', rf.to_rat(t[2][0], leaf), rf.to_rat(t[2][1], leaf))
        except rf.Unsupported:
            return None
        if t[0] == 'item' and t[2] == 1 and t[1][0] == 'call' and \
                t[1][1] == ('global', 'numpy.linalg.slogdet') and len(t[1][2]) == 1:
            m = t[1][2][0]
            return ('logdet', 'psi' if P_OBS in set(subterms(m)) else 'sigma', m)
        return None

    def same_key(a, b):
        if a[0] != b[0]:
            return False
        if a[0] == 'logdet':
            return a[1] == b[1]
        return all(x.same(y) for x, y in zip(a[1:], b[1:]))

    # the value returned on the normal path
    vals = []
    for n in own_nodes(go.node):
        if isinstance(n, ast.Assign) and isinstance(n.targets[0], ast.Name):
            t = ex.term(n.value)
            if any(s[0] == 'call' and s[1] == ('global', wq) for s in subterms(t)):
                vals.append((n, t))
    # the smallest assigned value that holds both constants and both log-determinants
    def complete(t):
        st = list(subterms(t))
        return sum(1 for s_ in st if s_[0] == 'call' and s_[1] == ('global', wq)) >= 2 and \
            sum(1 for s_ in st if s_[0] == 'call' and
                s_[1] == ('global', 'numpy.linalg.slogdet')) >= 2
    vals = [v for v in vals if complete(v[1])]
    vals.sort(key=lambda x: len(repr(x[1])))
    if not vals:
        raise AnchorMissing('log-likelihood expression of the unbiased estimator')
    stmt, T = vals[0]
    try:
        lf = rf.to_linform(T, leaf, atom, same_key)
    except rf.Unsupported as e:
        ctx.undecided('unbiased estimator outside the log-linear fragment: {}'.format(e))
    n_, d_, one, half = rf.Rat.sym('n'), rf.Rat.sym('d'), rf.Rat.const(1), \
        rf.Rat.const(rf.Fraction(1, 2))
    two, three = rf.Rat.const(2), rf.Rat.const(3)
    expected = [
        ('log 2 pi', ('log', two * rf.Rat.sym('pi')), -(d_ * half)),
        ('log c(d, n-2)', ('wcon', d_, n_ - two), one),
        ('log c(d, n-1)', ('wcon', d_, n_ - one), -one),
        ('log(1 - 1/n)', ('log', one - one / n_), -(d_ * half)),
        ('log(n - 1)', ('log', n_ - one), -(d_ * (n_ - d_ - two) * half)),
        ('log |S|', ('logdet', 'sigma', None), -((n_ - d_ - two) * half)),
        ('log |psi|', ('logdet', 'psi', None), (n_ - d_ - three) * half),
    ]
    for (label, key, want) in expected:
        got = lf.coeff(key, same_key)
        ctx.check(got.same(want), go, 'coefficient of ' + label, str(want),
                  'in the unbiased estimator the coefficient of {} is {} instead of {}'.format(
                      label, got, want), fn=go, node=stmt)
    extra = [(k, v) for (k, v) in lf.nonzero()
             if not any(k is not None and same_key(k, key) for (_, key, _) in expected)]
    ctx.check(not extra, go, 'no further terms', '',
              'the unbiased estimator has extra terms: {}'.format(
                  [(k if k is None else k[:2], v) for (k, v) in extra][:3]), fn=go, node=stmt)
    # S and psi
    keys = dict((k[1], k[2]) for (k, _) in lf.items if k is not None and k[0] == 'logdet')
    S = keys.get('sigma')
    PSI = keys.get('psi')
    if S is None or PSI is None:
        return
    S0 = _strip_calls(S, _SHAPE_ONLY)
    okS = match_cov_rows(S0, P_SIM)
    ctx.check(okS, go, 'S is the covariance with observations in rows', show(S0)[:60],
              'S = {} is not the covariance of the simulated summaries with observations in '
              'rows'.format(show(S0)[:80]), fn=go, node=stmt)
    ctx.check(S != S0 and S[1] == ('global', 'numpy.atleast_2d'), go,
              'S is 2-d for a single summary', 'np.atleast_2d(np.cov(..))',
              'np.cov of a single summary is 0-d: slogdet raises LinAlgError and the estimator '
              'is -inf for every parameter', fn=go, node=stmt)

    def mleaf(t):
        if t == S or t == S0:
            return 'S'
        if t[0] == 'call' and t[1] in (('global', 'numpy.matmul'), ('global', 'numpy.dot')) and \
                len(t[2]) == 2:
            a, b = t[2]
            bt = b[2][0] if (b[0] == 'call' and b[1] == ('global', 'numpy.transpose') and
                             b[2]) else None
            if bt is not None and bt == a and _is_centred(a):
                return 'O'
        if t[0] == 'call' and t[1] == ('global', 'numpy.outer') and len(t[2]) == 2 and \
                t[2][0] == t[2][1] and _is_centred(t[2][0]):
            return 'O'
        return leaf(t)

    def _is_centred(v):
        if v[0] != 'binop' or v[1] != '-':
            return False
        y = _strip_calls(v[2], _SHAPE_ONLY, ('reshape', 'flatten', 'ravel'))
        m = _strip_calls(v[3], _SHAPE_ONLY, ('reshape', 'flatten', 'ravel'))
        return y == P_OBS and (
            match(m, pattern('np.mean({}, 0)'.format(sim))) is not None or
            match(m, pattern('np.mean({}, axis=0)'.format(sim))) is not None or
            match(m, pattern('{}.mean(0)'.format(sim))) is not None or
            match(m, pattern('{}.mean(axis=0)'.format(sim))) is not None)

    def desub(t):
        if t[0] == 'call' and t[1] == ('global', 'numpy.subtract') and len(t[2]) == 2:
            return ('binop', '-', desub(t[2][0]), desub(t[2][1]))
        if t[0] == 'call' and t[1] == ('global', 'numpy.add') and len(t[2]) == 2:
            return ('binop', '+', desub(t[2][0]), desub(t[2][1]))
        return t
    try:
        R = rf.to_rat(desub(PSI), mleaf)
        want = (n_ - one) * rf.Rat.sym('S') - rf.Rat.sym('O') / (one - one / n_)
        okP = R.same(want)
    except rf.Unsupported as e:
        ctx.undecided('psi outside the rational fragment: {}'.format(e))
    ctx.check(okP, go, 'psi = (n-1) S - (y-m)(y-m)^T / (1 - 1/n)', str(want),
              'psi is {} instead of (n-1) S - (y-m)(y-m)^T / (1-1/n)'.format(R), fn=go,
              node=stmt)
    # positive-definiteness of psi established: factorisation in a try whose handler yields
    # -inf, or an eigenvalue test, or (necessary only) the sign of slogdet consulted
    pd = []
    for c in ctx.calls(go):
        f_t = ex.raw(c.func)
        if f_t[0] == 'global' and f_t[1] in _PD_TESTS and c.args and ex.term(c.args[0]) == PSI:
            pd.append(c)
    sign_used = False
    for n in own_nodes(go.node):
        if isinstance(n, ast.Assign) and isinstance(n.targets[0], ast.Tuple) and \
                isinstance(n.value, ast.Call) and \
                ex.raw(n.value.func) == ('global', 'numpy.linalg.slogdet') and \
                ex.term(n.value.args[0]) == PSI:
            s0 = n.targets[0].elts[0]
            if isinstance(s0, ast.Name) and s0.id != '_':
                uses = [m for m in own_nodes(go.node) if isinstance(m, ast.Name) and
                        m.id == s0.id and isinstance(m.ctx, ast.Load)]
                sign_used = bool(uses)
    ok = False
    why = 'no positive-definiteness test of psi'
    for c in pd:
        name = ex.raw(c.func)[1]
        if 'chol' in name or 'cho_factor' in name:
            # must sit in a try body whose LinAlgError handler leads to -inf
            tr = [t for t in own_nodes(go.node) if isinstance(t, ast.Try) and
                  any(_inside(c, b) for b in t.body)]
            for t in tr:
                for h in t.handlers:
                    ht = ex.raw(h.type) if h.type is not None else None
                    catches = ht is None or ht in (('global', 'numpy.linalg.LinAlgError'),
                                                   ('global', 'builtins.Exception'),
                                                   ('name', 'Exception')) or \
                        (ht[0] == 'tuple' and ('global', 'numpy.linalg.LinAlgError') in ht[1])
                    neg_inf = any(isinstance(s, ast.Assign) and
                                  polarity(ex.raw(s.value), lambda x: x in (
                                      ('global', 'math.inf'), ('global', 'numpy.inf'))) == NEG
                                  for s in ast.walk(h) if isinstance(s, ast.Assign))
                    if catches and neg_inf:
                        ok = True
            if not ok:
                why = 'the factorisation of psi is not in a try whose LinAlgError handler ' \
                      'returns -inf'
        else:
            ok = True
    if not ok and sign_used:
        ok = True   # necessary part only: the sign is consulted
    ctx.check(ok, go, 'psi(.) = 0 unless positive definite', 'cholesky in try -> -inf, or '
              'eigenvalue test', 'the estimator takes log|det psi| with ' + why +
              ': an indefinite psi (observation far from the simulated mean) gets a finite '
              'log-likelihood instead of -inf', fn=go, node=stmt)
    # c(k, nu)
    exw = ctx.ex(wcon)
    k_p, nu_p = wcon.params[0], wcon.params[1]

    def wleaf(t):
        if t == ('param', k_p):
            return 'k'
        if t == ('param', nu_p):
            return 'nu'
        return None

    def watom(t):
        if t[0] == 'call' and t[1][0] == 'global' and t[1][1] in ('math.log', 'numpy.log') and \
                len(t[2]) == 1:
            a = t[2][0]
            if a in (('global', 'math.pi'), ('global', 'numpy.pi')):
                return ('logpi',)
            if a == ('const', 2):
                return ('log2',)
        if t[0] == 'call' and t[1] == ('global', 'numpy.sum') and len(t[2]) == 1 and \
                t[2][0][0] == 'call' and t[2][0][1] == ('global', 'scipy.special.loggamma'):
            return ('lgsum', t[2][0][2][0])
        return None

    def wsame(a, b):
        return a[0] == b[0]
    rr = returns(wcon)
    if len(rr) != 1:
        ctx.undecided('c(k, nu) helper with {} returns'.format(len(rr)))
    try:
        wl = rf.to_linform(exw.term(rr[0].value), wleaf, watom, wsame)
    except rf.Unsupported as e:
        ctx.undecided('c(k, nu) outside the log-linear fragment: {}'.format(e))
    k_, nu_ = rf.Rat.sym('k'), rf.Rat.sym('nu')
    four = rf.Rat.const(4)
    for (label, key, want) in (('log 2', ('log2',), -(k_ * nu_) / two),
                               ('log pi', ('logpi',), -(k_ * (k_ - one)) / four),
                               ('sum of log-gammas', ('lgsum', None), -one)):
        got = wl.coeff(key, wsame)
        ctx.check(got.same(want), wcon, 'log c(k, nu): coefficient of ' + label, str(want),
                  'in log c(k, nu) the coefficient of {} is {} instead of {}'.format(
                      label, got, want), fn=wcon, node=rr[0])
    lg = [k for (k, v) in wl.items if k is not None and k[0] == 'lgsum']
    ok = False
    if lg:
        comp = lg[0][1]
        if comp[0] == 'comp':
            body, gens = comp[2], comp[3]
            rng = gens[0][0] if gens else None
            try:
                el = rf.to_rat(body, lambda t: 'i' if t[0] == 'elem' else wleaf(t))
                ok = el.same((nu_ - rf.Rat.sym('i')) * half) and \
                    rng == ('call', ('global', 'range'), (('param', k_p),), ())
            except rf.Unsupported:
                ok = False
    ctx.check(ok, wcon, 'log-gamma arguments', '(nu - i)/2 for i in range(k)',
              'the log-gamma arguments are not (nu - i)/2 for i = 0..k-1', fn=wcon, node=rr[0])
    # sibling rule: every likelihood that feeds np.cov(simulated) to a matrix routine keeps it 2-d
    consumers = ('numpy.linalg.slogdet', 'numpy.diag', 'numpy.linalg.cholesky',
                 'numpy.linalg.inv', 'numpy.linalg.det')
    for f in pm.functions.values():
        if not (ctx.calls(f, 'ss.multivariate_normal.logpdf(*_)') or f is go):
            continue
        exf = ctx.ex(f)
        p_sim = ('param', f.params[0])
        for c in ctx.calls(f):
            ft = exf.raw(c.func)
            args = []
            if ft[0] == 'global' and ft[1] in consumers and c.args:
                args.append(c.args[0])
            if match(ft, pattern('ss.multivariate_normal.logpdf')) is not None:
                args += [k.value for k in c.keywords if k.arg == 'cov']
                if len(c.args) > 2:
                    args.append(c.args[2])
            for a in args:
                t = exf.term(a)
                bare = _bare_cov(t, p_sim)
                if bare is None:
                    continue
                ctx.check(not bare, f, 'sample covariance kept 2-d where it is used as a matrix',
                          'np.atleast_2d(np.cov(..)) / reshape',
                          'np.cov of a single summary statistic is 0-d; it reaches {} without '
                          'np.atleast_2d'.format(show(ft)), fn=f, node=c)


def _bare_cov(t, p_sim, parent=None, acc=None):
    """None if t holds no np.cov of the simulated summaries; else the list of such np.cov terms
    that are not directly wrapped into a 2-d shape."""
    from ..values import children
    top = acc is None
    if acc is None:
        acc = {'n': 0, 'bare': []}
    if t[0] == 'call' and t[1] == ('global', 'numpy.cov') and p_sim in set(subterms(t)):
        acc['n'] += 1
        wrapped = parent is not None and parent[0] == 'call' and (
            parent[1] in (('global', 'numpy.atleast_2d'), ('global', 'numpy.reshape')) or
            (parent[1][0] == 'attr' and parent[1][2] == 'reshape'))
        if not wrapped:
            acc['bare'].append(t)
    else:
        for c in children(t):
            if isinstance(c, tuple) and c and isinstance(c[0], str):
                _bare_cov(c, p_sim, t, acc)
    if top:
        return None if acc['n'] == 0 else acc['bare']


def match_cov_rows(t, p_sim):
    """np.cov(sim, rowvar=False) | np.cov(np.transpose(sim)) | np.cov(sim.T)."""
    if t[0] != 'call' or t[1] != ('global', 'numpy.cov') or not t[2]:
        return False
    a = t[2][0]
    kw = dict(t[3])
    if a == p_sim:
        return kw.get('rowvar') == ('const', False) or \
            (len(t[2]) > 2 and t[2][2] == ('const', False))
    if a == ('call', ('global', 'numpy.transpose'), (p_sim,), ()):
        return 'rowvar' not in kw or kw.get('rowvar') == ('const', True)
    return False


@obligation('C20-l', 'T9 T2', 'a shrinkage estimate computed on standardised summaries is scaled '
            'back to a covariance before the density is evaluated', floor=2,
            necessary='a correlation-scale matrix used as the covariance of unstandardised '
                      'summaries evaluates a different density whenever a standard deviation '
                      'differs from one')
def c20_l(ctx):
    ctx.fact('cov((x - m) / s) is the correlation matrix R; the covariance is outer(s, s) * R')
    pm = ctx.repo.module('elfi.methods.bsl.pdf_methods')
    n_sites = 0
    for f in pm.functions.values():
        lp = ctx.calls(f, 'ss.multivariate_normal.logpdf(*_)')
        if not lp:
            continue
        ex = ctx.ex(f)
        sim = f.params[0]
        g = cfg_of(f)
        for n in own_nodes(f.node):
            # sim = (sim - mean) / std     (scale-free summaries)
            if not (isinstance(n, ast.Assign) and isinstance(n.targets[0], ast.Name)):
                continue
            v = ex.raw(n.value)
            m = match(v, pattern('(_x - _m) / _s'))
            if m is None or n.targets[0].id != sim:
                continue
            s_term = m['s']
            n_sites += 1
            # every path from here to a density call passes a rescaling by outer(s, s)
            resc = []
            for k in own_nodes(f.node):
                if isinstance(k, ast.Assign):
                    kv = ex.raw(k.value)
                    mm = match_any(kv, ('np.outer(_a, _b) * _r', '_r * np.outer(_a, _b)'))
                    if mm is not None and mm['a'] == s_term and mm['b'] == s_term:
                        resc.append(k)
            # tests of the condition that guards the standardisation agree along a path when
            # the condition only reads parameters that are never re-bound
            assumed = []
            for (t_node, pol) in g.guards_of(ctx.node(f, n)):
                if t_node.kind != 'test':
                    continue
                gt = ex.raw(t_node.ast)
                names = set(s[1] for s in subterms(gt) if s[0] == 'name')
                if not names or not names <= set(f.all_params):
                    continue
                if any(isinstance(k, (ast.Assign, ast.AugAssign)) and any(
                        isinstance(x, ast.Name) and x.id in names and
                        isinstance(x.ctx, ast.Store) for x in ast.walk(k))
                       for k in own_nodes(f.node)):
                    continue
                for t2 in g.nodes:
                    if t2.kind == 'test' and ex.raw(t2.ast) == gt:
                        assumed.append((t2, pol))
            ok = True
            for c in lp:
                cs = ctx.node(f, c)
                if g.exists_path_assuming(ctx.node(f, n), cs,
                                          avoiding=[ctx.node(f, r) for r in resc],
                                          assumed=assumed):
                    ok = False
            ctx.check(ok, f, 'standardised estimate scaled back by outer(std, std)',
                      'rescale on every path to the density',
                      'the summaries are standardised by {} but a path to the density does not '
                      'multiply the estimate by outer({s}, {s}): a correlation matrix is used as '
                      'the covariance'.format(show(s_term), s=show(s_term)), fn=f, node=n)
        # the correlation -> covariance conversions in the copula path use one std vector
        for n in own_nodes(f.node):
            pass
    sp = [f for f in pm.functions.values() if ctx.calls(f, 'graphical_lasso(*_)')]
    for f in sp:
        ex = ctx.ex(f)
        for c in ctx.calls(f, 'graphical_lasso(*_)'):
            n_sites += 1
            a0 = ex.term(c.args[0]) if c.args else None
            ok = a0 is not None and any(s[0] == 'call' and s[1] == ('global', 'numpy.cov')
                                        for s in subterms(a0))
            ctx.check(ok, f, 'graphical lasso runs on a covariance-type matrix of the simulated '
                      'summaries', show(a0)[:60] if a0 else None,
                      'graphical_lasso is not applied to the (sample) covariance', fn=f, node=c)
    if n_sites < 2:
        ctx.undecided('expected a standardising branch and graphical-lasso calls, found {} '
                      'sites'.format(n_sites))


@obligation('C20-m', 'T14 T3', 'Warton shrinkage: gamma R + (1 - gamma) I on the correlation scale, '
            'scaled back with the same standard deviations; called with gamma = 1 - penalty',
            floor=4,
            necessary='already for a single summary (1 x 1 matrices) another combination gives a '
                      'different covariance, hence a different synthetic likelihood')
def c20_m(ctx):
    from .. import symdiff as sd
    from ..ratfun import Rat, Unsupported
    from .C10 import _scalarise
    ctx.fact('Warton (2008): R_gamma = gamma R + (1 - gamma) I, Sigma = D^1/2 R_gamma D^1/2; for '
             'ns = 1 all matrices are scalars: diag and eye are identities, matmul a product')
    cw = ctx.repo.module('elfi.methods.bsl.cov_warton')
    fns = dict((f.name, f) for f in cw.functions.values())
    cov = [f for f in cw.functions.values() if ctx.calls(f, 'np.sqrt(*_)')]
    cor = [f for f in cw.functions.values() if not ctx.calls(f, 'np.sqrt(*_)') and
           ctx.calls(f, 'np.eye(*_)')]
    if len(cov) != 1 or len(cor) != 1:
        raise AnchorMissing('Warton covariance / correlation shrinkage functions')

    def scal(t):
        t = _scalarise(t)

        def rec(x):
            if not isinstance(x, tuple) or not x:
                return x
            if isinstance(x[0], str) and x[0] == 'call' and x[1] == ('global', 'numpy.diag') and \
                    len(x[2]) == 1:
                return rec(x[2][0])
            if isinstance(x[0], str) and x[0] == 'call' and x[1] == ('global', 'numpy.eye'):
                return ('const', 1)
            return tuple(rec(c) if isinstance(c, tuple) else c for c in x)
        return rec(t)
    for (f, want_fn, label) in (
            (cov[0], lambda s, g, e: g * s + (Rat.const(1) - g) * (s + e),
             'covariance: gamma S + (1 - gamma) (S + eps) on the diagonal'),
            (cor[0], lambda s, g, e: g * s + (Rat.const(1) - g),
             'correlation: gamma R + (1 - gamma) I')):
        ex = ctx.ex(f)
        rr = returns(f)
        if len(rr) != 1:
            ctx.undecided('{}: expected one return'.format(f.name))
        alg = sd.Algebra()
        s_, g_ = alg.const('s'), alg.const('gamma')

        def leaf(t, f=f):
            if t == ('param', f.params[0]):
                return s_
            if t == ('param', f.params[1]):
                return g_
            return None
        try:
            got = sd.convert(scal(ex.term(rr[0].value)), alg, leaf)
        except Unsupported as e:
            ctx.undecided('{} outside the fragment: {}'.format(f.name, e))
        eps_c = [c for c in (n for n in own_nodes(f.node) if isinstance(n, ast.Constant))
                 if isinstance(c.value, float) and 0 < c.value < 1e-3]
        e_ = Rat.const(rf_fraction(eps_c[0].value)) if eps_c else Rat.const(0)
        ctx.check(alg.same(got, want_fn(s_, g_, e_)), f, label, '',
                  '{} does not compute {} (checked for a single summary)'.format(f.name, label),
                  fn=f, node=rr[0])
    # call sites: gamma = 1 - penalty
    pm = ctx.repo.module('elfi.methods.bsl.pdf_methods')
    n = 0
    for f in pm.functions.values():
        ex = ctx.ex(f)
        for c in ctx.calls(f):
            tg = ctx.cg.resolve(f, c)
            if not tg or tg[0] not in (cov[0], cor[0]):
                continue
            n += 1
            a = ex.term(c.args[1]) if len(c.args) > 1 else None
            ok = a is not None and match(a, pattern('1 - penalty')) is not None
            ctx.check(ok, f, 'shrinkage called with gamma = 1 - penalty', '',
                      '{} passes {} as gamma (penalty 0 must mean no shrinkage)'.format(
                          f.name, show(a) if a else None), fn=f, node=c)
            # the shrunk matrix replaces the one handed in
            st = getattr(c, '_parent', None)
            a0 = c.args[0] if c.args else None
            ok2 = isinstance(st, ast.Assign) and isinstance(st.targets[0], ast.Name) and \
                isinstance(a0, ast.Name) and a0.id == st.targets[0].id
            ctx.check(ok2, f, 'estimate replaced by its shrunk version', '',
                      'the shrunk matrix is not stored back into the estimate it was computed '
                      'from', fn=f, node=c)
    if n < 2:
        ctx.undecided('expected Warton call sites in both likelihoods, found {}'.format(n))


def rf_fraction(v):
    from fractions import Fraction
    return Fraction(v)


@obligation('C20-n', 'T1 T11 T14', 'the first batch of a round is not submitted while batches of '
            'the previous round are outstanding; "first batch of a round" is a property of the '
            'batch index', floor=2,
            necessary='a batch prepared before the previous round was processed is simulated at '
                      'the previous (possibly rejected) parameters: the likelihood of the next '
                      'round mixes two parameter values')
def c20_n(ctx):
    from .. import symdiff as sd
    from ..ratfun import Rat, Unsupported
    mb = ctx.cls('elfi.methods.inference.parameter_inference:ModelBased')
    al = ctx.own_method(mb, '_allow_submit')
    ex = ctx.ex(al)
    bi = ('param', al.params[1])
    rf = [r for r in returns(al) if ex.term(r.value) == ('const', False)]
    ok = False
    site = None
    for r in rf:
        facts = [t for (t, pol, _) in ctx.guards(al, r) if pol and t[0] != 'bool']
        pend = any(match(t, pattern('self.batches.has_pending')) is not None for t in facts)
        first = False
        for t in facts:
            m = match(t, pattern('_a % self.n_sim_round == 0'))
            if m is None:
                continue
            # _a must be the index of the first simulation of the batch: batch_index * batch_size
            a = m['a']
            mm = match(a, pattern('_x * _y'))
            if mm is not None and {mm['x'], mm['y']} == {bi, pattern_term('self.batch_size')}:
                first = True
        if pend and first:
            ok = True
            site = r
    ctx.check(ok, al, 'round barrier decided from the index of the batch to be submitted',
              '(batch_index * batch_size) % n_sim_round == 0 and has_pending -> False',
              'submission of a round\'s first batch is not refused while batches are pending on '
              'the ground of the *index of the batch to be submitted* (a test on the simulations '
              'received so far opens the barrier as soon as one batch of the round has arrived)',
              fn=al, node=site or al.node)
    # otherwise the general rule decides
    rs = [r for r in returns(al) if contains(ex.term(r.value), 'super()._allow_submit(_)') or
          (ex.term(r.value)[0] == 'call' and callee_name(r.value) == '_allow_submit')]
    ctx.check(bool(rs), al, 'otherwise the general submission rule applies',
              'return super()._allow_submit(batch_index)', '', fn=al,
              node=rs[0] if rs else al.node)


_BSLC = 'elfi.methods.inference.bsl:BSL'
_C20_GUARDS = [
    (_BSLC + '._process_simulated', 'self.likelihood(*_)',
     [('np.all(np.isfinite(self.simulated))', True)],
     'the synthetic likelihood is evaluated only on finite simulated summaries'),
    (_BSLC + '._process_simulated', 'assign:-np.inf',
     [('np.all(np.isfinite(self.simulated))', False)],
     'non-finite simulated summaries give log likelihood -inf'),
    (_BSLC + '._process_simulated', 'self._get_mh_ratio()', [('_n == 0', False)],
     'every state after the first is accepted through the Metropolis-Hastings ratio'),
    (_BSLC + '._process_simulated', 'raise:0',
     [('np.isfinite(_l)', False), ('_n == 0', True)],
     'a non-finite likelihood is fatal only for the initial state'),
    (_BSLC + '._get_mh_ratio', 'self._jacobian_logit_transform(*_)',
     [('self.logit_transform_bound is not None', True)],
     'the Jacobian ratio enters exactly when proposals are made in transformed space'),
    (_BSLC + '._propagate_state', 'self._para_logit_back_transform(*_)',
     [('self.logit_transform_bound is not None', True)],
     'a transformed proposal is mapped back exactly when bounds are given'),
    ('elfi.methods.bsl.pdf_methods:gaussian_syn_likelihood', 'graphical_lasso(*_)',
     [("shrinkage == 'glasso'", True)], 'graphical lasso only when asked for'),
    ('elfi.methods.bsl.pdf_methods:gaussian_syn_likelihood', 'cov_warton(*_)',
     [("shrinkage == 'warton'", True)], 'Warton shrinkage only when asked for'),
    ('elfi.methods.bsl.pdf_methods:gaussian_syn_likelihood', 'assign:np.matmul(whitening, _y)',
     [('whitening is not None', True)], 'whitening only when a whitening matrix is given'),
]


@obligation('C20-o', 'T11', 'the BSL step and the standard likelihood choose their branches on the '
            'right side of their tests (frozen table of {} rows)'.format(len(_C20_GUARDS)),
            floor=len(_C20_GUARDS),
            necessary='a likelihood evaluated on non-finite summaries, a Jacobian applied without '
                      'a transform, or a shrinkage estimator applied when none was asked for is '
                      'not the stated likelihood / acceptance probability')
def c20_o(ctx):
    from .base import check_guard_table
    check_guard_table(ctx, _C20_GUARDS)


def _scalarised(t, batch_calls):
    """Does every occurrence of a batch-shaped call inside term t sit directly under a scalar
    conversion (float(np.squeeze(.)), float(.[0]), .item(), np.squeeze(.)[()], .[0])?"""
    CONV_CALLS = (('global', 'builtins.float'), ('global', 'float'), ('name', 'float'),
                  ('global', 'numpy.squeeze'))

    def walk(x, under):
        if not isinstance(x, tuple) or not x:
            return True
        if any(match(x, p) is not None for p in batch_calls):
            return under
        if x[0] == 'call' and x[1] in CONV_CALLS and len(x[2]) == 1:
            # float(np.squeeze(call)) - only a selection (squeeze / [0] / item) makes float() safe
            inner = x[2][0]
            if x[1] in (('global', 'numpy.squeeze'),):
                return walk(inner, True)
            return walk(inner, under)
        if x[0] == 'sub' and x[2][0] == 'const' and isinstance(x[2][1], int):
            return walk(x[1], True)
        if x[0] == 'call' and x[1][0] == 'attr' and x[1][2] in ('item', 'squeeze') and not x[2]:
            return walk(x[1][1], True)
        if x[0] == 'phi':
            return all(walk(a, under) for a in x[1])
        # element-wise constructs: selecting the element of the result selects it in the operand
        if x[0] == 'binop':
            return walk(x[2], under) and walk(x[3], under)
        if x[0] == 'unary':
            return walk(x[2], under)
        if x[0] == 'call' and x[1][0] == 'global' and x[1][1] in (
                'numpy.log', 'numpy.exp', 'numpy.sqrt', 'numpy.abs', 'numpy.square',
                'numpy.negative', 'numpy.log1p', 'numpy.expm1') and len(x[2]) == 1:
            return walk(x[2][0], under)
        ok = True
        for c in x[1:]:
            if isinstance(c, tuple):
                if c and isinstance(c[0], str):
                    ok = ok and walk(c, False)
                else:
                    for d in c:
                        if isinstance(d, tuple):
                            if d and isinstance(d[0], str):
                                ok = ok and walk(d, False)
                            else:
                                for e in d:
                                    if isinstance(e, tuple) and e and isinstance(e[0], str):
                                        ok = ok and walk(e, False)
        return ok
    return walk(t, False)


@obligation('C20-p', 'T12', 'the chain state\'s scalar slots receive scalars: a batch-shaped result '
            '(prior log density of a (1, d) point, synthetic likelihood returned as a one-element '
            'array) has its element selected before it is stored', floor=3,
            necessary='with the installed numpy, storing a one-element array into an array '
                      'element raises ("setting an array element with a sequence"): no BSL chain '
                      'can be started, let alone satisfy the acceptance rule')
def c20_p(ctx):
    ctx.fact('numpy >= 2.x: a[i] = b raises for an array b with ndim > 0 (also of one element); '
             'ModelPrior.logpdf of a (1, d) input and the synthetic likelihoods '
             '(np.array([loglik])) return one-element arrays')
    cls = ctx.cls(_BSLC)
    batch_calls = (pattern('self.prior.logpdf(_)'), pattern('self.likelihood(*_)'))
    n = 0
    for m in cls.methods.values():
        ex = ctx.ex(m)
        for key in ('logprior', 'logposterior'):
            for (s, t, k) in ctx.stores(m, "self.state['{}'][_]".format(key)):
                if not isinstance(s, ast.Assign):
                    continue
                v = ex.term(s.value)
                if not any(find(v, p) is not None for p in batch_calls):
                    continue
                n += 1
                ctx.check(_scalarised(v, batch_calls), m,
                          'scalar stored into state[{!r}]'.format(key),
                          'float(np.squeeze(<batch result>)) before the store',
                          '`{}` stores a one-element array (result of prior.logpdf / the '
                          'synthetic likelihood) into a scalar slot: ValueError with the '
                          'installed numpy, every BSL run stops here'.format(src(s)[:70]), fn=m,
                          node=s)
    if n < 3:
        ctx.undecided('expected at least 3 stores of batch results into the chain state, found '
                      '{}'.format(n))


@obligation('C20-q', 'T8 T13', 'the chain state is carried forward as a whole: every per-step slot '
            'whose previous entry some step reads is copied from the previous step at every '
            'place where a candidate is rejected', floor=5,
            necessary='a rejected candidate leaves the chain where it was; a slot that one '
                      'rejection site copies and another does not (or that the step reads at '
                      'n - 1 but no rejection copies) holds its initial value after that '
                      'rejection, and the next Metropolis-Hastings ratio is computed against a '
                      'state the chain is not in')
def c20_q(ctx):
    cls = ctx.cls(_BSLC)
    p_prev = pattern("self.state[_k][_i - 1]")
    p_slot = pattern("self.state[_k][_i]")
    blocks = {}      # id(statement list) -> (method, first stmt, {key: stmt})
    carry_values = set()
    prev_reads = {}  # key -> (method, node)

    def stmt_lists(node):
        for n in ast.walk(node):
            for f in ('body', 'orelse', 'finalbody'):
                b = getattr(n, f, None)
                if isinstance(b, list) and b and isinstance(b[0], ast.stmt):
                    yield b

    for m in cls.methods.values():
        ex = ctx.ex(m)
        for body in stmt_lists(m.node):
            for s in body:
                if not (isinstance(s, ast.Assign) and len(s.targets) == 1 and
                        isinstance(s.targets[0], ast.Subscript)):
                    continue
                bt = match(ex.term(s.targets[0]), p_slot)
                bv = match(ex.term(s.value), p_prev)
                if bt is None or bv is None or bt['k'] != bv['k'] or bt['i'] != bv['i']:
                    continue
                if bt['k'][0] != 'const':
                    continue
                blocks.setdefault(id(body), (m, body[0], {}))[2][bt['k'][1]] = s
                carry_values.add(id(s.value))
    for m in cls.methods.values():
        ex = ctx.ex(m)
        for n in own_nodes(m.node):
            if not (isinstance(n, ast.Subscript) and isinstance(n.ctx, ast.Load)):
                continue
            if id(n) in carry_values:
                continue
            b = match(ex.term(n), p_prev)
            if b is None or b['k'][0] != 'const':
                continue
            prev_reads.setdefault(b['k'][1], (m, n))
    if len(blocks) < 2 or len(prev_reads) < 3:
        ctx.undecided('expected at least two rejection sites that copy the previous chain state and '
                      'three slots read at the previous step, found {} / {}'.format(
                          len(blocks), sorted(prev_reads)))
        return
    carried_somewhere = set()
    for (_m, _s, ks) in blocks.values():
        carried_somewhere |= set(ks)
    for (m, first, ks) in blocks.values():
        for key in sorted(set(prev_reads) | carried_somewhere):
            why = ('read at the previous step by ' + prev_reads[key][0].name) \
                if key in prev_reads else 'copied at another rejection site'
            ctx.check(key in ks, m, "rejection copies state['{}']".format(key),
                      "state['{0}'][n] = state['{0}'][n - 1] ({1})".format(key, why),
                      "the rejection branch at line {} copies {} from the previous step but not "
                      "state['{}'], which is {}: after this rejection the chain's slot holds its "
                      'initial value'.format(first.lineno, sorted(ks), key, why), fn=m,
                      node=ks.get(key, first))


@obligation('C20-r', 'T2', 'no result buffer takes the dtype of a caller\'s array and then receives '
            'computed values (shared sweep of C08-l, restricted to the modules this property is '
            'anchored in; `*_like(x)` and `dtype=x.dtype` allocations)', floor=1,
            necessary='chain states and likelihood values are stored as computed (numpy truncates floats silently when they are assigned into an '
                      'integer array)')
def c20_dtype(ctx):
    from .base import inherited_dtype_obligation
    inherited_dtype_obligation(ctx, ['elfi.methods.inference.bsl', 'elfi.methods.bsl.pdf_methods', 'elfi.methods.inference.parameter_inference'])


_C20_MISSPEC = [
    (_BSLC + '._init_round', "store:self.gamma_sampler_state['gamma']", [('self.is_misspec', True)],
     'the adjustment parameter is drawn (and kept for the next draw) only by the misspecified '
     'variant'),
    (_BSLC + '._init_round', "store:self.gamma_sampler_state['loglik']", [('self.is_misspec', True)],
     'the sampler keeps the likelihood at the adjustment parameter it returned'),
    (_BSLC + '._process_simulated', "store:self.gamma_sampler_state['loglik']",
     [('self.is_misspec', True)],
     'an accepted state hands its likelihood to the adjustment-parameter sampler'),
    (_BSLC + '._process_simulated', "store:self.gamma_sampler_state['sample_mean']",
     [('self.is_misspec', True)],
     'an accepted state hands the mean of its simulated summaries to the sampler'),
    (_BSLC + '._process_simulated', "store:self.gamma_sampler_state['sample_cov']",
     [('self.is_misspec', True)],
     'an accepted state hands the covariance of its simulated summaries to the sampler'),
    (_BSLC + '._process_simulated', 'self.likelihood(_, _, gamma=_)', [('self.is_misspec', True)],
     'the adjusted likelihood receives the current adjustment parameter'),
]


def _is_clip(t):
    """t = (K if K < V else V) or (K if V < K else V), possibly nested: -> innermost V, else None.
    Conditional terms are canonical (positive test), so a negated guard shows as swapped arms."""
    seen = False
    while t[0] == 'ifexp':
        test, a, b = t[1], t[2], t[3]
        if not (test[0] == 'cmp' and test[1] in ('<', '<=')):
            return None
        lo, hi = test[2], test[3]
        k = a if a[0] in ('const', 'unary') else None
        if k is None:
            return None
        kv = k[1] if k[0] == 'const' else (-k[2][1] if k[1] == '-' and k[2][0] == 'const'
                                           else None)
        if not isinstance(kv, (int, float)):
            return None
        if lo == k and hi == b and kv > 0:      # K < V -> K  (upper clip at a positive bound)
            t = b
        elif hi == k and lo == b and kv < 0:    # V < K -> K  (lower clip at a negative bound)
            t = b
        else:
            return None
        seen = True
    return t if seen else None


@obligation('C20-s', 'T11 T8', 'the misspecification-adjusted step keeps its sampler state only in '
            'the misspecified variant; every stored log posterior is log likelihood + log prior of '
            'the same chain index; the overflow guard of the ratio is a clip', floor=9,
            necessary='log posterior = log likelihood + log prior is what the acceptance ratio '
                      'compares; a guard that replaces values inside the range (negated test) '
                      'makes every proposal accepted; the adjustment-parameter sampler conditions '
                      'on the likelihood, mean and covariance of the current state')
def c20_s(ctx):
    from .base import check_guard_table
    check_guard_table(ctx, _C20_MISSPEC)
    cls = ctx.cls(_BSLC)
    p_slot = pattern("self.state['logposterior'][_i]")
    n = 0
    for m in cls.methods.values():
        ex = ctx.ex(m)
        for (s, tg, k) in ctx.stores(m, "self.state['logposterior'][_]"):
            if not isinstance(s, ast.Assign):
                continue
            bt = match(ex.term(tg), p_slot)
            v = ex.term(s.value)
            if bt is None or match(v, pattern("self.state['logposterior'][_]")) is not None:
                continue          # carried forward from the previous step (C20-q)
            n += 1
            want = ('sub', ('sub', ('attr', ('param', 'self'), 'state'), ('const', 'logprior')),
                    bt['i'])
            ok = v[0] == 'binop' and v[1] == '+' and want in (v[2], v[3])
            ctx.check(ok, m, 'stored log posterior = log likelihood + log prior of the same index',
                      "state['logposterior'][i] = loglik + state['logprior'][i]",
                      '`{}` does not store log likelihood + log prior of the same chain index'
                      .format(src(s)[:75]), fn=m, node=s)
    if n < 2:
        ctx.undecided('expected the two computed stores of the log posterior, found {}'.format(n))
    # the overflow guard
    for m in cls.methods.values():
        ex = ctx.ex(m)
        for r in returns(m):
            if r.value is None:
                continue
            t = ex.term(r.value)
            mm = match(t, pattern('np.exp(_v)'))
            if mm is None or not contains(mm['v'], "self.state['logposterior'][_]"):
                continue
            v = mm['v']
            if v[0] != 'ifexp':
                ctx.ok(m, 'ratio returned without an overflow guard', 'np.exp(log ratio)', fn=m,
                       node=r)
                continue
            inner = _is_clip(v)
            ctx.check(inner is not None and inner[0] != 'ifexp', m,
                      'overflow guard is a clip', 'K if res > K else res; -K if res < -K else res',
                      'the guard around the log ratio is not a clip (a value inside the range is '
                      'replaced, or the arms are swapped): `{}`'.format(show(v)[:80]), fn=m, node=r)


@obligation('C20-t', 'T8', 'a requested shrinkage reaches the density: the covariance handed to the '
            'normal log density is, on the glasso / Warton paths, the output of that estimator '
            'called with the user\'s penalty', floor=2,
            necessary='"after the optional shrinkage": if the estimator\'s result is computed and '
                      'dropped, the likelihood silently is the unshrunk one')
def c20_t(ctx):
    f = ctx.fn('elfi.methods.bsl.pdf_methods:gaussian_syn_likelihood')
    ex = ctx.ex(f)
    cs = ctx.calls(f, 'ss.multivariate_normal.logpdf(*_)')
    if not cs:
        raise AnchorMissing('gaussian_syn_likelihood does not call multivariate_normal.logpdf')
    for c in cs:
        kw = dict((k.arg, k.value) for k in c.keywords)
        cov = kw.get('cov', c.args[2] if len(c.args) > 2 else None)
        if cov is None:
            ctx.bad(f, 'covariance argument', 'the density is evaluated without a covariance',
                    fn=f, node=c)
            continue
        t = ex.term(cov)
        ctx.check(contains(t, 'graphical_lasso(_, alpha=penalty)[0]'), f,
                  'glasso estimate reaches the density', 'cov <- graphical_lasso(S, alpha=penalty)[0]',
                  'no path hands the graphical-lasso covariance (estimated with the user\'s '
                  'penalty) to the density', fn=f, node=c)
        ctx.check(contains(t, 'cov_warton(_, 1 - penalty)'), f,
                  'Warton estimate reaches the density', 'cov <- cov_warton(S, 1 - penalty)',
                  'no path hands the Warton covariance (gamma = 1 - penalty) to the density',
                  fn=f, node=c)
