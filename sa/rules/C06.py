"""C06 - on-disk array stores: crash-consistent ordering of file effects, ownership, bookkeeping.

Decided: the order of file effects on every path of every NpyArray method (abstract
interpretation over the CFG with a three-quantity relation header-rows H / logical rows S /
rows on disk D), who may touch the file object, header write bounds, batch bookkeeping of
ArrayStore / NpyStore.  Not decided: byte-level .npy conformity, OS / memmap semantics.
"""

import ast

from .. import AnalysisError, AnchorMissing
from ..cfg import cfg_of
from ..model import own_nodes
from ..values import pattern, match, match_any, find, contains, show, subterms, subst, expander_of
from .base import obligation, src, callee_name

NPY = 'elfi.store:NpyArray'
FILE_METHODS = ('seek', 'write', 'truncate', 'flush', 'close', 'read', 'tell')

SELF = ('param', 'self')


def _self_attr(name):
    return ('attr', SELF, name)


# ---------------------------------------------------------------------------
# helpers
# ---------------------------------------------------------------------------

def eval_order(node):
    """Expression nodes in (approximate) Python evaluation order: operands before operator."""
    if isinstance(node, (ast.FunctionDef, ast.AsyncFunctionDef, ast.Lambda, ast.ClassDef)):
        return
    if isinstance(node, ast.Assign):
        yield from eval_order(node.value)
        for t in node.targets:
            yield from eval_order(t)
        yield node
        return
    if isinstance(node, ast.AugAssign):
        yield from eval_order(node.value)
        yield from eval_order(node.target)
        yield node
        return
    for child in ast.iter_child_nodes(node):
        yield from eval_order(child)
    yield node


def inline_self(ctx, cls, term, depth=0):
    """Replace `self.<property>` and `self.<method>()` by the callee's single return term."""
    if depth > 3:
        return term
    mapping = {}
    for s in subterms(term):
        name = None
        if s[0] == 'attr' and s[1] == SELF:
            m = cls.lookup(s[2])
            if m is not None and m.is_property:
                name = s[2]
                key = s
        elif s[0] == 'call' and s[1][0] == 'attr' and s[1][1] == SELF and not s[2] and not s[3]:
            m = cls.lookup(s[1][2])
            if m is not None and not m.is_property:
                name = s[1][2]
                key = s
        if name is None:
            continue
        rets = [n for n in own_nodes(m.node) if isinstance(n, ast.Return) and n.value is not None]
        if len(rets) != 1:
            continue
        mapping[key] = inline_self(ctx, cls, ctx.ex(m).term(rets[0].value), depth + 1)
    return subst(term, mapping) if mapping else term


def strip_wrappers(t):
    """Peel int()/np.prod wrappers that do not change the position arithmetic."""
    while t[0] == 'call' and t[1][0] == 'global' and t[1][1] in ('int', 'builtins.int') \
            and len(t[2]) == 1:
        t = t[2][0]
    return t


DATAEND_PATTERNS = [
    'self.header_length + np.prod(self.shape) * self.itemsize',
    'self.header_length + self.itemsize * np.prod(self.shape)',
    'np.prod(self.shape) * self.itemsize + self.header_length',
    'self.itemsize * np.prod(self.shape) + self.header_length',
]


def classify_position(ctx, cls, term):
    """Region of the file a seek argument denotes."""
    t = strip_wrappers(inline_self(ctx, cls, term))
    if t == ('const', 0):
        return 'HEADER0'
    if match(t, pattern('self.HEADER_DATA_OFFSET')) is not None:
        return 'HEADERDATA'
    if match(t, pattern('self.HEADER_DATA_SIZE_OFFSET')) is not None:
        return 'HEADERSIZE'
    for p in DATAEND_PATTERNS:
        if match(t, pattern(p)) is not None:
            return 'DATAEND'
    if contains(t, 'self.header_length') or contains(t, 'self.itemsize'):
        return 'BADDATA'
    return 'TOP'


def is_fs(term):
    """term denotes the file object of an NpyArray."""
    return term[0] == 'attr' and term[2] == 'fs'


class St:
    """Abstract state of the relation header rows H / logical rows S / rows on disk D."""
    __slots__ = ('h_le_s', 's_le_d', 'h_eq_s', 'prepared', 'seek', 'pending', 'memmap_stale')

    def __init__(self, h_le_s=True, s_le_d=True, h_eq_s=True, prepared='NO', seek='NONE',
                 pending=None, memmap_stale=False):
        self.h_le_s = h_le_s
        self.s_le_d = s_le_d
        self.h_eq_s = h_eq_s
        self.prepared = prepared
        self.seek = seek
        self.pending = pending
        self.memmap_stale = memmap_stale

    def copy(self, **kw):
        s = St(self.h_le_s, self.s_le_d, self.h_eq_s, self.prepared, self.seek, self.pending,
               self.memmap_stale)
        for k, v in kw.items():
            setattr(s, k, v)
        return s

    def key(self):
        return (self.h_le_s, self.s_le_d, self.h_eq_s, self.prepared, self.seek, self.pending,
                self.memmap_stale)

    def inv(self):
        return self.h_le_s and self.s_le_d and (self.h_eq_s or self.prepared == 'CUR') \
            and not self.memmap_stale and self.pending is None

    def describe(self):
        bits = []
        bits.append('H<=S' if self.h_le_s else 'H<=S unknown')
        bits.append('S<=D' if self.s_le_d else 'S<=D unknown')
        bits.append('H=S' if self.h_eq_s else 'H!=S')
        bits.append('prepared=' + self.prepared)
        if self.pending is not None:
            bits.append('rows written beyond the shape')
        if self.memmap_stale:
            bits.append('memmap stale')
        return ', '.join(bits)


STATE_A = ('clean', St())
STATE_B = ('appended, header prepared but not written', St(h_eq_s=False, prepared='CUR'))


class Sim:
    """Path-sensitive abstract interpretation of the NpyArray methods."""

    def __init__(self, ctx, cls):
        self.ctx = ctx
        self.cls = cls
        self.violations = []     # (method qname, role, message, ast node, path lines)
        self.events_seen = 0
        self.paths = 0
        self.fs_effects = 0

    # -- events of one CFG node ---------------------------------------------
    def events(self, fn, node):
        ex = self.ctx.ex(fn)
        root = node.ast
        if node.kind in ('entry', 'return', 'raise', 'exc') or root is None:
            return []
        if node.kind == 'with':
            roots = [i.context_expr for i in root.items]
        else:
            roots = [root]
        out = []
        for r in roots:
            for n in eval_order(r):
                if isinstance(n, ast.Call) and isinstance(n.func, ast.Attribute):
                    recv = ex.term(n.func.value, node)
                    if is_fs(recv) and n.func.attr in FILE_METHODS:
                        arg = ex.term(n.args[0], node) if n.args else None
                        out.append(('fs', n.func.attr, arg, n))
                        continue
                    if recv == SELF:
                        m = self.cls.lookup(n.func.attr)
                        if m is not None:
                            out.append(('call', m, None, n))
                            continue
                    # np.memmap(self.fs, ...) maps the data, np format helpers read the header
                if isinstance(n, (ast.Assign, ast.AugAssign)):
                    targets = n.targets if isinstance(n, ast.Assign) else [n.target]
                    flat = []
                    for t in targets:
                        if isinstance(t, (ast.Tuple, ast.List)):
                            flat += [(e, i) for i, e in enumerate(t.elts)]
                        else:
                            flat.append((t, None))
                    for t, idx in flat:
                        if isinstance(t, ast.Attribute) and isinstance(t.value, ast.Name) and \
                                t.value.id == fn.self_name:
                            val = ex.term(n.value, node)
                            if idx is not None:
                                val = ('item', val, idx)
                            if isinstance(n, ast.AugAssign):
                                val = ('binop', '+', _self_attr(t.attr), val)
                            out.append(('set', t.attr, val, n))
        return out

    # -- simulation ----------------------------------------------------------
    def run_method(self, fn, state, depth=0, trail=()):
        """Simulate fn from `state`; returns list of exit states at the normal exit."""
        if depth > 4:
            raise AnalysisError('C06-a: call depth exceeded in ' + fn.qname)
        cfg = cfg_of(fn)
        exits = []
        seen_exit = set()
        stack = [(cfg.entry, state, frozenset(), ())]
        steps = 0
        while stack:
            node, st, visited, lines = stack.pop()
            steps += 1
            if steps > 20000:
                raise AnalysisError('C06-a: state explosion in ' + fn.qname)
            if node is cfg.ret:
                self.paths += 1
                k = st.key()
                if k not in seen_exit:
                    seen_exit.add(k)
                    exits.append((st, lines))
                continue
            if node is cfg.rais:
                continue
            if node.id in visited:
                continue   # loop: body at most once
            visited = visited | {node.id}
            if node.lineno:
                lines = lines + (node.lineno,)
            states = [st]
            for ev in self.events(fn, node):
                nxt = []
                for s in states:
                    nxt += self.apply(fn, ev, s, depth, trail + lines)
                states = nxt
            for s in states:
                succs = node.succ
                if node.kind == 'test':
                    v = self.eval_test(fn, node, s)
                    if v is not None:
                        succs = [(m, lab) for (m, lab) in node.succ if lab == v]
                for (m, lab) in succs:
                    if lab in ('assert',):
                        continue
                    stack.append((m, s, visited, lines))
        return exits

    def eval_test(self, fn, node, st):
        t = self.ctx.ex(fn).term(node.ast, node)
        neg = False
        if t[0] == 'unary' and t[1] == 'not':
            neg = True
            t = t[2]
        val = None
        if t == _self_attr('_header_bytes_to_write'):
            val = st.prepared != 'NO'
        elif t[0] == 'cmp' and t[1] in ('is', 'is not') and \
                t[2] == _self_attr('_header_bytes_to_write') and t[3] == ('const', None):
            val = (st.prepared == 'NO') if t[1] == 'is' else (st.prepared != 'NO')
        if val is None:
            return None
        return (not val) if neg else val

    def viol(self, fn, role, msg, node, lines):
        self.violations.append((fn, role, msg, node, lines))

    def apply(self, fn, ev, st, depth, lines):
        kind = ev[0]
        self.events_seen += 1
        node = ev[3]
        if kind == 'call':
            callee = ev[1]
            outs = self.run_method(callee, st, depth + 1, lines)
            return [s for (s, _) in outs]
        if kind == 'set':
            attr, val = ev[1], ev[2]
            if attr == 'shape':
                return [self.shape_event(fn, st, val, node, lines)]
            if attr == '_header_bytes_to_write':
                if val == ('const', None):
                    return [st.copy(prepared='NO')]
                return [st.copy(prepared='CUR')]
            if attr == '_memmap':
                if val == ('const', None):
                    return [st.copy(memmap_stale=False)]
                return [st]
            return [st]
        if kind == 'fs':
            self.fs_effects += 1
            op, arg = ev[1], ev[2]
            if op == 'seek':
                region = classify_position(self.ctx, self.cls, arg) if arg is not None else 'TOP'
                if region == 'BADDATA':
                    self.viol(fn, 'data position',
                              'seek to {} is neither a header offset nor the data end '
                              'header_length + size*itemsize'.format(show(arg)), node, lines)
                return [st.copy(seek=region)]
            if op == 'write':
                return [self.write_event(fn, st, arg, node, lines)]
            if op == 'truncate':
                if st.seek != 'DATAEND':
                    self.viol(fn, 'truncate position',
                              'file truncated at a position ({}) that is not the end of the '
                              'rows described by shape'.format(st.seek), node, lines)
                    return [st]
                if not st.h_le_s:
                    self.viol(fn, 'shrink before header',
                              'file is shrunk while the header on disk may still describe more '
                              'rows than remain (state: {}); a kill here leaves an unloadable '
                              'file'.format(st.describe()), node, lines)
                return [st.copy(s_le_d=True, seek='PAST')]
            if op in ('flush', 'close'):
                if not st.h_eq_s:
                    self.viol(fn, op + ' without header',
                              '{}() reached with a header on disk that does not describe the '
                              'array (state: {})'.format(op, st.describe()), node, lines)
                return [st]
            return [st]   # read / tell
        return [st]

    def shape_event(self, fn, st, val, node, lines):
        v = val
        first = None
        if v[0] == 'binop' and v[1] == '+' and v[2][0] == 'tuple' and len(v[2][1]) == 1:
            first = v[2][1][0]
        elif v[0] == 'tuple' and v[1]:
            first = v[1][0]
        if v == ('const', None):
            return st
        if v[0] == 'item' and v[1][0] == 'call' and 'read_array_header' in show(v[1][1]):
            # shape read back from the file header
            return st.copy(h_le_s=True, s_le_d=True, h_eq_s=True)
        prepared = 'STALE' if st.prepared == 'CUR' else st.prepared
        # the row shape must be carried over unchanged
        rest = v[3] if (v[0] == 'binop' and v[1] == '+') else None
        if rest is not None and match(rest, pattern('_a.shape[1:]')) is None:
            self.viol(fn, 'row shape',
                      'the new shape keeps {} instead of the row shape shape[1:]'.format(
                          show(rest)[:60]), node, lines)
        if first is None:
            raise AnalysisError('C06-a: unrecognised shape assignment {} at {}'.format(
                show(val), fn.where(node)))
        g = match(first, pattern('self.shape[0] + len(_a)'))
        if g is None:
            g = match(first, pattern('len(_a) + self.shape[0]'))
        if g is not None:
            by = g['a']
            ok = st.pending is not None and st.pending == by
            return st.copy(h_eq_s=False, s_le_d=st.s_le_d and ok, prepared=prepared,
                           pending=None, memmap_stale=True)
        if contains(first, 'self.shape[0]') and first[0] == 'binop' and first[1] == '+':
            raise AnalysisError('C06-a: unrecognised growth expression {} at {}'.format(
                show(first), fn.where(node)))
        # set to a length that does not exceed the current one (truncate contract) or to 0
        # (no memmap can exist while the array is still uninitialised)
        stale = not _under_uninitialised(self.ctx, fn, node)
        return st.copy(h_eq_s=False, h_le_s=False, prepared=prepared, memmap_stale=stale)

    def write_event(self, fn, st, arg, node, lines):
        if st.seek == 'DATAEND':
            root = None
            for s in subterms(arg) if arg is not None else ():
                if s[0] == 'param' and s != SELF:
                    root = s
                    break
            return st.copy(pending=root, seek='PAST')
        if st.seek == 'HEADERDATA':
            if arg is None or not contains(arg, 'self._header_bytes_to_write'):
                raise AnalysisError('C06-a: header region written from {} at {}'.format(
                    show(arg) if arg else None, fn.where(node)))
            if not st.s_le_d:
                self.viol(fn, 'header before data',
                          'header describing the new shape is written before the rows it '
                          'describes are on disk (state: {})'.format(st.describe()), node, lines)
            if st.prepared == 'STALE':
                self.viol(fn, 'stale header',
                          'header bytes prepared for an earlier shape are written', node, lines)
                return st.copy(seek='PAST')
            if st.prepared == 'CUR':
                return st.copy(h_eq_s=True, h_le_s=True, seek='PAST')
            return st.copy(seek='PAST')
        if st.seek == 'HEADER0':
            return st.copy(seek='PAST')
        if st.seek == 'PAST':
            raise AnalysisError('C06-a: second write without seek at ' + fn.where(node))
        self.viol(fn, 'write position',
                  'write at a position that is not a recognised region (last seek: {})'.format(
                      st.seek), node, lines)
        return st


def _under_uninitialised(ctx, fn, node):
    """`node` runs only when `self.initialized` is false (first initialisation)."""
    for (t, pol, tast) in ctx.guards(fn, node):
        if t == _self_attr('initialized') and pol is False:
            return True
        if t == ('unary', 'not', _self_attr('initialized')) and pol is True:
            return True
    return False


def public_methods(cls):
    out = []
    for name, m in sorted(cls.methods.items()):
        if m.is_property:
            continue
        if name.startswith('_') and not (name.startswith('__') and name.endswith('__')):
            continue
        out.append(m)
    return out


# ---------------------------------------------------------------------------
# obligations
# ---------------------------------------------------------------------------

@obligation('C06-a', 'T10 T5 T13',
            'file-effect automaton: header never describes more rows than the file holds; '
            'every method preserves the store invariant', floor=15,
            necessary='a kill between a shrink and the header write (or between a header '
                      'write and the data write) leaves a file numpy.load rejects')
def c06_a(ctx):
    cls = ctx.cls(NPY)
    ctx.fact('BufferedRandom.truncate() flushes pending writes and truncates at the current '
             'position; seek() flushes pending writes in order')
    ctx.fact('numpy.load ignores bytes beyond the rows described by the header')
    ctx.assume('NpyArray.truncate(length) is called with length <= len(self) (API contract; '
               'the callers in the repo pass a batch start offset or 0)')
    # properties must be effect free
    for name, m in cls.methods.items():
        if m.is_property:
            for n in own_nodes(m.node):
                if isinstance(n, ast.Call) and isinstance(n.func, ast.Attribute) and \
                        n.func.attr in ('seek', 'write', 'truncate', 'flush', 'close'):
                    ctx.undecided('property {} has file effects'.format(m.qname))
    sim = Sim(ctx, cls)
    for m in public_methods(cls):
        entries = [STATE_A] if m.name in ('__init__', '__setstate__', 'init_from_array') \
            else [STATE_A, STATE_B]
        for (label, st0) in entries:
            nviol = len(sim.violations)
            exits = sim.run_method(m, st0)
            bad_exit = [(s, lines) for (s, lines) in exits if not s.inv()]
            for (s, lines) in bad_exit:
                sim.viol(m, 'method exit invariant',
                         'returns with the store in state [{}] when entered in state [{}]: a '
                         'changed shape must end with prepared header bytes and a reset '
                         'memmap'.format(s.describe(), label), m.node, lines)
            new = sim.violations[nviol:]
            if not new:
                ctx.ok(m, 'entry state: ' + label,
                       '{} exit state(s), invariant H<=S<=D and (H=S or header prepared) kept'
                       .format(len(exits)), fn=m, node=m.node)
    seen = set()
    for (fn, role, msg, node, lines) in sim.violations:
        key = (fn.qname, role, getattr(node, 'lineno', 0))
        if key in seen:
            continue
        seen.add(key)
        ctx.bad(fn, role, msg + ' [path lines {}]'.format(list(lines[-12:])), fn=fn, node=node)
    ctx.notes.append('C06-a: {} events on {} paths, {} file effects'.format(
        sim.events_seen, sim.paths, sim.fs_effects))
    if sim.fs_effects < 8:
        ctx.undecided('only {} file effects seen (expected >= 8)'.format(sim.fs_effects))

    # T13: append and truncate address the same data end
    ends = []
    for m in cls.methods.values():
        ex = ctx.ex(m)
        for n in own_nodes(m.node):
            if isinstance(n, ast.Call) and isinstance(n.func, ast.Attribute) and \
                    n.func.attr == 'seek' and n.args and is_fs(ex.term(n.func.value)):
                reg = classify_position(ctx, cls, ex.term(n.args[0]))
                if reg in ('DATAEND', 'BADDATA'):
                    ends.append((m, n, reg))
    if len(ends) < 2:
        ctx.undecided('fewer than two data-end seeks found')
    for (m, n, reg) in ends:
        ctx.check(reg == 'DATAEND', m, 'data end position',
                  'seek({}) = header_length + size*itemsize'.format(src(n.args[0])),
                  'data position {} differs from header_length + size*itemsize'.format(
                      src(n.args[0])), fn=m, node=n)


@obligation('C06-b', 'T1', 'pickling flushes an open file first', floor=1,
            necessary='an unflushed header makes the reopened store shorter than what was '
                      'written')
def c06_b(ctx):
    cls = ctx.cls(NPY)
    gs = ctx.own_method(cls, '__getstate__')
    flush = ctx.own_method(cls, 'flush')
    cfg = cfg_of(gs)
    ex = ctx.ex(gs)
    flush_calls = ctx.calls(gs, resolved_to=flush)
    fnodes = [ctx.node(gs, c) for c in flush_calls]
    bad_paths = 0
    for path in cfg.paths():
        if any(n in path for n in fnodes):
            continue
        # a path without flush is fine only if it took the branch saying the file is closed
        closed_branch = False
        for i, n in enumerate(path[:-1]):
            if n.kind == 'test':
                t = ex.term(n.ast, n)
                lab = [l for (m, l) in n.succ if m is path[i + 1]]
                mentions_closed = contains(t, '_.closed') or contains(t, 'self.fs is None') \
                    or contains(t, '_.deleted')
                if mentions_closed:
                    negated = t[0] == 'unary' and t[1] == 'not'
                    # `if not closed:` -> False edge is the closed one; `if closed:` -> True edge
                    if (negated and False in lab) or (not negated and True in lab):
                        closed_branch = True
        if not closed_branch:
            bad_paths += 1
    ctx.check(bad_paths == 0 and flush_calls, gs, 'flush before pickling',
              'flush() on every path on which the file is open',
              '{} path(s) reach the return without flush() while the file may be open'.format(
                  bad_paths), fn=gs, node=gs.node, anchors=flush_calls)
    # __setstate__ reopens by file name through __init__ (which reads the header back)
    ss = ctx.own_method(cls, '__setstate__')
    init = ctx.own_method(cls, '__init__')
    reopen = ctx.calls(ss, resolved_to=init)
    ctx.check(bool(reopen), ss, 'reopen by filename',
              '__setstate__ re-runs __init__ ({} call sites)'.format(len(reopen)),
              '__setstate__ does not reopen the file through __init__', fn=ss, node=ss.node)
    # __init__ on an existing file must read the header back (not truncate)
    rd = [m for m in ctx.reachable(init, depth=2)
          if any(isinstance(n, ast.Call) and 'read_array_header' in src(n.func)
                 for n in own_nodes(m.node))]
    ctx.check(bool(rd), init, 'header read back on reopen',
              'reopening reads shape/dtype from the file header',
              'no header read reachable from __init__', fn=init, node=init.node)


@obligation('C06-c', 'T1', 'every shape change ends with prepared header bytes and a memmap reset',
            floor=2, necessary='a stale header loses or invents rows after flush; a stale '
                               'memmap reports the old content')
def c06_c(ctx):
    cls = ctx.cls(NPY)
    writers = []
    for m in cls.methods.values():
        for (stmt, tgt, kind) in ctx.stores(m, 'self.shape'):
            val = ctx.term(m, stmt.value) if hasattr(stmt, 'value') else None
            if val == ('const', None):
                continue
            writers.append((m, stmt))
    for (m, stmt) in writers:
        cfg = cfg_of(m)
        prep = [c for c in ctx.calls(m) if _resolves_to_preparer(ctx, m, c)]
        reads_file = 'read_array_header' in src(stmt)
        if reads_file:
            ctx.ok(m, 'shape read from file', 'shape loaded from the header on disk', fn=m,
                   node=stmt)
            continue
        ok1 = ctx.must_follow(m, stmt, prep) if prep else False
        ctx.check(ok1, m, 'prepare after shape change',
                  'header bytes re-prepared on every path after `{}`'.format(src(stmt)),
                  'a path from `{}` reaches the return without preparing the header bytes'
                  .format(src(stmt)), fn=m, node=stmt)
        if _under_uninitialised(ctx, m, stmt):
            continue
        resets = [s for (s, t, k) in ctx.stores(m, 'self._memmap')
                  if ctx.term(m, s.value) == ('const', None)]
        ok2 = ctx.must_follow(m, stmt, resets) if resets else False
        ctx.check(ok2, m, 'memmap reset after shape change',
                  'memmap invalidated on every path after `{}`'.format(src(stmt)),
                  'a path from `{}` reaches the return with the old memmap'.format(src(stmt)),
                  fn=m, node=stmt)


def _resolves_to_preparer(ctx, m, call):
    for t in ctx.cg.resolve(m, call, may=True):
        if any(ctx.term(t, s.value) != ('const', None)
               for (s, tg, k) in ctx.stores(t, 'self._header_bytes_to_write')
               if hasattr(s, 'value')):
            return True
    return False


@obligation('C06-d', 'T11 T5', 'header rewrite is bounded and in place', floor=3,
            necessary='a header longer than the reserved space overwrites the first rows')
def c06_d(ctx):
    cls = ctx.cls(NPY)
    preparers, hwriters = [], []
    for m in cls.methods.values():
        if any(hasattr(s, 'value') and ctx.term(m, s.value) != ('const', None)
               for (s, t, k) in ctx.stores(m, 'self._header_bytes_to_write')):
            preparers.append(m)
        for c in ctx.calls(m, name='write'):
            if c.args and is_fs(ctx.term(m, c.func.value)) and \
                    contains(ctx.term(m, c.args[0]), 'self._header_bytes_to_write'):
                hwriters.append((m, c))
    if not preparers:
        raise AnchorMissing('no method prepares _header_bytes_to_write')
    if not hwriters:
        raise AnchorMissing('no method writes _header_bytes_to_write to the file')
    for m in preparers:
        # a raise guarded by "padded length negative"
        raises = [s for s in ctx.stmts(m, ast.Raise)]
        good = None
        for r in raises:
            for (t, pol, tast) in ctx.guards(m, r):
                if not pol:
                    continue
                for p in ('self.header_length - _.tell() < 0', 'self.header_length < _.tell()',
                          '0 > self.header_length - _.tell()',
                          'self.header_length - len(_) < 0', 'self.header_length < len(_)'):
                    if match(t, pattern(p)) is not None:
                        good = r
        ctx.check(good is not None, m, 'overflow guard',
                  'raises when the header would exceed header_length',
                  'no raise guarded by `header_length - written < 0`', fn=m,
                  node=good or m.node)
        # padded to exactly header_length: the pad length is the same difference
        pads = [c for c in ctx.calls(m, name='write')
                if c.args and contains(ctx.term(m, c.args[0]), 'self.header_length - _.tell()')]
        ctx.check(bool(pads), m, 'padding to header_length',
                  'header padded by header_length - written bytes',
                  'header bytes are not padded to header_length', fn=m,
                  node=pads[0] if pads else m.node)
    for (m, c) in hwriters:
        ex = ctx.ex(m)
        arg = ex.term(c.args[0])
        # the seek that positions this write
        seeks = [s for s in ctx.calls(m, name='seek') if is_fs(ex.term(s.func.value))
                 and ctx.must_precede(m, [s], c)]
        if not seeks:
            ctx.bad(m, 'header write position', 'header bytes written without a preceding seek',
                    fn=m, node=c)
            continue
        pos = ex.term(seeks[-1].args[0])
        want = ('sub', _self_attr('_header_bytes_to_write'), ('slice', pos, ('const', None),
                                                              ('const', None)))
        if pos == ('const', 0):
            want0 = _self_attr('_header_bytes_to_write')
            okk = arg in (want, want0)
        else:
            okk = arg == want
        ctx.check(okk, m, 'header write position',
                  'seek({}) then write(bytes[{}:]) - offsets agree'.format(show(pos), show(pos)),
                  'seek offset {} and slice of written bytes {} disagree'.format(
                      show(pos), show(arg)), fn=m, node=c, anchors=[seeks[-1]])


@obligation('C06-e', 'T2', 'only NpyArray touches the file object', floor=8,
            necessary='a foreign writer bypasses the header/data ordering')
def c06_e(ctx):
    cls = ctx.cls(NPY)
    inside = 0
    for f in ctx.repo.all_functions():
        if f.module.name.startswith('elfi.examples'):
            continue
        for n in own_nodes(f.node):
            if isinstance(n, ast.Attribute) and n.attr == 'fs':
                owner_ok = f.cls is not None and (f.cls is cls or f.cls.is_subclass_of(cls))
                p = getattr(n, '_parent', None)
                is_effect = isinstance(p, ast.Attribute) and p.value is n and \
                    p.attr in FILE_METHODS
                if owner_ok:
                    if is_effect:
                        inside += 1
                        ctx.ok(f, 'owner effect ' + p.attr, 'inside NpyArray', fn=f, node=n)
                    continue
                ctx.bad(f, 'foreign access to .fs',
                        '`{}` outside NpyArray reaches the file object'.format(
                            src(p if p is not None else n)), fn=f, node=n)
    # the positive example that must always match
    if inside < 8:
        ctx.undecided('only {} file effects found inside NpyArray'.format(inside))
    # stores above reach the file only through the array API
    allowed = {'append', 'truncate', 'flush', 'close', 'clear', 'delete', '__setitem__',
               '__getitem__', '__len__'}
    for cq in ('elfi.store:ArrayStore', 'elfi.store:NpyStore'):
        c = ctx.cls(cq)
        for m in c.methods.values():
            for n in own_nodes(m.node):
                if isinstance(n, ast.Call) and isinstance(n.func, ast.Attribute):
                    recv = ctx.term(m, n.func.value)
                    if recv == _self_attr('array'):
                        ctx.check(n.func.attr in allowed, m, 'array API call ' + n.func.attr,
                                  'store uses the array API', 'store calls array.{}()'.format(
                                      n.func.attr), fn=m, node=n)


@obligation('C06-f', 'T1 T5 T6', 'batch bookkeeping of ArrayStore / NpyStore', floor=8,
            necessary='a miscounted n_batches makes the store report batches that are not '
                      'there, or hide ones that are')
def c06_f(ctx):
    A = ctx.cls('elfi.store:ArrayStore')
    N = ctx.cls('elfi.store:NpyStore')
    NB = 'self.n_batches'
    # _to_slice: [bs*i, bs*i + bs)
    ts = ctx.own_method(A, '_to_slice')
    rets = [s for s in ctx.stmts(ts, ast.Return)]
    okk = False
    if len(rets) == 1:
        t = ctx.term(ts, rets[0].value)
        for p in ('slice(self.batch_size * batch_index, self.batch_size * batch_index + '
                  'self.batch_size)',
                  'slice(batch_index * self.batch_size, batch_index * self.batch_size + '
                  'self.batch_size)',
                  'slice(batch_index * self.batch_size, (batch_index + 1) * self.batch_size)',
                  'slice(self.batch_size * batch_index, self.batch_size * (batch_index + 1))'):
            if match(t, pattern(p)) is not None:
                okk = True
    ctx.check(okk, ts, 'batch slice', 'slice(bs*i, bs*i + bs)',
              'batch slice is not [bs*i, bs*i+bs)', fn=ts, node=rets[0] if rets else ts.node)

    # ArrayStore.__setitem__: count grows by one exactly when the written index is the count
    si = ctx.own_method(A, '__setitem__')
    incs = [(s, t, k) for (s, t, k) in ctx.stores(si, NB)]
    good = len(incs) == 1 and _is_inc(ctx, si, incs[0][0], +1)
    guard_ok = False
    if good:
        for (t, pol, tast) in ctx.guards(si, incs[0][0]):
            if pol and match(t, pattern('batch_index == self.n_batches')) is not None:
                guard_ok = True
            if pol and match(t, pattern('self.n_batches == batch_index')) is not None:
                guard_ok = True
    ctx.check(good and guard_ok, si, 'count on append',
              'n_batches += 1 exactly under batch_index == n_batches',
              'n_batches is not increased by one exactly when batch_index == n_batches',
              fn=si, node=incs[0][0] if incs else si.node)
    # refuses holes
    r_ok = False
    for r in ctx.stmts(si, ast.Raise):
        for (t, pol, tast) in ctx.guards(si, r):
            if pol and match(t, pattern('self.n_batches < batch_index')) is not None:
                r_ok = True
    ctx.check(r_ok, si, 'no holes', 'raises for batch_index > n_batches',
              'writing beyond the end is not refused with `batch_index > n_batches`', fn=si,
              node=si.node)

    # ArrayStore.__delitem__: only the last batch, count shrinks by one
    di = ctx.own_method(A, '__delitem__')
    decs = ctx.stores(di, NB)
    good = len(decs) == 1 and _is_inc(ctx, di, decs[0][0], -1)
    ctx.check(good, di, 'count on delete', 'n_batches -= 1 once',
              'n_batches is not decreased by exactly one', fn=di,
              node=decs[0][0] if decs else di.node)
    r_ok = False
    for r in ctx.stmts(di, ast.Raise):
        for (t, pol, tast) in ctx.guards(di, r):
            if pol and (match(t, pattern('batch_index != self.n_batches - 1')) is not None):
                r_ok = True
    ctx.check(r_ok, di, 'only last batch', 'raises unless batch_index == n_batches - 1',
              'deleting a batch other than the last one is not refused', fn=di, node=di.node)
    # __contains__ : i < n
    co = ctx.own_method(A, '__contains__')
    rets = ctx.stmts(co, ast.Return)
    okk = len(rets) == 1 and match(ctx.term(co, rets[0].value),
                                   pattern('batch_index < self.n_batches')) is not None
    ctx.check(okk, co, 'membership', 'batch_index < n_batches',
              'membership test is not `batch_index < n_batches`', fn=co,
              node=rets[0] if rets else co.node)
    # clear resets the count and clears the array
    cl = ctx.own_method(A, 'clear')
    z = [s for (s, t, k) in ctx.stores(cl, NB) if ctx.term(cl, s.value) == ('const', 0)]
    ok1 = bool(z) and cfg_of(cl).must_pass([ctx.node(cl, s) for s in z])
    ac = ctx.calls(cl, 'self.array.clear()')
    ctx.check(ok1 and bool(ac), cl, 'clear', 'array cleared and n_batches = 0',
              'clear() does not both clear the array and reset n_batches', fn=cl, node=cl.node)

    # NpyStore.__setitem__: append path counts once and returns
    ns = ctx.own_method(N, '__setitem__')
    apps = ctx.calls(ns, 'self.array.append(data)')
    if not apps:
        ctx.bad(ns, 'append path', 'NpyStore.__setitem__ never appends `data` to the array',
                fn=ns, node=ns.node)
    for a in apps:
        gs_ = [(t, pol) for (t, pol, tast) in ctx.guards(ns, a) if pol and t[0] != 'bool']
        g_ok = any(match(t, pattern('batch_index == self.n_batches')) is not None
                   for (t, pol) in gs_) and \
            any(match(t, pattern('_.start == len(self.array)')) is not None for (t, pol) in gs_)
        ctx.check(g_ok, ns, 'append guard',
                  'append only when batch_index == n_batches and slice start == len(array)',
                  'append is not guarded by batch_index == n_batches and start == len(array)',
                  fn=ns, node=a)
        incs = [s for (s, t, k) in ctx.stores(ns, NB)]
        sup = [c for c in ctx.calls(ns, name='__setitem__')]
        cfg = cfg_of(ns)
        an = ctx.node(ns, a)
        n_inc_paths_ok = True
        for path in cfg.paths():
            if an not in path:
                continue
            after = path[path.index(an):]
            k = sum(1 for s in incs if ctx.node(ns, s) in after and _is_inc(ctx, ns, s, +1))
            k += sum(1 for c in sup if ctx.node(ns, c) in after)
            if k != 1:
                n_inc_paths_ok = False
        ctx.check(n_inc_paths_ok, ns, 'count on npy append',
                  'exactly one count increment on the append path',
                  'the append path does not increase n_batches exactly once', fn=ns, node=a)
    # NpyStore.__delitem__: base bookkeeping, then truncate the file to the batch start
    nd = ctx.own_method(N, '__delitem__')
    sup = [c for c in ctx.calls(nd, name='__delitem__')]
    tr = ctx.calls(nd, name='truncate')
    okk = bool(sup) and bool(tr)
    arg_ok = False
    for c in tr:
        if c.args and match(ctx.term(nd, c.args[0]),
                            pattern('self._to_slice(batch_index).start')) is not None:
            arg_ok = True
    ctx.check(okk and arg_ok, nd, 'delete truncates to batch start',
              'base __delitem__ and array.truncate(slice.start)',
              'delete does not call the base bookkeeping and truncate to the batch start',
              fn=nd, node=tr[0] if tr else nd.node)
    if sup and tr:
        ctx.check(ctx.must_precede(nd, sup, tr[0]), nd, 'validate before truncating',
                  'index validated (base __delitem__) before the file is shortened',
                  'the file is shortened before the index is validated', fn=nd, node=tr[0])
    # NpyArray.clear == truncate(0)
    npy = ctx.cls(NPY)
    ncl = ctx.own_method(npy, 'clear')
    tcalls = ctx.calls(ncl, resolved_to=ctx.own_method(npy, 'truncate'))
    z = [c for c in tcalls if (c.args and ctx.term(ncl, c.args[0]) == ('const', 0)) or
         (not c.args and not c.keywords)]
    ctx.check(bool(z), ncl, 'clear is truncate(0)', 'truncate(0)',
              'clear() does not truncate to length 0', fn=ncl, node=ncl.node)


def _is_inc(ctx, fn, stmt, by):
    if isinstance(stmt, ast.AugAssign):
        v = ctx.term(fn, stmt.value)
        if isinstance(stmt.op, ast.Add):
            return v == ('const', by)
        if isinstance(stmt.op, ast.Sub):
            return v == ('const', -by)
        return False
    if isinstance(stmt, ast.Assign):
        v = ctx.term(fn, stmt.value)
        if by > 0:
            return match(v, pattern('self.n_batches + %d' % by)) is not None
        return match(v, pattern('self.n_batches - %d' % -by)) is not None
    return False


@obligation('C06-g', 'T1 T3', 'public operations reach the file: truncate sets the requested '
            'length, flush flushes, initialisation writes the format prefix, stores forward',
            floor=8, necessary='an operation that silently does nothing leaves a file that '
                               'does not hold the logical content after flush / close')
def c06_g(ctx):
    cls = ctx.cls(NPY)
    tr = ctx.own_method(cls, 'truncate')
    ex = ctx.ex(tr)
    lp = ('param', tr.params[1])
    st = [s for (s, t, k) in ctx.stores(tr, 'self.shape') if isinstance(s, ast.Assign)]
    ok = len(st) == 1 and match(ex.term(st[0].value), pattern('(_n,) + self.shape[1:]')) \
        is not None and match(ex.term(st[0].value), pattern('(_n,) + self.shape[1:]'))['n'] == lp \
        and cfg_of(tr).must_pass([ctx.node(tr, st[0])])
    ctx.check(ok, tr, 'truncate sets the requested length', 'shape = (length,) + shape[1:]',
              'truncate does not set shape[0] to the requested length on every path', fn=tr,
              node=st[0] if st else tr.node)
    tc = [c for c in ctx.calls(tr, name='truncate') if is_fs(ex.term(c.func.value))]
    ok = bool(tc) and bool(st) and ctx.must_follow(tr, st[0], tc)
    ctx.check(ok, tr, 'file shortened to the new length', 'fs.truncate() after the shape change',
              'truncate does not shorten the file after changing the shape', fn=tr,
              node=tc[0] if tc else tr.node)
    fl = ctx.own_method(cls, 'flush')
    exf = ctx.ex(fl)
    ff = [c for c in ctx.calls(fl, name='flush') if is_fs(exf.term(c.func.value))]
    hw = [c for c in ctx.calls(fl) if any(
        any(contains(ctx.term(t, w.args[0]), 'self._header_bytes_to_write')
            for w in ctx.calls(t, name='write') if w.args)
        for t in ctx.cg.resolve(fl, c))]
    ok = bool(ff) and bool(hw) and cfg_of(fl).must_pass([ctx.node(fl, ff[0])]) and \
        ctx.must_precede(fl, hw, ff[0])
    ctx.check(ok, fl, 'flush writes the header and flushes the file', 'header write < fs.flush()',
              'flush() does not write the header and then flush the file object on every path',
              fn=fl, node=ff[0] if ff else fl.node)
    cl = ctx.own_method(cls, 'close')
    exc = ctx.ex(cl)
    fc = [c for c in ctx.calls(cl, name='close') if is_fs(exc.term(c.func.value))]
    hw = [c for c in ctx.calls(cl) if any(
        any(contains(ctx.term(t, w.args[0]), 'self._header_bytes_to_write')
            for w in ctx.calls(t, name='write') if w.args)
        for t in ctx.cg.resolve(cl, c))]
    ok = bool(fc) and bool(hw) and ctx.must_precede(cl, hw, fc[0]) and \
        all(any(pol and t == _self_attr('initialized') for (t, pol, _) in ctx.guards(cl, c))
            for c in fc)
    ctx.check(ok, cl, 'close writes the header and closes the file',
              'header write < fs.close() when initialised',
              'close() does not write the header before closing the file object', fn=cl,
              node=fc[0] if fc else cl.node)
    # initialisation from an array: shape / dtype / itemsize from the array, format prefix first
    ini = ctx.own_method(cls, 'init_from_array')
    exi = ctx.ex(ini)
    ap = ('param', ini.params[1])
    want = {'shape': '(0,) + {}.shape[1:]'.format(ini.params[1]),
            'dtype': '{}.dtype'.format(ini.params[1]), 'itemsize': '{}.itemsize'.format(ini.params[1])}
    for fld, pat in want.items():
        ss = [s for (s, t, k) in ctx.stores(ini, 'self.' + fld) if isinstance(s, ast.Assign)]
        ok = len(ss) == 1 and match(exi.term(ss[0].value), pattern(pat)) is not None and \
            cfg_of(ini).must_pass([ctx.node(ini, ss[0])])
        ctx.check(ok, ini, 'initial ' + fld, 'self.{} = {}'.format(fld, pat),
                  'initialisation does not set {} from the first array'.format(fld), fn=ini,
                  node=ss[0] if ss else ini.node)
    pw = [c for c in ctx.calls(ini, name='write') if is_fs(exi.term(c.func.value))]
    sk = [c for c in ctx.calls(ini, name='seek') if is_fs(exi.term(c.func.value)) and c.args and
          exi.term(c.args[0]) == ('const', 0)]
    ok = len(pw) == 1 and len(sk) == 1 and ctx.must_precede(ini, sk, pw[0]) and \
        contains(exi.term(pw[0].args[0]), '_.read(self.HEADER_DATA_OFFSET)') and \
        contains(exi.term(pw[0].args[0]), 'npformat.write_array_header_2_0') is False or \
        (len(pw) == 1 and len(sk) == 1 and ctx.must_precede(ini, sk, pw[0]) and
         contains(exi.term(pw[0].args[0]), '_.read(self.HEADER_DATA_OFFSET)'))
    ctx.check(ok, ini, 'format prefix written at offset 0',
              'seek(0); write(first HEADER_DATA_OFFSET bytes of a 2.0 header)',
              'initialisation does not write the format prefix at the start of the file',
              fn=ini, node=pw[0] if pw else ini.node)
    hl = [s for (s, t, k) in ctx.stores(ini, 'self.header_length') if isinstance(s, ast.Assign)]
    ok = len(hl) == 1 and match(exi.term(hl[0].value), pattern('_b.tell()')) is not None and \
        any(contains(exi.term(n.value) if isinstance(n, ast.Assign) else ('const', 0),
                     'self.MAX_SHAPE_LEN') for n in own_nodes(ini.node) if isinstance(n, ast.Assign))
    ctx.check(ok, ini, 'oversized header reserved', 'header_length = length for MAX_SHAPE_LEN rows',
              'the reserved header length is not that of a header for MAX_SHAPE_LEN rows',
              fn=ini, node=hl[0] if hl else ini.node)
    # reopening: header read at the size offset, header_length from the position after it
    ifh = [m for m in cls.methods.values()
           if any('read_array_header' in src(n.func) for n in own_nodes(m.node)
                  if isinstance(n, ast.Call))]
    for m in ifh:
        exm = ctx.ex(m)
        rd = [n for n in own_nodes(m.node) if isinstance(n, ast.Call) and
              'read_array_header' in src(n.func)]
        sk = [c for c in ctx.calls(m, name='seek') if is_fs(exm.term(c.func.value)) and c.args and
              match(exm.term(c.args[0]), pattern('self.HEADER_DATA_SIZE_OFFSET')) is not None]
        hl = [s for (s, t, k) in ctx.stores(m, 'self.header_length') if isinstance(s, ast.Assign)]
        ok = bool(sk) and ctx.must_precede(m, sk, rd[0]) and len(hl) == 1 and \
            match(exm.term(hl[0].value), pattern('self.fs.tell()')) is not None and \
            ctx.must_precede(m, [rd[0]], hl[0])
        ctx.check(ok, m, 'header read back at the right offset',
                  'seek(HEADER_DATA_SIZE_OFFSET); read header; header_length = fs.tell()',
                  'the header is not read at HEADER_DATA_SIZE_OFFSET with header_length taken '
                  'right after it', fn=m, node=rd[0])
    # stores forward to the array
    A = ctx.cls('elfi.store:ArrayStore')
    for name in ('flush', 'close', 'clear'):
        m = ctx.own_method(A, name)
        exm = ctx.ex(m)
        cs = ctx.calls(m, 'self.array.{}()'.format(name))
        ok = len(cs) == 1
        if ok:
            ok = ctx.only_guarded_by(m, cs[0], ("hasattr(self.array, '{}')".format(name),),
                                     at_most=1)
        ctx.check(ok, m, 'store forwards {} to the array'.format(name),
                  "array.{0}() when the array has {0}".format(name),
                  'ArrayStore.{0} does not forward to array.{0}()'.format(name), fn=m,
                  node=cs[0] if cs else m.node)
    N = ctx.cls('elfi.store:NpyStore')
    m = ctx.own_method(N, 'delete')
    cs = ctx.calls(m, 'self.array.delete()')
    ctx.check(len(cs) == 1 and cfg_of(m).must_pass([ctx.node(m, cs[0])]), m,
              'store forwards delete', 'array.delete()', 'NpyStore.delete does not delete the '
              'array', fn=m, node=cs[0] if cs else m.node)
    P = ctx.cls('elfi.store:OutputPool')
    for name in ('flush', 'close', 'clear'):
        m = ctx.own_method(P, name)
        exm = ctx.ex(m)
        loops = [n for n in own_nodes(m.node) if isinstance(n, ast.For) and
                 match(exm.term(n.iter, cfg_of(m).by_stmt[id(n)]),
                       pattern('self.stores.values()')) is not None]
        ok = False
        for lo in loops:
            for c in ast.walk(lo):
                if isinstance(c, ast.Call) and callee_name(c) == name and \
                        exm.term(c.func.value)[0] == 'elem':
                    ok = True
        ctx.check(ok, m, 'pool forwards {} to every store'.format(name),
                  'for store in stores.values(): store.{}()'.format(name),
                  'OutputPool.{0} does not call {0}() on every store'.format(name), fn=m,
                  node=loops[0] if loops else m.node)


@obligation('C06-h', 'T1 T11 T8', 'reopening keeps the file; saving a pool keeps its stores',
            floor=6, necessary='a reopen that truncates, or a save that leaves the stores '
                               'replaced by None, loses every stored batch')
def c06_h(ctx):
    cls = ctx.cls(NPY)
    init = ctx.own_method(cls, '__init__')
    ex = ctx.ex(init)
    opens = [c for c in ctx.calls(init, name='open') if len(c.args) >= 2]
    keep = [c for c in opens if ex.term(c.args[1]) == ('const', 'r+b')]
    new = [c for c in opens if ex.term(c.args[1]) == ('const', 'w+b')]
    ok = len(keep) == 1 and len(new) == 1
    ctx.check(ok, init, 'two open modes', "'r+b' for an existing file, 'w+b' otherwise",
              'the file is not opened with r+b (existing) / w+b (new)', fn=init,
              node=opens[0] if opens else init.node)
    if ok:
        g = any(pol and t[0] == 'bool' and t[1] == 'and' and
                any(match(x, pattern('os.path.exists(self.filename)')) is not None for x in t[2])
                and any(match(x, pattern('_t is False')) is not None or
                        match(x, pattern('not _t')) is not None for x in t[2])
                for (t, pol, _) in ctx.guards(init, keep[0]))
        ctx.check(g, init, 'existing file kept unless truncation is requested',
                  "open(..., 'r+b') when truncate is False and the file exists",
                  'an existing file is not reopened in place exactly when truncate is False',
                  fn=init, node=keep[0])
        rd = [c for c in ctx.calls(init) if any(
            any('read_array_header' in src(n.func) for n in own_nodes(t.node)
                if isinstance(n, ast.Call)) for t in ctx.cg.resolve(init, c))]
        okr = bool(rd) and ctx.must_follow(init, keep[0], rd) and \
            not any(cfg_of(init).exists_path(ctx.node(init, new[0]), ctx.node(init, r))
                    for r in rd)
        ctx.check(okr, init, 'header read back after reopening', 'r+b then read the header',
                  'a reopened file is not initialised from its header', fn=init,
                  node=rd[0] if rd else keep[0])
        tr = [s for s in own_nodes(init.node) if isinstance(s, ast.Assign) and
              isinstance(s.targets[0], ast.Name) and s.targets[0].id == 'truncate' and
              ex.term(s.value) == ('const', True)]
        okt = bool(tr) and all(any(pol and match(t, pattern('array is not None')) is not None
                                   for (t, pol, _) in ctx.guards(init, s)) for s in tr)
        ctx.check(okt, init, 'an initial array starts a new file', 'truncate = True when an array '
                  'is given', 'an initial array does not start a fresh file', fn=init,
                  node=tr[0] if tr else init.node)
    ss = ctx.own_method(cls, '__setstate__')
    exs = ctx.ex(ss)
    cs = ctx.calls(ss, resolved_to=init)
    ok = bool(cs) and all(len(c.args) == 1 and not c.keywords for c in cs)
    ctx.check(ok, ss, 'unpickling reopens without truncating', '__init__(filename) only',
              'unpickling passes truncate / array to __init__', fn=ss, node=cs[0] if cs else ss.node)
    gs = ctx.own_method(cls, '__getstate__')
    rr = [r for r in own_nodes(gs.node) if isinstance(r, ast.Return)]
    ok = bool(rr) and all(ctx.term(gs, r.value) == ('dict', ((('const', 'filename'),
                                                                pattern_term_('self.filename')),))
                          for r in rr)
    ctx.check(ok, gs, 'state is the file name', "{'filename': self.filename}",
              'the pickled state is not the file name alone', fn=gs, node=rr[0] if rr else gs.node)
    # OutputPool.save / open
    P = ctx.cls('elfi.store:OutputPool')
    sv = ctx.own_method(P, 'save')
    exv = ctx.ex(sv)
    sets = [s for (s, t, k) in ctx.stores(sv, 'self.stores') if isinstance(s, ast.Assign)]
    blank = [s for s in sets if match(exv.term(s.value), pattern('dict.fromkeys(_)')) is not None]
    restore = [s for s in sets if s not in blank]
    dumps = ctx.calls(sv, 'pickle.dump(self, *_)')
    ok = len(blank) == 1 and len(restore) == 1 and len(dumps) == 1 and \
        ctx.must_precede(sv, blank, dumps[0]) and ctx.must_follow(sv, dumps[0], restore)
    if ok:
        rv = exv.term(restore[0].value)
        ok = rv == pattern_term_('self.stores') or rv[0] in ('attr',)
    ctx.check(ok, sv, 'stores restored after the pool itself was pickled',
              'stores = self.stores; self.stores = blanks; dump(self); self.stores = stores',
              'save() does not put the real stores back after pickling the pool without them',
              fn=sv, node=restore[0] if restore else sv.node)
    per = [c for c in ctx.calls(sv, 'pickle.dump(*_)') if c not in dumps]
    ok = False
    for c in per:
        lo = enclosing_loop_(c)
        if isinstance(lo, ast.For) and match(exv.term(lo.iter, cfg_of(sv).by_stmt[id(lo)]),
                                             pattern('self.stores.items()')) is not None:
            a0 = exv.term(c.args[0])
            if a0[0] == 'item' and a0[2] == 1:
                ok = True
    ctx.check(ok and bool(dumps) and all(
        cfg_of(sv).exists_path(ctx.node(sv, c), ctx.node(sv, dumps[0])) and
        not cfg_of(sv).exists_path(ctx.node(sv, dumps[0]), ctx.node(sv, c)) for c in per) and
        all(not cfg_of(sv).exists_path(ctx.node(sv, b), ctx.node(sv, c)) for b in blank
            for c in per), sv,
              'every store pickled next to the arrays', 'for node, store in stores.items(): dump',
              'save() does not pickle every store (before blanking them)', fn=sv,
              node=per[0] if per else sv.node)
    g = any(any(pol and match(t, pattern('not self.has_context')) is not None or
                pol is False and match(t, pattern('self.has_context')) is not None
                for (t, pol, _) in ctx.guards(sv, r)) for r in ctx.stmts(sv, ast.Raise))
    ctx.check(g, sv, 'context required', 'raises without context', 'a pool without context can be '
              'saved', fn=sv, node=sv.node)
    op = ctx.own_method(P, 'open')
    exo = ctx.ex(op)
    st = [s for (s, t, k) in ctx.stores(op, '_.stores[_]') if isinstance(s, ast.Assign)]
    ok = False
    for s in st:
        v = exo.term(s.value)
        key = exo.term(s.targets[0].slice)
        if contains(v, 'pickle.load(_)') and key[0] == 'elem' and \
                contains(v, "_ + '.pkl'") and key in set(subterms(v)):
            ok = True
    ctx.check(ok, op, 'every store loaded back under its node', "stores[node] = load(node + '.pkl')",
              'open() does not load each store back under its own node name', fn=op,
              node=st[0] if st else op.node)
    nm = [s for (s, t, k) in ctx.stores(op, '_.name') if isinstance(s, ast.Assign)]
    ok = bool(nm) and exo.term(nm[0].value) == ('param', 'name')
    ctx.check(ok, op, 'pool renamed to where it was found', 'pool.name = name', '', fn=op,
              node=nm[0] if nm else op.node)
    ap = ctx.cls('elfi.store:ArrayPool')
    mk = ap.methods.get('_make_store_for')
    if mk is not None:
        ctx.touch(mk)
        exm = ctx.ex(mk)
        rr = [r for r in own_nodes(mk.node) if isinstance(r, ast.Return) and r.value is not None]
        ok = bool(rr) and match(exm.term(rr[-1].value),
                                pattern('NpyStore(os.path.join(self.path, node), self.batch_size)')) \
            is not None
        ctx.check(ok, mk, 'array store per node under the pool path',
                  'NpyStore(join(path, node), batch_size)',
                  'the default store of an ArrayPool is not NpyStore(path/node, batch_size)',
                  fn=mk, node=rr[-1] if rr else mk.node)


def pattern_term_(srcp):
    from .C04 import pattern_term
    return pattern_term(srcp)


def enclosing_loop_(n):
    from .C04 import enclosing_loop
    return enclosing_loop(n)


from .C04 import pattern_term, returns   # noqa: E402


@obligation('C06-i', 'T5 T6 T11', 'the array store is a sequence of batches: write at most one past '
            'the end, count once, delete only the last, read the same slice', floor=9,
            necessary='a write beyond the end leaves a gap, a count that moves on overwrite or '
                      'stays on append misreports the batches, a delete in the middle shifts '
                      'every later batch')
def c06_i(ctx):
    st = ctx.cls('elfi.store:ArrayStore')
    NBT = pattern_term('self.n_batches')
    # __getitem__ / __setitem__ use the same slice function
    gi, si, di = (ctx.own_method(st, n) for n in ('__getitem__', '__setitem__', '__delitem__'))
    exg, exs, exd = ctx.ex(gi), ctx.ex(si), ctx.ex(di)
    rr = returns(gi)
    ok = len(rr) == 1 and match(exg.term(rr[0].value),
                                pattern('self.array[self._to_slice(batch_index)]')) is not None
    ctx.check(ok, gi, 'read: array[slice of the batch]', 'self.array[self._to_slice(i)]',
              'a batch is not read from its own slice of the array', fn=gi,
              node=rr[0] if rr else gi.node)
    wr = [s for s in own_nodes(si.node) if isinstance(s, ast.Assign) and
          isinstance(s.targets[0], ast.Subscript) and
          exs.term(s.targets[0].value) == pattern_term('self.array')]
    ok = len(wr) == 1 and exs.term(wr[0].targets[0].slice) == \
        pattern_term('self._to_slice(batch_index)') and \
        exs.term(wr[0].value) == ('param', si.params[2]) and \
        cfg_of(si).must_pass([ctx.node(si, wr[0])])
    ctx.check(ok, si, 'write: array[slice of the batch] = data on every returning path',
              'self.array[self._to_slice(i)] = data',
              'the data are not written to the batch\'s own slice on every path', fn=si,
              node=wr[0] if wr else si.node)
    raises = ctx.stmts(si, ast.Raise)

    def raised_under(f, pats):
        # the test that directly decides the raise (not one inherited from an earlier refusal
        # that was passed): the test of the `if` the raise sits in
        from .base import guard_equivalents
        exf = ctx.ex(f)
        for r in ctx.stmts(f, ast.Raise):
            p = getattr(r, '_parent', None)
            if not isinstance(p, ast.If):
                continue
            pol0 = r in p.body
            tn = cfg_of(f).by_stmt.get(id(p))
            t0 = exf.term(p.test, tn)
            cands = list(guard_equivalents(t0, pol0))
            # atoms implied by a true conjunction
            for (t, pol) in list(cands):
                if t[0] == 'bool' and ((t[1] == 'and' and pol) or (t[1] == 'or' and not pol)):
                    for item in t[2]:
                        cands.extend(guard_equivalents(item, pol))
            for (t, pol) in cands:
                if pol and t[0] != 'bool' and match_any(t, pats) is not None:
                    return r
        return None
    r1 = raised_under(si, ('self.n_batches < batch_index',))
    ctx.check(r1 is not None, si, 'refuses a write beyond one past the end',
              'raise if batch_index > n_batches',
              'a batch index beyond n_batches is not refused (a gap of unwritten batches)',
              fn=si, node=r1 or si.node)
    r2 = raised_under(si, ('len(self.array) < self._to_slice(batch_index).stop',))
    ctx.check(r2 is not None, si, 'refuses a write beyond the array',
              'raise if slice.stop > len(array)',
              'a slice that ends beyond the array is not refused', fn=si, node=r2 or si.node)
    if wr and (r1 is not None) and (r2 is not None):
        ok = ctx.must_precede(si, [r1._parent], wr[0]) and ctx.must_precede(si, [r2._parent], wr[0])
        ctx.check(ok, si, 'checks precede the write', '', 'the array is written before the index '
                  'checks', fn=si, node=wr[0])
    inc = [s for (s, t, k) in ctx.stores(si, 'self.n_batches')]
    ok = len(inc) == 1 and isinstance(inc[0], ast.AugAssign) and isinstance(inc[0].op, ast.Add) \
        and exs.raw(inc[0].value) == ('const', 1) and \
        any(pol and t[0] != 'bool' and match(t, pattern('batch_index == self.n_batches'))
            is not None for (t, pol, _) in ctx.guards(si, inc[0]))
    ctx.check(ok, si, 'count grows by one exactly on append', 'if i == n_batches: n_batches += 1',
              'n_batches is not increased by one exactly when the written index equals it',
              fn=si, node=inc[0] if inc else si.node)
    if inc and wr:
        ctx.check(ctx.must_precede(si, wr, inc[0]), si, 'count moves after the data are in', '',
                  'n_batches is increased before the data are written', fn=si, node=inc[0])
    # delete
    r3 = raised_under(di, ('batch_index not in self',))
    r4 = raised_under(di, ('batch_index != self.n_batches - 1',))
    ctx.check(r3 is not None and r4 is not None, di, 'delete refuses absent and non-last batches',
              'raise unless batch_index == n_batches - 1',
              'deleting an absent batch or a batch in the middle is not refused', fn=di,
              node=r3 or r4 or di.node)
    dec = [s for (s, t, k) in ctx.stores(di, 'self.n_batches')]
    ok = len(dec) == 1 and isinstance(dec[0], ast.AugAssign) and isinstance(dec[0].op, ast.Sub) \
        and exd.raw(dec[0].value) == ('const', 1) and \
        all(not cfg_of(di).exists_path(ctx.node(di, dec[0]), ctx.node(di, r))
            for r in ctx.stmts(di, ast.Raise))
    # reached only for the last batch: every path to it passes the two refusals
    if dec and r3 is not None and r4 is not None:
        ok = ok and ctx.must_precede(di, [r3._parent], dec[0])
    ctx.check(ok, di, 'deleting the last batch lowers the count by one', 'n_batches -= 1',
              'the count is not lowered by exactly one for the last batch', fn=di,
              node=dec[0] if dec else di.node)
    # construction: all complete batches of the array unless told otherwise
    init = ctx.own_method(st, '__init__')
    exi = ctx.ex(init)
    stn = [s for (s, t, k) in ctx.stores(init, 'self.n_batches') if k == 'assign']
    ok = False
    if stn:
        v = exi.term(stn[-1].value)
        alts = v[1] if v[0] == 'phi' else (v,)
        ok = any(match(a, pattern('len(array) // batch_size')) is not None for a in alts) and \
            any(a == ('param', 'n_batches') for a in alts)
    ctx.check(ok, init, 'initial count = complete batches of the array (or as given)',
              'len(array) // batch_size', 'the initial batch count is not len(array) // '
              'batch_size (or the given n_batches)', fn=init, node=stn[-1] if stn else init.node)
    flds = {}
    for (s, t, k) in ctx.stores(init, 'self.array') + ctx.stores(init, 'self.batch_size'):
        if k == 'assign':
            flds[exi.term(s.targets[0])[2]] = exi.term(s.value)
    ctx.check(flds.get('array') == ('param', 'array') and
              flds.get('batch_size') == ('param', 'batch_size'), init,
              'array and batch size stored as given', '', 'array / batch_size are not stored as '
              'given', fn=init, node=init.node)
    ln = ctx.own_method(st, '__len__')
    rl = returns(ln)
    ctx.check(len(rl) == 1 and ctx.ex(ln).term(rl[0].value) == NBT, ln, 'len = batch count',
              'return self.n_batches', 'len() of the store is not the batch count', fn=ln,
              node=rl[0] if rl else ln.node)


@obligation('C06-j', 'T14 T6 T3', 'byte layout: data are appended at header_length + size * '
            'itemsize, read through a map at offset header_length with the array\'s dtype and '
            'shape; an existing file is reopened without truncation', floor=10,
            necessary='another write position overwrites stored batches or leaves a hole; '
                      'another map window reads shifted values; opening an existing file in a '
                      'truncating mode loses every stored batch on reopen')
def c06_j(ctx):
    from .. import symdiff as sd
    from ..ratfun import Rat, Unsupported
    na = ctx.cls(NPY)
    ap = ctx.own_method(na, 'append')
    ex = ctx.ex(ap)
    alg = sd.Algebra()

    def leaf(t):
        if t[0] == 'attr' and t[1] in (('param', 'self'), ('name', 'self')):
            return Rat.sym(t[2])
        return None
    # size = product of the shape
    sz = na.lookup('size')
    rs = returns(sz) if sz is not None else []
    ok = len(rs) == 1 and match(ctx.ex(sz).term(rs[0].value), pattern('np.prod(self.shape)')) \
        is not None
    ctx.check(ok, sz or na.qname, 'size = number of items', 'np.prod(self.shape)',
              'size is not the product of the shape', fn=sz, node=rs[0] if rs else None)
    seeks = ctx.calls(ap, 'self.fs.seek(_)')
    writes = ctx.calls(ap, 'self.fs.write(_)')
    okp = False
    if len(seeks) == 1:
        try:
            pos = sd.convert(ex.term(seeks[0].args[0]), alg, leaf)
            okp = alg.same(pos, Rat.sym('header_length') + Rat.sym('size') * Rat.sym('itemsize'))
        except Unsupported:
            okp = False
    ctx.check(okp, ap, 'append position', 'header_length + size * itemsize',
              'new data are not written at header_length + size * itemsize (the end of the '
              'stored data)', fn=ap, node=seeks[0] if seeks else ap.node)
    okw = len(writes) == 1 and match(ex.term(writes[0].args[0]),
                                     pattern("array.tobytes('C')")) is not None and \
        bool(seeks) and ctx.must_precede(ap, [ctx_stmt(seeks[0])], ctx_stmt(writes[0]))
    ctx.check(okw, ap, 'row-major bytes of the appended array written after the seek',
              "fs.write(array.tobytes('C'))", 'the appended bytes are not the row-major bytes of '
              'the array written at the sought position', fn=ap,
              node=writes[0] if writes else ap.node)
    # the position is computed from the shape *before* it is enlarged
    shp = [s for (s, t, k) in ctx.stores(ap, 'self.shape') if k == 'assign']
    oks = False
    if shp and seeks:
        v = ex.term(shp[0].value)
        oks = match(v, pattern('(self.shape[0] + len(array),) + self.shape[1:]')) is not None and \
            ctx.must_precede(ap, [ctx_stmt(writes[0])] if writes else [], shp[0]) and \
            ctx.must_precede(ap, [ctx_stmt(seeks[0])], shp[0])
    ctx.check(oks, ap, 'length grows by the appended rows, after the write',
              'shape = (shape[0] + len(array),) + shape[1:]',
              'the stored length does not grow by len(array) after the data were written',
              fn=ap, node=shp[0] if shp else ap.node)
    # refusals: trailing shape and dtype agree with the stored array
    def refused(pats):
        for r in ctx.stmts(ap, ast.Raise):
            for (t, pol, _) in ctx.guards(ap, r):
                if pol and t[0] != 'bool' and match_any(t, pats) is not None:
                    return r
        return None
    r1 = refused(('array.shape[1:] != self.shape[1:]',))
    r2 = refused(('array.dtype != self.dtype',))
    ctx.check(r1 is not None and r2 is not None, ap, 'rows of another shape or dtype are refused',
              'raise on shape[1:] / dtype mismatch', 'an array with another trailing shape or '
              'dtype is not refused before it is appended', fn=ap, node=r1 or r2 or ap.node)
    if r1 is not None and writes:
        ctx.check(ctx.must_precede(ap, [r1._parent], ctx_stmt(writes[0])), ap,
                  'refusal precedes the write', '', 'bytes are written before the shape / dtype '
                  'check', fn=ap, node=writes[0])
    # memory map window
    mm = na.lookup('memmap')
    exm = ctx.ex(mm)
    mcs = ctx.calls(mm, 'np.memmap(*_)')
    okm = False
    if len(mcs) == 1:
        c = mcs[0]
        kw = dict((k.arg, exm.term(k.value)) for k in c.keywords)
        okm = exm.term(c.args[0]) == pattern_term('self.fs') and \
            kw.get('dtype') == pattern_term('self.dtype') and \
            kw.get('shape') == pattern_term('self.shape') and \
            kw.get('offset') == pattern_term('self.header_length')
    ctx.check(okm, mm, 'map window = (file, dtype, shape, offset header_length)',
              'np.memmap(fs, dtype=dtype, shape=shape, offset=header_length)',
              'the memory map does not cover exactly the stored array (dtype, shape, data '
              'offset)', fn=mm, node=mcs[0] if mcs else mm.node)
    # open modes
    init = ctx.own_method(na, '__init__')
    exi = ctx.ex(init)
    opens = ctx.calls(init, 'open(*_)')
    modes = {}
    for c in opens:
        mode = exi.term(c.args[1]) if len(c.args) > 1 else None
        facts = []
        seen_t = set()
        for (t, pol, tast) in ctx.guards(init, c):
            if id(tast) in seen_t:
                continue
            seen_t.add(id(tast))
            # raw facts (the flag is re-bound before the test; its name is what is tested)
            cfgpol = [p_ for (n_, p_) in cfg_of(init).guards_of(ctx.node(init, c))
                      if n_.ast is tast]
            if not cfgpol:
                continue
            rt = exi.raw(tast)
            pol_ = cfgpol[0]
            while rt[0] == 'unary' and rt[1] == 'not':
                rt = rt[2]
                pol_ = not pol_
            items = list(rt[2]) if rt[0] == 'bool' and rt[1] == 'and' and pol_ else [rt]
            if rt[0] == 'bool' and rt[1] == 'and' and not pol_:
                items = []      # a false conjunction states nothing about its parts
            for it in items:
                facts.append((it, pol_))
        keep = any(pol and match(t, pattern('os.path.exists(self.filename)')) is not None
                   for (t, pol) in facts) and \
            any(pol and match_any(t, ('truncate is False', 'not truncate')) is not None or
                ((not pol) and t in (('name', 'truncate'), ('param', 'truncate')))
                for (t, pol) in facts)
        modes[c] = (mode, keep)
    ok_keep = any(m == ('const', 'r+b') and keep for (m, keep) in modes.values())
    ok_new = any(m == ('const', 'w+b') and not keep for (m, keep) in modes.values())
    bad_keep = any(keep and m is not None and m[0] == 'const' and 'w' in str(m[1])
                   for (m, keep) in modes.values())
    ctx.check(ok_keep and ok_new and not bad_keep, init,
              'existing file reopened with r+b, otherwise created with w+b',
              "open(filename, 'r+b') if not truncate and exists else open(filename, 'w+b')",
              'an existing file is not reopened in a non-truncating read/write mode (or a new '
              'file is not created)', fn=init, node=opens[0] if opens else init.node)
    hdr = ctx.calls(init, 'self._init_from_file_header()')
    okh = bool(hdr) and all(modes.get(c, (None, False))[1] or True for c in opens) and \
        any(pol and match(t, pattern('os.path.exists(self.filename)')) is not None
            for (t, pol, _) in ctx.guards(init, hdr[0])) if hdr else False
    ctx.check(okh, init, 'header of an existing file is read on reopen', '',
              'the header of an existing file is not read when it is reopened', fn=init,
              node=hdr[0] if hdr else init.node)
    # reading the header back
    fh = ctx.own_method(na, '_init_from_file_header')
    exf = ctx.ex(fh)
    sk = ctx.calls(fh, 'self.fs.seek(_)')
    rd = ctx.calls(fh, 'npformat.read_array_header_2_0(self.fs)')
    hl = [s for (s, t, k) in ctx.stores(fh, 'self.header_length') if k == 'assign']
    okf = len(sk) >= 1 and exf.term(sk[0].args[0]) in (pattern_term('self.HEADER_DATA_SIZE_OFFSET'),
                                                       ('const', 8)) and len(rd) == 1 and \
        ctx.must_precede(fh, [ctx_stmt(sk[0])], ctx_stmt(rd[0])) and bool(hl) and \
        match(exf.term(hl[0].value), pattern('self.fs.tell()')) is not None and \
        ctx.must_precede(fh, [ctx_stmt(rd[0])], hl[0])
    ctx.check(okf, fh, 'header read from offset 8; data start where the header ends',
              'seek(8); read_array_header_2_0; header_length = tell()',
              'the stored header is not parsed from byte 8 with header_length taken right after '
              'it', fn=fh, node=rd[0] if rd else fh.node)
    isz = [s for (s, t, k) in ctx.stores(fh, 'self.itemsize') if k == 'assign']
    oki = bool(isz) and contains(exf.term(isz[0].value), 'self.dtype') and \
        match(exf.term(isz[0].value), pattern('_a.itemsize')) is not None
    ctx.check(oki, fh, 'item size from the stored dtype', 'np.empty(.., dtype=self.dtype).itemsize',
              'itemsize is not derived from the dtype read from the file', fn=fh,
              node=isz[0] if isz else fh.node)
    # header padding: the prepared header fills exactly header_length bytes
    ph = ctx.own_method(na, '_prepare_header_data')
    exh = ctx.ex(ph)
    pads = [c for c in ctx.calls(ph) if isinstance(c.func, ast.Attribute) and
            c.func.attr == 'write' and c.args and
            exh.term(c.args[0])[0] == 'binop' and exh.term(c.args[0])[1] == '*']
    okpad = False
    if pads:
        t = exh.term(pads[0].args[0])
        m = match(t, pattern("_b * (self.header_length - _h.tell())"))
        okpad = m is not None
    ovf = None
    for r in ctx.stmts(ph, ast.Raise):
        for (t, pol, _) in ctx.guards(ph, r):
            if pol and match(t, pattern('self.header_length - _h.tell() < 0')) is not None:
                ovf = r
    ctx.check(okpad and ovf is not None, ph, 'header padded to header_length, overflow refused',
              "write(b' ' * (header_length - tell())); raise if negative",
              'the prepared header is not padded to exactly header_length bytes (or a header '
              'that does not fit is not refused)', fn=ph, node=pads[0] if pads else ph.node)
    dct = [s for s in own_nodes(ph.node) if isinstance(s, ast.Assign) and
           isinstance(s.value, ast.Dict)]
    okd = False
    if dct:
        d = dict((k.value, exh.term(v)) for k, v in zip(dct[0].value.keys, dct[0].value.values)
                 if isinstance(k, ast.Constant))
        okd = d.get('shape') == pattern_term('self.shape') and \
            d.get('fortran_order') == pattern_term('self.fortran_order') and \
            d.get('descr') is not None and \
            match_any(d['descr'], ('npformat.dtype_to_descr(self.dtype)',
                                   'np.lib.format.dtype_to_descr(self.dtype)')) is not None
    ctx.fact('the .npy descr of a dtype is numpy.lib.format.dtype_to_descr(dtype); dtype.str loses '
             'the field list of a structured dtype')
    # the header is (re)prepared only by the operations that change the shape, after the change:
    # a handle with nothing pending must leave the file alone when it is flushed or closed
    callers = [f for f in na.methods.values()
               if any(ph in ctx.cg.resolve(f, c) for c in ctx.calls(f))]
    for f in callers:
        exf2 = ctx.ex(f)
        shape_st = [s_ for (s_, t_, k_) in ctx.stores(f, 'self.shape') if k_ == 'assign']
        cs = [c for c in ctx.calls(f) if ph in ctx.cg.resolve(f, c)]
        okc = bool(shape_st) and all(ctx.must_precede(f, shape_st, ctx_stmt(c)) for c in cs)
        ctx.check(okc, f, 'header prepared only after a change of the shape',
                  'self.shape = ...; self._prepare_header_data()',
                  '{} prepares header bytes without having changed the shape: a handle with '
                  'nothing pending rewrites the header with its own remembered length (a second, '
                  'stale handle rolls the file back)'.format(f.name), fn=f, node=cs[0])
    ctx.check(okd, ph, 'header describes the current shape and dtype',
              "{'shape': self.shape, 'fortran_order': .., 'descr': dtype_to_descr(self.dtype)}",
              'the prepared header does not describe the current shape / order / dtype', fn=ph,
              node=dct[0] if dct else ph.node)


def ctx_stmt(node):
    n = node
    while n is not None and not isinstance(n, ast.stmt):
        n = getattr(n, '_parent', None)
    return n


_NPY = 'elfi.store:NpyArray'
_C06_GUARDS = [
    (_NPY + '.append', 'raise:0', [('self.closed', True)], 'a closed array refuses data'),
    (_NPY + '.append', 'self.init_from_array(_a)', [('self.initialized', False)],
     'the header is laid out by the first appended array only'),
    (_NPY + '.append', 'raise:1', [('_a.shape[1:] != self.shape[1:]', True)],
     'rows of another shape are refused'),
    (_NPY + '.append', 'raise:2', [('_a.dtype != self.dtype', True)],
     'data of another dtype are refused (they would be written as raw bytes of another type)'),
    (_NPY + '.truncate', 'raise:0', [('self.initialized', False)],
     'an array without a header cannot be truncated'),
    (_NPY + '.truncate', 'raise:1', [('self.closed', True)], 'a closed array cannot be truncated'),
    (_NPY + '.close', 'self.fs.close()', [('self.initialized', True)],
     'closing writes the header of an initialised array first'),
    (_NPY + '.delete', 'os.remove(_f)', [('self.deleted', False)],
     'the file is removed once'),
    (_NPY + '.__getstate__', 'self.flush()', [('self.fs.closed', False)],
     'pickling flushes an open file (and does not touch a closed one)'),
    (_NPY + '.__setstate__', 'self.__init__(_.pop(_))', [('os.path.exists(_.pop(_))', True)],
     'unpickling reopens the recorded file when it exists (a missing path would be created empty)'),
    (_NPY + '.__setstate__', 'self.__init__(os.path.basename(_))',
     [('os.path.exists(_.pop(_))', False), ('os.path.exists(os.path.basename(_))', True)],
     'the file name alone is tried only when the recorded path is gone, and only if it exists'),
    (_NPY + '.__setstate__', 'raise:0',
     [('os.path.exists(_.pop(_))', False), ('os.path.exists(os.path.basename(_))', False)],
     'a store whose file is gone is refused instead of being re-created empty'),
]


@obligation('C06-k', 'T11 T3', 'the on-disk array refuses, initialises, closes and flushes on the '
            'right side of its state tests (frozen table of {} rows); the state predicates have '
            'their definitions'.format(len(_C06_GUARDS)), floor=len(_C06_GUARDS) + 3,
            necessary='data of another dtype or shape written as raw bytes, or a header laid out '
                      'again by a later append, makes the file load as something else than what '
                      'was written')
def c06_k(ctx):
    from .base import check_guard_table
    check_guard_table(ctx, _C06_GUARDS)
    arr = ctx.cls(_NPY)
    defs = (('deleted', ('self.fs is None',)),
            ('closed', ('self.deleted or self.fs.closed', 'self.fs is None or self.fs.closed')),
            ('initialized', ('(not self.closed) and (self.header_length is not None)',
                             'not self.closed and self.header_length is not None')))
    for (nm, pats) in defs:
        m = arr.methods.get(nm)
        if m is None or not m.is_property:
            raise AnchorMissing('NpyArray.{} property'.format(nm))
        ctx.touch(m)
        rr = returns(m)
        ok = len(rr) == 1 and match_any(ctx.ex(m).term(rr[0].value), pats) is not None
        ctx.check(ok, m, 'state predicate `{}`'.format(nm), pats[0],
                  '`{}` is not defined as `{}`'.format(nm, pats[0]), fn=m,
                  node=rr[0] if rr else m.node)


@obligation('C06-l', 'T1 T10', 'rows are changed through the map only when no appended rows are '
            'outstanding: an overwrite first brings the header up to date with the data',
            floor=1,
            necessary='the map writes through to the file at once, the header only with the next '
                      'flush: killed after append + overwrite, the file would show the overwritten '
                      'row without the appended ones, which is the content of no instant')
def c06_l(ctx):
    cls = ctx.cls(NPY)
    hwriters = set()
    for m in cls.methods.values():
        for c in ctx.calls(m, name='write'):
            if c.args and is_fs(ctx.term(m, c.func.value)) and \
                    contains(ctx.term(m, c.args[0]), 'self._header_bytes_to_write'):
                hwriters.add(m.qname)
    if not hwriters:
        raise AnchorMissing('no method writes _header_bytes_to_write to the file')

    def reaches_writer(fn, call, depth=0):
        for t in ctx.cg.resolve(fn, call):
            if t.qname in hwriters:
                return True
            if depth < 2 and any(reaches_writer(t, c2, depth + 1) for c2 in ctx.calls(t)):
                return True
        return False

    def fs_flushes(fn):
        return [c for c in ctx.calls(fn, name='flush') if is_fs(ctx.term(fn, c.func.value))]

    def syncs(fn, call):
        # the call is a file flush that follows a header write in fn itself, or a call of a
        # method in which every header write is followed by a file flush
        if call in fs_flushes(fn):
            hw = [c for c in ctx.calls(fn) if reaches_writer(fn, c)]
            return bool(hw) and ctx.must_precede(fn, hw, call)
        for t in ctx.cg.resolve(fn, call):
            hw = [c for c in ctx.calls(t) if reaches_writer(t, c)]
            ff = fs_flushes(t)
            if hw and ff and all(ctx.must_follow(t, h, ff) for h in hw):
                return True
        return False

    pend = _self_attr('_header_bytes_to_write')
    n = 0
    for m in cls.methods.values():
        ex = ctx.ex(m)
        sts = [s for pat in ('self.memmap[_]', 'self._memmap[_]')
               for (s, t, k) in ctx.stores(m, pat, include_mutators=False)
               if isinstance(s, (ast.Assign, ast.AugAssign))]
        if not sts:
            continue
        cfg = cfg_of(m)
        wn = [ctx.node(m, c) for c in ctx.calls(m) if syncs(m, c)]
        assumed = []
        for t in cfg.nodes:
            if t.kind != 'test' or t.ast is None:
                continue
            tt = ex.term(t.ast, t)
            if tt == pend or match(tt, pattern('self._header_bytes_to_write is not None')) \
                    is not None:
                assumed.append((t, True))
            elif tt == ('not', pend) or match(
                    tt, pattern('self._header_bytes_to_write is None')) is not None:
                assumed.append((t, False))
        for s in sts:
            n += 1
            sn = ctx.node(m, s)
            free = cfg.exists_path_assuming(cfg.entry, sn, avoiding=wn, assumed=assumed)
            ctx.check(not free, m, 'overwrite through the map after the header is current',
                      'every path to the store passes a header write + flush while prepared '
                      'header bytes are outstanding',
                      '`{}` changes rows of the file through the map on a path on which rows '
                      'appended since the last flush are not yet described by the header'.format(
                          src(s)[:60]), fn=m, node=s, anchors=[w.ast for w in wn
                                                               if w.ast is not None])
    if n == 0:
        raise AnchorMissing('no NpyArray method stores through the memory map')


@obligation('C06-m', 'T1 T5', 'deleting the last batch always takes it out of the count: every '
            'feasible path through ArrayStore.__delitem__ that returns passes the decrement',
            floor=1,
            necessary='a deleted batch that is still counted is reported (and served from whatever '
                      'the array holds there) although the corresponding in-memory sequence no '
                      'longer has it')
def c06_m(ctx):
    cls = ctx.cls('elfi.store:ArrayStore')
    m = ctx.own_method(cls, '__delitem__')
    ex = ctx.ex(m)
    cfg = cfg_of(m)
    decs = [n for n in own_nodes(m.node) if isinstance(n, ast.AugAssign) and
            isinstance(n.op, ast.Sub) and
            match(ex.term(n.target), pattern('self.n_batches')) is not None and
            ex.term(n.value) == ('const', 1)]
    if not decs:
        ctx.bad(m, 'count decremented', 'no `self.n_batches -= 1` in __delitem__', fn=m,
                node=m.node)
        return
    # tests whose outcome is already decided by the refusals before them
    assumed = []
    for t in cfg.nodes:
        if t.kind != 'test' or t.ast is None or not isinstance(t.stmt, ast.If):
            continue
        tt, want = ex.term(t.ast, t), True
        while tt[0] == 'unary' and tt[1] == 'not':
            tt, want = tt[2], not want
        for (g, pol, _) in ctx.guards(m, t.stmt, all_dominating=True):
            if g == tt:
                assumed.append((t, pol if want else not pol))
                break
    dn = [ctx.node(m, d) for d in decs]
    free = cfg.exists_path_assuming(cfg.entry, cfg.ret, avoiding=dn, assumed=assumed)
    ctx.check(not free, m, 'every feasible return passes the decrement',
              'n_batches -= 1 (the test around it repeats what the refusals established)',
              '__delitem__ can return without taking the deleted batch out of the count', fn=m,
              node=decs[0])
