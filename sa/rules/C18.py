"""C18 - vectorize and external_operation behave as per-row application.

Decided: one loop index for every non-constant input and for the result slot, constants and
keywords passed unchanged, the caller's constants list is copied before it is extended, the
preparation order of run_external and the provenance of the per-row seed, stdout capture when
the default parser is installed.  Not decided: dtype handling, parsing, subprocess behaviour.
"""

import ast

from .. import AnalysisError, AnchorMissing
from ..cfg import cfg_of
from ..model import own_nodes
from ..values import pattern, match, match_any, find, contains, show, subterms
from .base import obligation, src, callee_name, unweak
from .C04 import pattern_term, returns, enclosing_loop, _inside

T = 'elfi.model.tools'


@obligation('C18-a', 'T7', 'row i of the result is the operation applied to row i of every '
            'non-constant input', floor=5,
            necessary='another index pairs rows of different draws; a sliced constant changes '
                      'the operation\'s argument')
def c18_a(ctx):
    rv = ctx.fn(T + ':run_vectorized')
    ex = ctx.ex(rv)
    op_p = ('param', rv.params[0])
    calls = [c for c in ctx.calls(rv) if ex.term(c.func) == op_p]
    if len(calls) != 1:
        ctx.undecided('expected one call of the operation, found {}'.format(len(calls)))
    call = calls[0]
    outer = enclosing_loop(call)
    ok = isinstance(outer, ast.For) and isinstance(outer.target, ast.Name) and \
        match(ex.term(outer.iter, cfg_of(rv).by_stmt[id(outer)]),
              pattern('range(_b)')) is not None
    ctx.check(ok, rv, 'one call per row', 'for index in range(batch_size): operation(...)',
              'the operation is not called once per row of the batch', fn=rv, node=call)
    if not ok:
        return
    idx = outer.target.id
    st = [a for a in call.args if isinstance(a, ast.Starred)]
    kw = [k for k in call.keywords if k.arg is None]
    ok = len(st) == 1 and len(call.args) == 1 and len(kw) == 1 and len(call.keywords) == 1 and \
        ex.term(kw[0].value)[0] == 'param'
    ctx.check(ok, rv, 'keywords forwarded unchanged', 'operation(*inputs_i, **kwargs)',
              'the operation is not called as operation(*row_inputs, **kwargs)', fn=rv, node=call)
    lst = st[0].value.id if st and isinstance(st[0].value, ast.Name) else None
    inner = [n for n in ast.walk(outer) if isinstance(n, ast.For) and n is not outer]
    ok = False
    il = None
    for n in inner:
        if match(ex.raw(n.iter), pattern('enumerate(inputs)')) is not None and \
                isinstance(n.target, ast.Tuple) and len(n.target.elts) == 2:
            il = n
    ctx.check(il is not None, rv, 'every input visited', 'for i, inpt in enumerate(inputs)',
              'the row inputs are not built from all inputs in order', fn=rv,
              node=inner[0] if inner else outer)
    if il is not None:
        ipos, ival = il.target.elts[0].id, il.target.elts[1].id
        apps = [c for c in ast.walk(il) if isinstance(c, ast.Call) and callee_name(c) == 'append'
                and isinstance(c.func.value, ast.Name) and c.func.value.id == lst]
        const_app = [c for c in apps if ex.raw1(c.args[0]) == ('name', ival) or
                     ex.raw(c.args[0]) == ('name', ival)]
        row_app = [c for c in apps if ex.raw1(c.args[0]) ==
                   ('sub', ('name', ival), ('name', idx))]
        okc = len(const_app) == 1 and any(
            pol and match(t, pattern('_i in _c')) is not None
            for (t, pol, _) in ctx.guards(rv, const_app[0]))
        okr = len(row_app) == 1 and any(
            pol is False and match(t, pattern('_i in _c')) is not None
            for (t, pol, _) in ctx.guards(rv, row_app[0]))
        ctx.check(okc, rv, 'constants passed whole', 'inputs_i.append(inpt) for constants',
                  'constant inputs are not passed unchanged', fn=rv,
                  node=const_app[0] if const_app else il)
        ctx.check(okr and len(apps) == 2, rv, 'non-constants indexed with the row index',
                  'inputs_i.append(inpt[index_in_batch])',
                  'non-constant inputs are not indexed with the loop\'s row index', fn=rv,
                  node=row_app[0] if row_app else il)
        # the row list is fresh for every row
        fresh = [n for n in outer.body if isinstance(n, ast.Assign) and
                 isinstance(n.targets[0], ast.Name) and n.targets[0].id == lst and
                 ex.raw(n.value) == ('list', ())]
        ctx.check(bool(fresh), rv, 'row inputs rebuilt for every row', 'inputs_i = []',
                  'the row input list is not reset for every row', fn=rv,
                  node=fresh[0] if fresh else outer)
    # result slot
    outv = getattr(call, '_parent', None)
    oname = outv.targets[0].id if isinstance(outv, ast.Assign) and \
        isinstance(outv.targets[0], ast.Name) else None
    slot = [n for n in ast.walk(outer) if isinstance(n, ast.Assign) and
            isinstance(n.targets[0], ast.Subscript) and oname and
            ex.raw(n.value) == ('name', oname)]
    app = [c for c in ast.walk(outer) if isinstance(c, ast.Call) and callee_name(c) == 'append'
           and c.args and oname and ex.raw(c.args[0]) == ('name', oname)]
    ok = len(slot) == 1 and ex.raw(slot[0].targets[0].slice) == ('name', idx) and len(app) == 1
    ctx.check(ok, rv, 'result stored in row order', 'runs[index] = output / runs.append(output)',
              'the result of row i is not stored at position i', fn=rv,
              node=slot[0] if slot else outer)


@obligation('C18-b', 'T14', 'the caller\'s constants are copied before the list is extended',
            floor=2, necessary='appending to the shared list makes later calls treat array '
                               'inputs as constants')
def c18_b(ctx):
    rv = ctx.fn(T + ':run_vectorized')
    ex = ctx.ex(rv)
    apps = [c for c in ctx.calls(rv, name='append') if isinstance(c.func.value, ast.Name) and
            c.func.value.id == 'constants']
    if not apps:
        ctx.ok(rv, 'constants never mutated', 'no in-place extension', fn=rv, node=rv.node)
        return
    for c in apps:
        node = ctx.node(rv, c)
        defs = ex.reaching('constants', node)
        ok = bool(defs) and all(
            d.kind == 'assign' and match_any(
                ex.raw(d.payload), ('[] if constants is None else list(constants)',
                                    'list(constants) if constants is not None else []',
                                    'list(constants or [])', 'list(constants or ())')) is not None
            for d in defs)
        ctx.check(ok, rv, 'extended list is a private copy', 'constants = list(constants)',
                  'constants.append(...) can mutate the list object the caller passed in', fn=rv,
                  node=c)
    # batch length from the inputs, else batch_size, else 1; mismatch refused
    r = [s for s in ctx.stmts(rv, ast.Raise)]
    ok = any(any(pol and match_any(ex.raw(ta), ('batch_size != _l', '_l != batch_size'))
                 is not None for (t, pol, ta) in ctx.guards(rv, s)) for s in r)
    ctx.check(ok, rv, 'length mismatch refused', 'raise when batch_size != len(input)',
              'inputs of different lengths are accepted', fn=rv, node=r[0] if r else rv.node)
    d1 = [n for n in own_nodes(rv.node) if isinstance(n, ast.Assign) and
          isinstance(n.targets[0], ast.Name) and n.targets[0].id == 'batch_size' and
          ex.raw(n.value) == ('const', 1)]
    ok = bool(d1) and any(pol and match(t, pattern('_b is None')) is not None
                          for (t, pol, _) in ctx.guards(rv, d1[0]))
    ctx.check(ok, rv, 'default batch length 1', 'batch_size = 1 when nothing determines it',
              'the batch length does not default to 1', fn=rv, node=d1[0] if d1 else rv.node)
    vz = ctx.fn(T + ':vectorize')
    rr = returns(vz)
    ok = len(rr) == 1 and match(
        ctx.term(vz, rr[0].value),
        pattern('partial(run_vectorized, operation, constants=constants, dtype=dtype)')) is not None
    ctx.check(ok, vz, 'vectorize binds the arguments', 'partial(run_vectorized, operation, ...)',
              'vectorize does not bind (operation, constants, dtype) to run_vectorized', fn=vz,
              node=rr[0] if rr else vz.node)


@obligation('C18-c', 'T1 T3', 'external commands: meta, then seed, then user preparation, then '
            'formatting; the seed derives from the generator state and the row index', floor=5,
            necessary='a seed prepared before the meta data is unpacked ignores the row index: '
                      'all rows of a batch get the same seed')
def c18_c(ctx):
    re_ = ctx.fn(T + ':run_external')
    ex = ctx.ex(re_)
    um = ctx.calls(re_, 'unpack_meta(*_)')
    ps = ctx.calls(re_, 'prepare_seed(*_)')
    pi = [c for c in ctx.calls(re_) if ex.term(c.func) == ('param', 'prepare_inputs')]
    fm = [c for c in ctx.calls(re_, name='format') if ex.raw(c.func.value) == ('name', 'command')]
    ok = len(um) == 1 and len(ps) == 1 and len(fm) >= 1
    ctx.check(ok, re_, 'preparation steps present', 'unpack_meta, prepare_seed, command.format',
              'a preparation step is missing', fn=re_, node=re_.node)
    if not ok:
        return
    ctx.check(ctx.must_precede(re_, um, ps[0]), re_, 'meta before seed',
              'unpack_meta < prepare_seed',
              'the seed is prepared before the meta data (row index) is unpacked', fn=re_,
              node=ps[0])
    if pi:
        ctx.check(ctx.must_precede(re_, ps, pi[0]), re_, 'seed before user preparation',
                  'prepare_seed < prepare_inputs', 'user preparation runs before the seed is '
                  'available', fn=re_, node=pi[0])
    ctx.check(ctx.must_precede(re_, ps, fm[0]) and ctx.must_precede(re_, um, fm[0]), re_,
              'formatting last', 'command.format after all preparation',
              'the command is formatted before the inputs are prepared', fn=re_, node=fm[0])
    # each step consumes the result of the previous one
    a = [ex.term(x.value) for x in ps[0].args if isinstance(x, ast.Starred)]
    k = [ex.term(x.value) for x in ps[0].keywords if x.arg is None]
    ok = bool(a) and bool(k) and contains(a[0], 'unpack_meta(*_)') and \
        contains(k[0], 'unpack_meta(*_)')
    ctx.check(ok, re_, 'seed step sees the unpacked meta', 'prepare_seed(*unpacked, **unpacked)',
              'prepare_seed is not given the result of unpack_meta', fn=re_, node=ps[0])
    fa = [ex.term(x.value) for x in fm[0].args if isinstance(x, ast.Starred)]
    fk = [ex.term(x.value) for x in fm[0].keywords if x.arg is None]
    ok = bool(fa) and bool(fk) and contains(fk[0], 'prepare_seed(*_)')
    ctx.check(ok, re_, 'command formatted with the prepared inputs',
              'command.format(*inputs, **kwinputs)',
              'the command is not formatted with the prepared positional and keyword inputs',
              fn=re_, node=fm[0])
    psf = ctx.fn(T + ':prepare_seed')
    exs = ctx.ex(psf)
    st = [s for (s, t, kk) in ctx.stores(psf, "kwinputs['seed']") if isinstance(s, ast.Assign)]
    ok = False
    if st:
        v = exs.term(st[0].value)
        m = match(v, pattern('get_sub_seed(_s, _i)'))
        ok = m is not None and \
            match(m['s'], pattern("kwinputs['random_state'].get_state()[1][0]")) is not None and \
            match_any(m['i'], ("kwinputs.get('index_in_batch') or 0",
                               "kwinputs['index_in_batch'] or 0",
                               "kwinputs.get('index_in_batch', 0)")) is not None
    ctx.check(ok, psf, 'seed = sub-seed(generator state, row index)',
              "get_sub_seed(random_state.get_state()[1][0], index_in_batch or 0)",
              'the seed is not derived from (state of the batch generator, row index)', fn=psf,
              node=st[0] if st else psf.node)
    ok = bool(st) and any(pol and match(t, pattern("'random_state' in kwinputs")) is not None
                          for (t, pol, _) in ctx.guards(psf, st[0]))
    ctx.check(ok, psf, 'seed only for stochastic operations', "if 'random_state' in kwinputs",
              '', fn=psf, node=st[0] if st else psf.node)
    # the row index reaches the meta dict in the vectorised loop
    rv = ctx.fn(T + ':run_vectorized')
    exr = ctx.ex(rv)
    ms = [s for (s, t, kk) in ctx.stores(rv, "kwargs['meta']['index_in_batch']")
          if isinstance(s, ast.Assign)]
    ok = False
    if ms:
        lo = enclosing_loop(ms[0])
        ok = isinstance(lo, ast.For) and isinstance(lo.target, ast.Name) and \
            exr.raw(ms[0].value) == ('name', lo.target.id) and \
            any(pol and match(t, pattern("'meta' in kwargs")) is not None
                for (t, pol, _) in ctx.guards(rv, ms[0]))
        calls = [c for c in ctx.calls(rv) if exr.term(c.func) == ('param', rv.params[0])]
        hdr = cfg_of(rv).by_stmt[id(lo)] if isinstance(lo, ast.For) else None
        ok = ok and bool(calls) and hdr is not None and \
            cfg_of(rv).exists_path(ctx.node(rv, ms[0]), ctx.node(rv, calls[0]), avoiding=[hdr]) \
            and not cfg_of(rv).exists_path(ctx.node(rv, calls[0]), ctx.node(rv, ms[0]),
                                           avoiding=[hdr])
    ctx.check(ok, rv, 'row index recorded in the meta data before the call',
              "kwargs['meta']['index_in_batch'] = index_in_batch",
              'the row index is not written into the meta data before the operation is called',
              fn=rv, node=ms[0] if ms else rv.node)
    umf = ctx.fn(T + ':unpack_meta')
    exu = ctx.ex(umf)
    cp = [n for n in own_nodes(umf.node) if isinstance(n, ast.Assign) and
          match(exu.raw(n.value), pattern("kwinputs['meta'].copy()")) is not None]
    upd = [c for c in ctx.calls(umf, name='update') if c.args and
           exu.raw(c.args[0]) == ('name', 'kwinputs')]
    ok = bool(cp) and bool(upd) and isinstance(upd[0].func.value, ast.Name) and \
        upd[0].func.value.id == cp[0].targets[0].id
    ctx.check(ok, umf, 'meta copied, explicit keywords win',
              "new = kwinputs['meta'].copy(); new.update(kwinputs)",
              'unpack_meta does not merge a copy of the meta data under the explicit keywords',
              fn=umf, node=cp[0] if cp else umf.node)


@obligation('C18-d', 'T11', 'stdout is captured whenever the default parser is installed',
            floor=2, necessary='without the pipe the default parser receives None')
def c18_d(ctx):
    eo = ctx.fn(T + ':external_operation')
    ex = ctx.ex(eo)
    inst = [n for n in own_nodes(eo.node) if isinstance(n, ast.Assign) and
            match(ex.raw(n.value), pattern('partial(stdout_to_array, **_k)')) is not None]
    if not inst:
        raise AnchorMissing('default parser installation')
    blk = getattr(inst[0], '_parent', None)
    st = [n for n in (blk.body if isinstance(blk, ast.If) else []) if isinstance(n, ast.Assign) and
          isinstance(n.targets[0], ast.Name) and n.targets[0].id == 'stdout' and
          ex.raw(n.value) == ('const', True)]
    ctx.check(bool(st), eo, 'default parser forces stdout', 'stdout = True with the default parser',
              'installing the default parser does not force stdout=True', fn=eo, node=inst[0])
    pipe = [s for s in own_nodes(eo.node) if isinstance(s, ast.Assign) and
            isinstance(s.targets[0], ast.Subscript) and
            match(ex.raw(s.targets[0]), pattern("subprocess_kwargs['stdout']")) is not None and
            match(ex.term(s.value), pattern('subprocess.PIPE')) is not None]
    ok = bool(pipe) and any(pol and match_any(ex.raw(ta), ('stdout is True', 'stdout'))
                            is not None for (t, pol, ta) in ctx.guards(eo, pipe[0])) and \
        (not st or ctx.must_precede(eo, [inst[0]], pipe[0]) or
         cfg_of(eo).exists_path(ctx.node(eo, st[0]), ctx.node(eo, pipe[0])))
    ctx.check(ok, eo, 'pipe requested when stdout is wanted', "subprocess_kwargs['stdout'] = PIPE",
              'stdout is not piped when the handler wants it', fn=eo,
              node=pipe[0] if pipe else eo.node)
    rr = returns(eo)
    ok = len(rr) == 1 and match(
        ex.term(rr[0].value), pattern('partial(run_external, command, *_)')) is not None
    if ok:
        kws = dict(ex.term(rr[0].value)[3])
        ok = set(kws) >= {'process_result', 'prepare_inputs', 'stdout', 'subprocess_kwargs'}
    ctx.check(ok, eo, 'configuration bound to run_external',
              'partial(run_external, command, process_result=..., stdout=..., ...)',
              'external_operation does not bind its configuration to run_external', fn=eo,
              node=rr[0] if rr else eo.node)
    re_ = ctx.fn(T + ':run_external')
    exr = ctx.ex(re_)
    runs = ctx.calls(re_, 'subprocess.run(*_)')
    okr = False
    for c in runs:
        star = [k for k in c.keywords if k.arg is None]
        if star and isinstance(star[0].value, ast.Name):
            nm = star[0].value.id
            ups = [u for u in ctx.calls(re_, name='update') if isinstance(u.func.value, ast.Name)
                   and u.func.value.id == nm and u.args and
                   (exr.term(u.args[0]) == ('param', 'subprocess_kwargs') or match_any(
                       exr.term(u.args[0]), ('subprocess_kwargs or {}',
                                             'subprocess_kwargs or dict()',
                                             '{} if subprocess_kwargs is None else '
                                             'subprocess_kwargs')) is not None)]
            if ups and ctx.must_precede(re_, ups, c):
                okr = True
        elif star and contains(exr.term(star[0].value), 'subprocess_kwargs'):
            okr = True
    ctx.check(okr, re_, 'subprocess options reach subprocess.run',
              'defaults updated with subprocess_kwargs, then **passed',
              'the subprocess options (stdout pipe) are not passed to subprocess.run', fn=re_,
              node=runs[0] if runs else re_.node)
    out = [n for n in own_nodes(re_.node) if isinstance(n, ast.Assign) and
           match(exr.raw(n.value), pattern('_c.stdout')) is not None]
    ok = bool(out) and any(pol and t == ('param', 'stdout') for (t, pol, _) in ctx.guards(re_, out[0]))
    ctx.check(ok, re_, 'handler receives stdout when requested',
              'completed_process = completed_process.stdout if stdout',
              'the handler is not given the captured stdout when stdout is requested', fn=re_,
              node=out[0] if out else re_.node)


@obligation('C18-e', 'T13 T3', 'a requested result type reaches the default parser: every type '
            'that selects the default parser is also forwarded as dtype', floor=3,
            necessary='a type that installs the default parser but is not forwarded is parsed as '
                      'float64: the output is not of the requested type')
def c18_e(ctx):
    eo = ctx.fn(T + ':external_operation')
    ex = ctx.ex(eo)
    p = 'process_result'
    if p not in eo.all_params:
        raise AnchorMissing('process_result parameter')

    def type_set(t):
        """types accepted by isinstance(process_result, T) -> frozenset of dotted names"""
        m = match(t, pattern('isinstance({}, _T)'.format(p)))
        if m is None:
            return None
        T_ = m['T']
        items = T_[1] if T_[0] == 'tuple' else (T_,)
        return frozenset(show(x) for x in items)
    # the statement that installs the default parser and the statement that forwards the dtype
    inst = [s for s in own_nodes(eo.node) if isinstance(s, ast.Assign) and
            isinstance(s.targets[0], ast.Name) and s.targets[0].id == p and
            contains(ex.raw(s.value), 'stdout_to_array')]
    fwd = [s for s in own_nodes(eo.node) if isinstance(s, ast.Assign) and
           isinstance(s.targets[0], ast.Subscript) and
           ex.raw(s.targets[0].slice) == ('const', 'dtype')]
    fwd += [s for s in own_nodes(eo.node) if isinstance(s, ast.Assign) and
            any(k == 'dtype' for (k, v) in (term_kwargs_safe(ex.raw(s.value))))]
    if not inst or not fwd:
        raise AnchorMissing('default parser installation / dtype forwarding in external_operation')

    def accepted(stmt):
        out = set()
        for (t, pol, _) in ctx.guards(eo, stmt):
            if pol:
                ts = type_set(t)
                if ts is not None:
                    out = out | ts if not out else out & ts
        return out
    a_inst = accepted(inst[0])
    # the installing statement is guarded by `is None or isinstance(...)`: collect from the
    # disjunction as well
    for (t, pol, _) in ctx.guards(eo, inst[0]):
        t = unweak(t)
        if pol and t[0] == 'bool' and t[1] == 'or':
            for x in t[2]:
                ts = type_set(x)
                if ts is not None:
                    a_inst = a_inst | ts
    a_fwd = accepted(fwd[0])
    ctx.check(bool(a_inst) and a_inst <= a_fwd, eo,
              'types forwarded as dtype = types that select the default parser',
              sorted(a_inst), 'the default parser is installed for {} but the dtype is forwarded '
              'only for {}: a type given as {} is silently parsed as float64'.format(
                  sorted(a_inst), sorted(a_fwd), sorted(a_inst - a_fwd)), fn=eo, node=fwd[0])
    # the forwarded value is the requested type (possibly as its string)
    v = ex.raw(fwd[0].value)
    okv = v in (('name', p), ('param', p)) or match(v, pattern('str({})'.format(p))) is not None \
        or match(v, pattern('np.dtype({})'.format(p))) is not None or \
        any(kv == ('name', p) or kv == ('param', p) or
            match(kv, pattern('str({})'.format(p))) is not None
            for (k, kv) in term_kwargs_safe(v) if k == 'dtype')
    ctx.check(okv, eo, 'forwarded dtype is the requested type', 'dtype = str(process_result)',
              'the forwarded dtype is {}'.format(show(v)[:50]), fn=eo, node=fwd[0])
    # the parser that receives it
    sa_ = ctx.fn(T + ':stdout_to_array')
    exs = ctx.ex(sa_)
    cs = [c for c in ctx.calls(sa_) if callee_name(c) in ('fromstring', 'loadtxt', 'array',
                                                          'asarray', 'genfromtxt')]
    okp = bool(cs) and any(any(k.arg is None for k in c.keywords) or
                           any(k.arg == 'dtype' for k in c.keywords) for c in cs)
    ctx.check(okp, sa_, 'parser hands the keyword arguments to numpy', '**kwargs',
              'stdout_to_array does not pass its keyword arguments (dtype) on', fn=sa_,
              node=cs[0] if cs else sa_.node)


def term_kwargs_safe(t):
    try:
        return list(dict(t[3]).items()) if t[0] == 'call' else []
    except Exception:
        return []



@obligation('C18-f', 'T6 T11', 'row index 0 is never tested by truth value (except `or 0`)', floor=2,
            necessary='row 0 falling through to another index shares its seed with another row')
def c18_f(ctx):
    from .base import zero_is_valid_obligation
    zero_is_valid_obligation(ctx, ['batch_index', 'index_in_batch'])


def _has_guard(ctx, fn, node, pats, pol):
    for (t, p, _) in ctx.guards(fn, node, all_dominating=True):
        if p == pol and match_any(t, pats) is not None:
            return True
    return False


@obligation('C18-g', 'T11 T8', 'run_vectorized: inputs that are not arrays become constants, the '
            'batch length comes from the first array input, and the rows are assembled into the '
            'returned array according to dtype', floor=8,
            necessary='a flipped detection test treats array inputs as constants (one row instead '
                      'of batch_size rows); a result that is not converted or not returned is '
                      'not the array of per-row outputs')
def c18_g(ctx):
    rv = ctx.fn(T + ':run_vectorized')
    ex = ctx.ex(rv)
    cfg = cfg_of(rv)
    op_p = ('param', rv.params[0])
    calls = [c for c in ctx.calls(rv) if ex.term(c.func) == op_p]
    if len(calls) != 1 or not isinstance(enclosing_loop(calls[0]), ast.For):
        ctx.undecided('the per-row call of the operation was not found')
    rows = enclosing_loop(calls[0])
    var = rv.node.args.vararg.arg if rv.node.args.vararg else None
    det = [n for n in own_nodes(rv.node) if isinstance(n, ast.For) and var and
           match(ex.raw(n.iter), pattern('enumerate({})'.format(var))) is not None and
           enclosing_loop(n) is None and isinstance(n.target, ast.Tuple) and
           len(n.target.elts) == 2]
    if len(det) != 1:
        ctx.undecided('the detection loop over the inputs was not found')
    det = det[0]
    ctx.check(cfg.must_precede([cfg.by_stmt[id(det)]], cfg.by_stmt[id(rows)]), rv,
              'detection before the rows', 'constants and batch length are settled first',
              'the rows are run before the constants and the batch length are determined',
              fn=rv, node=det)
    pos_t = ex.term(det.target.elts[0], cfg.by_stmt[id(det.body[0])]) \
        if not isinstance(det.body[0], (ast.If, ast.For, ast.While, ast.Try)) else None
    ipos, ival = det.target.elts[0].id, det.target.elts[1].id
    IN = ('_i in _c',)
    ISARR = ('is_array(_x)', 'elfi.utils.is_array(_x)', 'isinstance(_x, np.ndarray)',
             'isinstance(_x, numpy.ndarray)')
    # (a) a position joins the constants iff it is not listed and is not an array
    apps = [c for c in ast.walk(det) if isinstance(c, ast.Call) and callee_name(c) == 'append' and
            c.args and ex.raw1(c.args[0]) == ('name', ipos)]
    ok = len(apps) == 1 and _has_guard(ctx, rv, apps[0], IN, False) and \
        _has_guard(ctx, rv, apps[0], ISARR, False)
    ctx.check(ok, rv, 'non-array inputs become constants',
              'constants.append(i) when i is not listed and the input is not an array',
              'the automatic detection of constant inputs is not `not listed and not an array`',
              fn=rv, node=apps[0] if apps else det)
    # (b) the batch length is the length of an array input, taken only while undetermined
    bname = None
    it = ex.raw(rows.iter)
    m = match(it, pattern('range(_b)'))
    if m is not None and m['b'][0] == 'name':
        bname = m['b'][1]
    sets = [n for n in ast.walk(det) if isinstance(n, ast.Assign) and bname and
            isinstance(n.targets[0], ast.Name) and n.targets[0].id == bname]
    ok = len(sets) == 1
    if ok:
        v = ex.term(sets[0].value)
        mv = match(v, pattern('len(_x)'))
        okv = mv is not None and mv['x'][0] == 'item' and mv['x'][2] == 1 and \
            mv['x'][1][0] == 'elem'
        ok = okv and _has_guard(ctx, rv, sets[0], ISARR, True) and \
            _has_guard(ctx, rv, sets[0], ('_b is None',), True) and \
            _has_guard(ctx, rv, sets[0], IN, False)
    ctx.check(ok, rv, 'batch length from the first array input',
              'batch_size = len(input) for an unlisted array input while batch_size is None',
              'the batch length is not taken from the array inputs (unlisted, is an array, '
              'length still undetermined)', fn=rv, node=sets[0] if sets else det)
    # (c) a listed constant is skipped altogether: the mismatch test does not apply to it
    rs = [s for s in ast.walk(det) if isinstance(s, ast.Raise)]
    ok = bool(rs) and all(_has_guard(ctx, rv, s, IN, False) and
                          _has_guard(ctx, rv, s, ISARR, True) for s in rs)
    ctx.check(ok, rv, 'length test only for unlisted arrays',
              'raise only for an unlisted array input of another length',
              'the length mismatch test also applies to constants or non-arrays', fn=rv,
              node=rs[0] if rs else det)
    # (d) result container and per-row store by dtype
    outv = getattr(calls[0], '_parent', None)
    oname = outv.targets[0].id if isinstance(outv, ast.Assign) and \
        isinstance(outv.targets[0], ast.Name) else None
    slot = [n for n in ast.walk(rows) if isinstance(n, ast.Assign) and
            isinstance(n.targets[0], ast.Subscript) and oname and
            isinstance(n.targets[0].value, ast.Name) and ex.raw(n.value) == ('name', oname)]
    app = [c for c in ast.walk(rows) if isinstance(c, ast.Call) and callee_name(c) == 'append'
           and c.args and oname and ex.raw(c.args[0]) == ('name', oname) and
           isinstance(c.func.value, ast.Name)]
    if len(slot) != 1 or len(app) != 1 or slot[0].targets[0].value.id != app[0].func.value.id:
        ctx.undecided('the per-row result stores were not found')
    rname = app[0].func.value.id
    DT = ('dtype is False',)
    ok = _has_guard(ctx, rv, slot[0], DT, True) and _has_guard(ctx, rv, app[0], DT, False)
    ctx.check(ok, rv, 'row result stored by dtype',
              'runs[i] = output when dtype is False, runs.append(output) otherwise',
              'the per-row store does not follow `dtype is False`', fn=rv, node=slot[0])
    inits = [n for n in own_nodes(rv.node) if isinstance(n, ast.Assign) and
             isinstance(n.targets[0], ast.Name) and n.targets[0].id == rname and
             enclosing_loop(n) is None and
             cfg.exists_path(ctx.node(rv, n), cfg.by_stmt[id(rows)])]
    obj = [n for n in inits if match(ex.raw(n.value), pattern('np.empty(_b, dtype=object)'))
           is not None and bname and ex.raw(n.value.args[0]) in (
               ('name', bname), ('tuple', (('name', bname),)))]
    lst = [n for n in inits if ex.raw(n.value) == ('list', ())]
    ok = len(obj) == 1 and len(lst) == 1 and len(inits) == 2 and \
        _has_guard(ctx, rv, obj[0], DT, True) and _has_guard(ctx, rv, lst[0], DT, False) and \
        cfg.must_precede([ctx.node(rv, x) for x in inits], cfg.by_stmt[id(rows)])
    ctx.check(ok, rv, 'result container by dtype',
              'np.empty(batch_size, dtype=object) when dtype is False, a list otherwise',
              'the result container does not follow `dtype is False` (object array of '
              'batch_size slots / list)', fn=rv, node=(obj or lst or [rows])[0])
    # (e) the list is converted with the requested dtype, after the rows, exactly when it is a list
    conv = [n for n in own_nodes(rv.node) if isinstance(n, ast.Assign) and
            isinstance(n.targets[0], ast.Name) and n.targets[0].id == rname and
            n not in inits and enclosing_loop(n) is None]
    ok = len(conv) == 1 and match(ex.raw(conv[0].value), pattern(
        'np.array({}, dtype=dtype)'.format(rname))) is not None and \
        _has_guard(ctx, rv, conv[0], DT, False) and \
        cfg.must_precede([cfg.by_stmt[id(rows)]], ctx.node(rv, conv[0]))
    if ok:
        # nothing but the dtype test decides whether the conversion happens
        others = [t for (t, p, _) in ctx.guards(rv, conv[0])
                  if match_any(t, DT + ('dtype is not False',)) is None]
        ok = not others
    ctx.check(ok, rv, 'list converted with the requested dtype',
              'runs = np.array(runs, dtype=dtype) unless dtype is False',
              'the list of row outputs is not converted to an array of the requested dtype '
              'exactly when dtype is not False', fn=rv, node=conv[0] if conv else rows)
    # (f) every exit returns that array; on the list branch the conversion is passed
    rr = returns(rv)
    falls = [p for (p, lab) in cfg.ret.pred if not (p.kind == 'stmt' and
                                                     isinstance(p.ast, ast.Return))]
    ok = bool(rr) and not falls and all(
        ex.raw1(r.value) == ('name', rname) or ex.raw(r.value) == ('name', rname) for r in rr) \
        and all(cfg.must_precede([cfg.by_stmt[id(rows)]], ctx.node(rv, r)) for r in rr)
    if ok and conv:
        # a path entry -> return that takes the list branch and avoids the conversion?
        cnode = ctx.node(rv, conv[0])
        lnode = ctx.node(rv, lst[0]) if lst else None
        if lnode is not None:
            for r in rr:
                if cfg.exists_path_assuming(lnode, ctx.node(rv, r), avoiding=[cnode],
                                            assumed=_dtype_tests(ctx, rv, ex, False)):
                    ok = False
    ctx.check(ok, rv, 'the assembled array is returned', 'return runs on every exit',
              'run_vectorized does not return the assembled rows on every exit (or returns the '
              'unconverted list)', fn=rv, node=rr[0] if rr else rv.node)


def _dtype_tests(ctx, rv, ex, value):
    """[(test node, polarity)] fixing every `dtype is False` test to `value`."""
    out = []
    for t in cfg_of(rv).nodes:
        if t.kind != 'test':
            continue
        term = ex.term(t.ast, t)
        if match(term, pattern('dtype is False')) is not None:
            out.append((t, value))
        elif match(term, pattern('dtype is not False')) is not None:
            out.append((t, not value))
    return out


@obligation('C18-h', 'T8 T11', 'external command pipeline: each helper returns what the next step '
            'consumes; the default parser replaces only a missing handler or a type; the '
            'handler\'s value is the result', floor=8,
            necessary='a helper that returns nothing, a parser installed over the user\'s '
                      'handler, or a dropped handler result is not `parse(stdout of the command '
                      'with the inputs substituted)`')
def c18_h(ctx):
    # (a) unpack_meta / prepare_seed: every exit returns (positional, keyword) inputs
    for name in ('unpack_meta', 'prepare_seed'):
        f = ctx.fn(T + ':' + name)
        ex = ctx.ex(f)
        cfg = cfg_of(f)
        rr = returns(f)
        falls = [p for (p, lab) in cfg.ret.pred
                 if not (p.kind == 'stmt' and isinstance(p.ast, ast.Return))]
        va = f.node.args.vararg.arg if f.node.args.vararg else None
        kw = f.node.args.kwarg.arg if f.node.args.kwarg else None
        ok = bool(rr) and not falls and va is not None and kw is not None
        for r in rr:
            t = ex.term(r.value)
            ok = ok and t[0] == 'tuple' and len(t[1]) == 2 and t[1][0] == ('param', va) and \
                (t[1][1] == ('param', kw) or contains(t[1][1], ('param', kw)))
        ctx.check(ok, f, '{} returns (inputs, kwinputs)'.format(name), 'return inputs, kwinputs',
                  '{} does not return the (positional, keyword) inputs on every exit'.format(name),
                  fn=f, node=rr[0] if rr else f.node)
    um = ctx.fn(T + ':unpack_meta')
    exu = ctx.ex(um)
    kw = um.node.args.kwarg.arg
    merged = [n for n in own_nodes(um.node) if isinstance(n, (ast.Assign, ast.Return)) and
              n.value is not None and
              match(exu.term(n.value), pattern("{}['meta'].copy()".format(kw))) is not None and
              not match(exu.raw(n.value), pattern("_['meta'].copy()"))]
    rr = returns(um)
    flows = any(contains(exu.term(r.value), "{}['meta'].copy()".format(kw)) for r in rr)
    ok = flows and all(_has_guard(ctx, um, n, ("'meta' in _k",), True) for n in merged) and \
        all(_has_guard(ctx, um, n, ("'meta' in _k",), True) for n in own_nodes(um.node)
            if isinstance(n, ast.Assign) and
            match(exu.raw(n.value), pattern("_['meta'].copy()")) is not None)
    ctx.check(ok, um, 'merged meta data is what unpack_meta returns',
              "kwinputs = merged copy when 'meta' in kwinputs",
              'the merged meta data do not reach the return value of unpack_meta (or are merged '
              'when there are none)', fn=um, node=rr[0] if rr else um.node)
    # (b) run_external: optional user preparation, handler applied to the process output
    re_ = ctx.fn(T + ':run_external')
    ex = ctx.ex(re_)
    cfg = cfg_of(re_)
    pi = [c for c in ctx.calls(re_) if ex.term(c.func) == ('param', 'prepare_inputs')]
    ok = len(pi) == 1 and any(p and t == ('param', 'prepare_inputs')
                              for (t, p, _) in ctx.guards(re_, pi[0]))
    fm = [c for c in ctx.calls(re_, name='format') if ex.raw(c.func.value) == ('name', 'command')]
    if ok and fm:
        fk = [ex.term(x.value) for x in fm[0].keywords if x.arg is None]
        fa = [ex.term(x.value) for x in fm[0].args if isinstance(x, ast.Starred)]
        ok = bool(fk) and bool(fa) and contains(fk[0], 'prepare_inputs(*_)') and \
            contains(fa[0], 'prepare_inputs(*_)')
    ctx.check(ok, re_, 'user preparation applied when given',
              'if prepare_inputs: inputs, kwinputs = prepare_inputs(*inputs, **kwinputs)',
              'the user\'s prepare_inputs is not applied exactly when it is given, or its result '
              'does not reach the command line', fn=re_, node=pi[0] if pi else re_.node)
    pr = [c for c in ctx.calls(re_) if ex.term(c.func) == ('param', 'process_result')]
    rr = returns(re_)
    falls = [p for (p, lab) in cfg.ret.pred
             if not (p.kind == 'stmt' and isinstance(p.ast, ast.Return))]
    ok = len(pr) == 1 and bool(rr) and not falls and all(
        match(ex.term(r.value), pattern('process_result(*_)')) is not None for r in rr)
    ctx.check(ok, re_, 'the handler\'s value is returned', 'return process_result(...)',
              'run_external does not return the value of the result handler on every exit',
              fn=re_, node=rr[0] if rr else re_.node)
    if len(pr) == 1:
        c = pr[0]
        a0 = ex.term(c.args[0]) if c.args and not isinstance(c.args[0], ast.Starred) else None
        st = [ex.term(x.value) for x in c.args if isinstance(x, ast.Starred)]
        kws = [ex.term(x.value) for x in c.keywords if x.arg is None]
        ok = a0 is not None and contains(a0, 'subprocess.run(*_)') and len(c.args) == 2 and \
            bool(st) and bool(kws) and contains(kws[0], 'prepare_seed(*_)') and \
            contains(st[0], 'prepare_seed(*_)')
        ctx.check(ok, re_, 'handler receives (process output, inputs, keyword inputs)',
                  'process_result(completed_process, *inputs, **kwinputs)',
                  'the handler is not called as handler(process output, *inputs, **kwinputs)',
                  fn=re_, node=c)
    runs = ctx.calls(re_, 'subprocess.run(*_)')
    ok = len(runs) == 1 and bool(runs[0].args) and \
        contains(ex.term(runs[0].args[0]), 'command.format(*_)')
    if ok:
        star = [k for k in runs[0].keywords if k.arg is None]
        ok = len(star) == 1 and match(ex.term(star[0].value),
                                      pattern('dict(shell=True, check=True)')) is not None
    ctx.check(ok, re_, 'the formatted command is run in a shell, failures raise',
              'subprocess.run(command.format(...), shell=True, check=True, ...)',
              'subprocess.run is not given the formatted command with shell=True, check=True',
              fn=re_, node=runs[0] if runs else re_.node)
    # (c) external_operation: the default parser replaces only None or a type
    eo = ctx.fn(T + ':external_operation')
    exo = ctx.ex(eo)
    inst = [s for s in own_nodes(eo.node) if isinstance(s, ast.Assign) and
            isinstance(s.targets[0], ast.Name) and s.targets[0].id == 'process_result' and
            contains(exo.raw(s.value), 'stdout_to_array')]
    if not inst:
        raise AnchorMissing('default parser installation in external_operation')
    ok = False
    for grp in ctx.guard_groups(eo, inst[0]):
        for (t, pol) in grp:
            if pol and t[0] == 'bool' and t[1] == 'or' and len(t[2]) == 2:
                parts = list(t[2])
                none_ = [x for x in parts
                         if match(x, pattern('process_result is None')) is not None]
                isin = [x for x in parts
                        if match(x, pattern('isinstance(process_result, _T)')) is not None]
                ok = ok or (len(none_) == 1 and len(isin) == 1)
    ctx.check(ok, eo, 'default parser only for None or a type',
              'if process_result is None or isinstance(process_result, (str, np.dtype))',
              'the default parser is not installed exactly when the handler is missing or is a '
              'type: a user handler is replaced, or a missing one stays None', fn=eo,
              node=inst[0])
    v = exo.term(inst[0].value)
    ok = match(v, pattern('partial(stdout_to_array, **_k)')) is not None and any(
        k is None and x[0] == 'dict' and (('const', 'sep'), ('param', 'sep')) in x[1]
        for (k, x) in v[3])
    ctx.check(ok, eo, 'separator reaches the parser', 'partial(stdout_to_array, sep=sep, ...)',
              'the separator is not bound to the default parser', fn=eo, node=inst[0])
    sk = [s for s in own_nodes(eo.node) if isinstance(s, ast.Assign) and
          isinstance(s.targets[0], ast.Name) and s.targets[0].id == 'subprocess_kwargs']
    ok = all(match_any(exo.raw(s.value), ('subprocess_kwargs or {}', 'dict(subprocess_kwargs or {})',
                                          '{} if subprocess_kwargs is None else subprocess_kwargs',
                                          '{} if subprocess_kwargs is None else '
                                          'dict(subprocess_kwargs)'))
             is not None for s in sk)
    pipe = [s for s in own_nodes(eo.node) if isinstance(s, ast.Assign) and
            isinstance(s.targets[0], ast.Subscript) and
            match(exo.raw(s.targets[0]), pattern("subprocess_kwargs['stdout']")) is not None]
    ok = ok and bool(sk) and bool(pipe) and ctx.must_precede(eo, sk, pipe[0])
    ctx.check(ok, eo, 'user subprocess options kept when the pipe is added',
              'subprocess_kwargs = subprocess_kwargs or {} before the pipe is set',
              'the user\'s subprocess options are discarded (or None is subscripted) when the '
              'stdout pipe is requested', fn=eo, node=sk[0] if sk else eo.node)


@obligation('C18-i', 'T2', 'no result buffer takes the dtype of a caller\'s array and then receives '
            'computed values (shared sweep of C08-l, restricted to the modules this property is '
            'anchored in; `*_like(x)` and `dtype=x.dtype` allocations)', floor=1,
            necessary='row results are stored as computed, not cast to the dtype of an input (numpy truncates floats silently when they are assigned into an '
                      'integer array)')
def c18_dtype(ctx):
    from .base import inherited_dtype_obligation
    inherited_dtype_obligation(ctx, ['elfi.model.tools'])
