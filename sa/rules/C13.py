"""C13 - weighted-sample statistics and the mixture proposal.

Decided: the partition structure of the weighted quantile, the structure of the mixture
density, lock-step bookkeeping and the support filter of the constrained sampler, weight
normalisation, the weighted-variance and ESS formulas (normal forms over sample sums,
sa/sumalg.py).  Not decided: monotonicity in alpha, rescale invariance for all inputs.
"""

import ast

from .. import AnalysisError, AnchorMissing
from ..cfg import cfg_of
from ..model import own_nodes
from ..values import pattern, match, match_any, find, contains, show, subterms
from .base import obligation, src, callee_name, if_branches, split_if
from .C04 import pattern_term, returns, enclosing_loop, _inside

U = 'elfi.methods.utils'


@obligation('C13-a', 'T6 T7 T5', 'weighted quantile: normalised, one permutation, half-open '
            'partition', floor=6,
            necessary='a closed/open flip or a permutation applied to one side only selects '
                      'another element')
def c13_a(ctx):
    f = ctx.fn(U + ':weighted_sample_quantile')
    ex = ctx.ex(f)
    rr = returns(f)
    if len(rr) != 1:
        ctx.undecided('weighted_sample_quantile has {} returns'.format(len(rr)))
    t = ex.term(rr[0].value)
    alts = t[1] if t[0] == 'phi' else (t,)
    IDX = 'np.argsort(x)'
    main = [a for a in alts if contains(a, 'np.where(_)')]
    zero = [a for a in alts if a not in main]
    ctx.check(len(main) == 1, f, 'quantile selection', 'x[argsort(x)][index_alpha]',
              'no selection through np.where in the returned value', fn=f, node=rr[0])
    if not main:
        return
    m = match(main[0], pattern('x[np.argsort(x)][_i]'))
    ctx.check(m is not None, f, 'element of the sorted sample', 'x[index][index_alpha]',
              'the returned element is {} not x[argsort(x)][i]'.format(show(main[0])[:80]), fn=f,
              node=rr[0])
    if m is None:
        return
    ia = m['i']
    w = match(ia, pattern('np.where(np.logical_and(_a, _b))[0][0]'))
    ctx.check(w is not None, f, 'first index in the partition cell',
              'np.where(logical_and(lower, upper))[0][0]',
              'index is {} '.format(show(ia)[:100]), fn=f, node=rr[0])
    if w is None:
        return
    a, b = w['a'], w['b']
    # a: cum[:-1] < alpha ; b: alpha <= cum[1:]
    la = match(a, pattern('_c[:-1] < alpha'))
    lb = match(b, pattern('alpha <= _c[1:]'))
    if la is None and lb is None:
        la = match(b, pattern('_c[:-1] < alpha'))
        lb = match(a, pattern('alpha <= _c[1:]'))
    ctx.check(la is not None, f, 'strict lower side', 'cum[:-1] < alpha',
              'lower side of the cell is {}'.format(show(a)[:60]), fn=f, node=rr[0])
    ctx.check(lb is not None, f, 'closed upper side', 'alpha <= cum[1:]',
              'upper side of the cell is {}'.format(show(b)[:60]), fn=f, node=rr[0])
    if la is None or lb is None:
        return
    ctx.check(la['c'] == lb['c'], f, 'adjacent slices of one cumulative vector',
              'same cum_weights on both sides',
              'the two sides use different cumulative vectors', fn=f, node=rr[0])
    cum = la['c']
    # cum = insert(cumsum(weights_normalised[index]), 0, 0)
    mc = match(cum, pattern('np.insert(np.cumsum(_w[np.argsort(x)]), 0, 0)'))
    ctx.check(mc is not None, f, 'cumulative weights in sample order with a leading 0',
              'insert(cumsum(weights[argsort(x)]), 0, 0)',
              'cumulative weights are {}'.format(show(cum)[:100]), fn=f, node=rr[0])
    if mc is not None:
        wn = mc['w']
        walts = wn[1] if wn[0] == 'phi' else (wn,)
        ok = all(match(x, pattern('_v / np.sum(_v)')) is not None for x in walts)
        ctx.check(ok, f, 'weights normalised by their sum', 'w / sum(w)',
                  'weights are {} - not divided by their sum'.format(show(wn)[:80]), fn=f,
                  node=rr[0])
    # equal weights only when none were given
    dflt = [n for n in own_nodes(f.node) if isinstance(n, ast.Assign) and
            isinstance(n.targets[0], ast.Name) and n.targets[0].id == 'weights' and
            match_any(ex.raw(n.value), ('np.ones(_)', 'np.ones_like(_)', 'np.full(_, _)'))
            is not None]
    ok = len(dflt) == 1 and any(pol and match(t_, pattern('weights is None')) is not None
                                for (t_, pol, _) in ctx.guards(f, dflt[0]))
    ctx.check(ok, f, 'equal weights exactly when none are given',
              'if weights is None: weights = np.ones(n)',
              'the given weights are replaced by equal weights (or None is used as weights)',
              fn=f, node=dflt[0] if dflt else rr[0])
    # the last cumulative weight is pinned to 1: rounding in the cumulative sum must not leave
    # alpha = 1 (or an alpha within rounding of 1) without a cell
    pin = [n for n in own_nodes(f.node) if isinstance(n, ast.Assign) and
           isinstance(n.targets[0], ast.Subscript) and
           ex.raw(n.targets[0].slice) in (('const', -1), ('unary', '-', ('const', 1))) and
           ex.raw(n.value) in (('const', 1.0), ('const', 1))]
    wh = [n for n in own_nodes(f.node) if isinstance(n, ast.Call) and callee_name(n) == 'where']
    ok = len(pin) == 1 and bool(wh) and ctx.must_precede(f, pin, wh[0]) and \
        isinstance(pin[0].targets[0].value, ast.Name) and \
        any(isinstance(x, ast.Name) and x.id == pin[0].targets[0].value.id
            for x in ast.walk(wh[0]))
    ctx.check(ok, f, 'last cumulative weight pinned to 1', 'cum_weights[-1] = 1.0',
              'the last cumulative weight is not set to 1 before the cell is searched: with '
              'rounding in the cumulative sum a level near 1 finds no cell', fn=f,
              node=pin[0] if pin else rr[0])
    # alpha == 0 -> smallest element
    ok = len(zero) == 1 and match(zero[0], pattern('x[np.argsort(x)[0]]')) is not None
    sel = [n for n in own_nodes(f.node) if isinstance(n, ast.If) and
           if_branches(ex, n, 'alpha == 0') is not None]
    if sel:
        zb = if_branches(ex, sel[0], 'alpha == 0')[0]
        ok = ok and any(isinstance(s_, ast.Assign) and
                        match(ex.term(s_.value), pattern('x[np.argsort(x)[0]]')) is not None
                        for s_ in zb)
    ctx.check(ok and bool(sel), f, 'alpha = 0 gives the minimum', 'x[index[0]]',
              'the alpha == 0 case does not return the smallest element', fn=f,
              node=sel[0] if sel else rr[0])


@obligation('C13-b', 'T7 T8', 'mixture density = sum of w_k N(x; m_k, cov) over normalised '
            'parameters', floor=4,
            necessary='unnormalised weights or mismatched (mean, weight) pairs give another '
                      'density')
def c13_b(ctx):
    gm = ctx.cls(U + ':GMDistribution')
    pdf = ctx.own_method(gm, 'pdf')
    ex = ctx.ex(pdf)
    loops = [n for n in own_nodes(pdf.node) if isinstance(n, ast.For)]
    lo = None
    for n in loops:
        it = ex.term(n.iter, cfg_of(pdf).by_stmt[id(n)])
        m = match(it, pattern('zip(_m, _w)'))
        if m is not None:
            lo = (n, m)
    ctx.check(lo is not None, pdf, 'components paired', 'for m, w in zip(means, weights)',
              'the density does not iterate over (mean, weight) pairs', fn=pdf,
              node=loops[0] if loops else pdf.node)
    if lo is None:
        return
    n, m = lo
    norm = pattern('cls._normalize_params(means, weights)')
    ok = m['m'] == ('item', norm_term(ctx, pdf), 0) and m['w'] == ('item', norm_term(ctx, pdf), 1)
    ctx.check(ok, pdf, 'normalised parameters', 'means, weights = _normalize_params(means, weights)',
              'the loop runs over {} / {} instead of the normalised parameters'.format(
                  show(m['m'])[:50], show(m['w'])[:50]), fn=pdf, node=n)
    acc = [s for s in ast.walk(n) if isinstance(s, ast.AugAssign) and isinstance(s.op, ast.Add)]
    ok = False
    for s in acc:
        v = ex.term(s.value)
        mm = match_any(v, ('_w * ss.multivariate_normal.pdf(_x, mean=_m, cov=cov)',
                           'ss.multivariate_normal.pdf(_x, mean=_m, cov=cov) * _w'))
        if mm is not None and mm['w'][0] == 'item' and mm['w'][2] == 1 and \
                mm['m'][0] == 'item' and mm['m'][2] == 0 and mm['w'][1] == mm['m'][1]:
            ok = True
    ctx.check(ok, pdf, 'weighted component density', 'd += w * mvn.pdf(x, mean=m, cov=cov)',
              'the accumulated term is not w * N(x; m, cov) of the paired component', fn=pdf,
              node=acc[0] if acc else n)
    # every density evaluated in pdf is N(x; m, cov) with the shared covariance: a univariate
    # normal takes a standard deviation, not a variance
    ctx.fact('scipy.stats.norm.pdf(x, loc, scale): scale is a standard deviation; '
             'multivariate_normal.pdf(x, mean, cov): cov is a (co)variance')
    for c_ in ctx.calls(pdf):
        ft = ex.term(c_.func)
        if match(ft, pattern('ss.norm.pdf')) is not None or \
                match(ft, pattern('ss.norm.logpdf')) is not None:
            kw = dict((k.arg, ex.term(k.value)) for k in c_.keywords)
            sc = kw.get('scale', ex.term(c_.args[2]) if len(c_.args) > 2 else None)
            oksc = sc is not None and contains(sc, 'np.sqrt(_)') and \
                ('param', 'cov') in set(subterms(sc))
            ctx.check(oksc, pdf, 'univariate component uses the standard deviation',
                      'scale = sqrt(cov)',
                      'ss.norm.pdf is given scale={}: the shared covariance is a variance, the '
                      'scale must be its square root'.format(show(sc)[:40] if sc else None),
                      fn=pdf, node=c_)
        elif match(ft, pattern('ss.multivariate_normal.pdf')) is not None:
            kw = dict((k.arg, ex.term(k.value)) for k in c_.keywords)
            cv = kw.get('cov', ex.term(c_.args[2]) if len(c_.args) > 2 else None)
            ctx.check(cv == ('param', 'cov'), pdf, 'component covariance is the shared one',
                      'cov=cov', 'a component is evaluated with covariance {}'.format(
                          show(cv)[:40] if cv else None), fn=pdf, node=c_)
    # log density = log of the density with the same arguments, nothing clipped or floored
    lg = ctx.own_method(gm, 'logpdf')
    exl = ctx.ex(lg)
    rl = returns(lg)
    okl = False
    if len(rl) == 1:
        t = exl.term(rl[0].value)
        m_ = match(t, pattern('np.log(cls.pdf(*_))'))
        if m_ is not None:
            c_ = t[2][0]
            kw_ = dict(c_[3])
            a_ = list(c_[2])
            okl = (a_[:1] == [('param', lg.params[1])] and
                   kw_.get('means', a_[1] if len(a_) > 1 else None) == ('param', 'means') and
                   kw_.get('cov', a_[2] if len(a_) > 2 else None) == ('param', 'cov') and
                   kw_.get('weights', a_[3] if len(a_) > 3 else None) == ('param', 'weights'))
    ctx.check(okl, lg, 'log density = log(pdf) of the same mixture', 'np.log(cls.pdf(x, means, '
              'cov, weights))', 'logpdf is `{}` - not the plain logarithm of pdf with the same '
              'arguments (a floor or clip makes it constant where the density is small)'.format(
                  src(rl[0].value)[:70] if rl else ''), fn=lg, node=rl[0] if rl else lg.node)
    init = [s for s in own_nodes(pdf.node) if isinstance(s, ast.Assign) and
            match(ex.term(s.value), pattern('np.zeros(len(_))')) is not None]
    ctx.check(bool(init) and ctx.must_precede(pdf, init, n), pdf, 'accumulator starts at zero',
              'd = zeros(len(x))', 'the accumulator does not start at zero', fn=pdf,
              node=init[0] if init else n)
    npf = ctx.own_method(gm, '_normalize_params')
    exn = ctx.ex(npf)
    rr = returns(npf)
    ok = len(rr) == 1
    if ok:
        t = exn.term(rr[0].value)
        ok = t[0] == 'tuple' and len(t[1]) == 2 and \
            match(t[1][1], pattern('normalize_weights(_)')) is not None
    ctx.check(ok, npf, 'weights normalised', 'normalize_weights(weights)',
              '_normalize_params does not normalise the weights', fn=npf,
              node=rr[0] if rr else npf.node)
    nw = ctx.fn(U + ':normalize_weights')
    exw = ctx.ex(nw)
    rr = returns(nw)
    ok = len(rr) == 1 and match_any(exw.term(rr[0].value),
                                    ('np.atleast_1d(weights) / np.sum(weights)',
                                     'np.atleast_1d(weights) / np.sum(np.atleast_1d(weights))',
                                     'np.asarray(weights) / np.sum(np.asarray(weights))',
                                     'np.asarray(weights) / np.sum(weights)',
                                     'weights / np.sum(weights)')) is not None
    ctx.check(ok, nw, 'normalisation', 'w / sum(w)', 'normalize_weights does not divide by the sum',
              fn=nw, node=rr[0] if rr else nw.node)
    # the caller's weight array is not modified: no in-place operation on it or on a view of it
    aliases = {nw.params[0]}
    for n_ in own_nodes(nw.node):
        if isinstance(n_, ast.Assign) and isinstance(n_.targets[0], ast.Name) and \
                isinstance(n_.value, ast.Call) and n_.value.args and \
                isinstance(n_.value.args[0], ast.Name) and n_.value.args[0].id in aliases and \
                callee_name(n_.value) in ('atleast_1d', 'asarray', 'asanyarray', 'atleast_2d',
                                          'ravel', 'squeeze'):
            aliases.add(n_.targets[0].id)       # these return the input itself for an ndarray
    inplace = [n_ for n_ in own_nodes(nw.node)
               if (isinstance(n_, ast.AugAssign) and isinstance(n_.target, ast.Name) and
                   n_.target.id in aliases) or
               (isinstance(n_, ast.Assign) and isinstance(n_.targets[0], ast.Subscript) and
                isinstance(n_.targets[0].value, ast.Name) and
                n_.targets[0].value.id in aliases) or
               (isinstance(n_, ast.Call) and any(
                   k.arg == 'out' and isinstance(k.value, ast.Name) and k.value.id in aliases
                   for k in n_.keywords))]
    ctx.check(not inplace, nw, 'the caller\'s weights are left untouched',
              'a new array is returned',
              'normalize_weights operates in place on `{}`, which is the caller\'s array for '
              'ndarray input: stored population weights are rescaled when the population is '
              'used as a proposal'.format(src(inplace[0])[:40] if inplace else ''), fn=nw,
              node=inplace[0] if inplace else nw.node)
    g1 = any(any(pol and contains(t, 'np.any(_ < 0)') for (t, pol, _) in ctx.guards(nw, r))
             for r in ctx.stmts(nw, ast.Raise))
    g2 = any(any(pol and match(t, pattern('np.sum(weights) == 0')) is not None
                 for (t, pol, _) in ctx.guards(nw, r)) for r in ctx.stmts(nw, ast.Raise))
    ctx.check(g1 and g2, nw, 'invalid weights refused', 'negative or all-zero weights raise',
              'negative or all-zero weights are not refused', fn=nw, node=nw.node)


def norm_term(ctx, fn):
    ex = ctx.ex(fn)
    for n in own_nodes(fn.node):
        if isinstance(n, ast.Assign) and isinstance(n.targets[0], ast.Tuple):
            t = ex.term(n.value)
            if match(t, pattern('cls._normalize_params(means, weights)')) is not None:
                return t
    return ('unknown', 'norm')


@obligation('C13-c', 'T5 T7 T3', 'the constrained sampler returns exactly `size` valid points',
            floor=6, necessary='counters out of step overwrite or leave uninitialised rows; a '
                               'negated filter keeps the invalid points')
def c13_c(ctx):
    gm = ctx.cls(U + ':GMDistribution')
    rv = ctx.own_method(gm, 'rvs')
    ex = ctx.ex(rv)
    loops = [n for n in own_nodes(rv.node) if isinstance(n, ast.While)]
    if not loops:
        raise AnchorMissing('no sampling loop in GMDistribution.rvs')
    lo = loops[0]
    hdr = cfg_of(rv).by_stmt[id(lo)]
    # roles (never local names): ACC from the loop test, OUT / X from the store into the
    # buffer at [ACC : ACC + k], LEFT from the size of the component draw
    tt = ex.raw(lo.test)
    m = match(tt, pattern('_a < size'))
    ok = m is not None and m['a'][0] == 'name'
    ctx.check(ok, rv, 'loop until enough points', 'while n_accepted < size',
              'the loop condition is {}'.format(src(lo.test)), fn=rv, node=lo)
    if not ok:
        return
    ACC = m['a'][1]
    outs = []
    for s_ in ast.walk(lo):
        if isinstance(s_, ast.Assign) and isinstance(s_.targets[0], ast.Subscript) and \
                isinstance(s_.targets[0].value, ast.Name) and \
                isinstance(s_.targets[0].slice, ast.Slice) and \
                ex.raw(s_.targets[0].slice.lower) == ('name', ACC):
            outs.append(s_)
    if len(outs) != 1 or not isinstance(outs[0].value, ast.Name):
        ctx.bad(rv, 'kept points stored after the accepted ones',
                'no store of the kept points at [n_accepted : ...]', fn=rv, node=lo)
        return
    OUT, X = outs[0].targets[0].value.id, outs[0].value.id
    ch = [c for c in ast.walk(lo) if isinstance(c, ast.Call) and callee_name(c) == 'choice']
    LEFT = None
    if ch:
        ck = dict((kw.arg, ex.raw(kw.value)) for kw in ch[0].keywords)
        if ck.get('size', ('x',))[0] == 'name':
            LEFT = ck['size'][1]
    # filter
    flt = [s_ for s_ in ast.walk(lo) if isinstance(s_, ast.Assign) and
           isinstance(s_.targets[0], ast.Name) and s_.targets[0].id == X and
           match(ex.raw(s_.value), pattern('{x}[np.isfinite(prior_logpdf({x}))]'.format(x=X)))
           is not None]
    ok = bool(flt) and all(any(pol and match(t, pattern('prior_logpdf is not None')) is not None
                               for (t, pol, _) in ctx.guards(rv, s_)) for s_ in flt)
    bad = [s_ for s_ in ast.walk(lo) if isinstance(s_, ast.Assign) and
           contains(ex.raw(s_.value), 'prior_logpdf(_)') and s_ not in flt]
    ctx.check(ok and not bad, rv, 'support filter',
              'x = x[np.isfinite(prior_logpdf(x))] when a prior is given',
              'candidates are not filtered by the un-negated isfinite(prior_logpdf(x)) mask'
              + (' (found `{}`)'.format(src(bad[0])) if bad else ''), fn=rv,
              node=(flt or bad or [lo])[0])
    # output slice: [ACC : ACC + len(X)]
    s0 = outs[0]
    up = ex.raw(s0.targets[0].slice.upper) if s0.targets[0].slice.upper is not None else None
    ok = up is not None and up[0] == 'binop' and up[1] == '+' and up[2] == ('name', ACC)
    k = up[3] if ok else None
    if ok:
        kt = ex.term(s0.targets[0].slice.upper.right)
        ok = match(kt, pattern('len(_v)')) is not None and \
            match(kt, pattern('len(_v)'))['v'] == ex.term(s0.value)
    if ok and flt:
        ok = all(cfg_of(rv).exists_path(ctx.node(rv, f2), ctx.node(rv, s0), avoiding=[hdr])
                 for f2 in flt)
    ctx.check(ok, rv, 'kept points stored after the accepted ones',
              'output[n_accepted : n_accepted + len(x)] = x (after the filter)',
              'the kept points are not written to output[n_accepted : n_accepted + len(x)]',
              fn=rv, node=s0)
    incs = [s_ for s_ in ast.walk(lo) if isinstance(s_, ast.AugAssign) and
            isinstance(s_.target, ast.Name) and s_.target.id in (ACC, LEFT)]
    by = {}
    for s_ in incs:
        by[s_.target.id] = (type(s_.op).__name__, ex.raw(s_.value), s_)
    ok = LEFT is not None and set(by) == {ACC, LEFT} and by[ACC][0] == 'Add' and \
        by[LEFT][0] == 'Sub' and by[ACC][1] == by[LEFT][1] and (k is None or by[ACC][1] == k)
    ctx.check(ok, rv, 'counters move in lock-step',
              'n_accepted += k and n_left -= k with the number of kept points',
              'n_accepted and n_left are not advanced / reduced by the same number of kept '
              'points', fn=rv, node=incs[0] if incs else lo)
    if ACC in by:
        ok = ctx.must_precede(rv, [s0], by[ACC][2])
        ctx.check(ok, rv, 'store before advancing', 'output written before n_accepted moves',
                  'n_accepted is advanced before the points are stored', fn=rv, node=s0)
    init = {}
    for s_ in own_nodes(rv.node):
        if isinstance(s_, ast.Assign) and isinstance(s_.targets[0], ast.Name) and \
                s_.targets[0].id in (ACC, LEFT) and not _inside(s_, lo):
            init[s_.targets[0].id] = ex.raw(s_.value)
    ok = init.get(ACC) == ('const', 0) and init.get(LEFT) == ('name', 'size')
    ctx.check(ok, rv, 'counters start at (0, size)', 'n_accepted = 0, n_left = size',
              'counters start at {}'.format({k2: show(v) for k2, v in init.items()}), fn=rv,
              node=lo)
    pr = [c for c in ast.walk(lo) if isinstance(c, ast.Call) and
          match(ex.raw(c), pattern('ss.multivariate_normal.rvs(*_)')) is not None]
    ok = bool(ch) and bool(pr) and LEFT is not None
    if ok:
        ck = dict((kw.arg, ex.raw(kw.value)) for kw in ch[0].keywords)
        pk = dict((kw.arg, ex.raw(kw.value)) for kw in pr[0].keywords)
        gen = ch[0].func.value.id if isinstance(ch[0].func.value, ast.Name) else None
        ok = ck.get('size') == ('name', LEFT) and pk.get('size') == ('name', LEFT) and \
            ex.term(ch[0].keywords[[kw.arg for kw in ch[0].keywords].index('p')].value)[0] == 'item' \
            and pk.get('cov') == ('name', 'cov') and gen is not None and \
            pk.get('random_state') == ('name', gen) and \
            match(ex.term(ch[0].func.value), pattern('random_state or np.random')) is not None
    ctx.check(ok, rv, 'candidates', 'n_left components (p=normalised weights) and perturbations '
              'from one generator', 'component indices and perturbations are not both n_left '
              'draws from the same generator with p=weights / cov=cov', fn=rv,
              node=ch[0] if ch else lo)
    cand = [s_ for s_ in ast.walk(lo) if isinstance(s_, ast.Assign) and
            isinstance(s_.targets[0], ast.Name) and s_.targets[0].id == X and
            isinstance(s_.value, ast.BinOp)]
    ok = bool(cand) and match(ex.term(cand[0].value),
                              pattern('_m[_r.choice(*_)] + ss.multivariate_normal.rvs(*_)')) \
        is not None
    ctx.check(ok, rv, 'candidate = component mean + Gaussian step', 'means[inds] + perturb',
              'candidates are not means[inds] + perturbation', fn=rv,
              node=cand[0] if cand else lo)
    ob = [s_ for s_ in own_nodes(rv.node) if isinstance(s_, ast.Assign) and
          isinstance(s_.targets[0], ast.Name) and s_.targets[0].id == OUT]
    ok = bool(ob) and (match(ex.raw(ob[0].value), pattern('np.empty((size,) + _s)')) is not None
                       or match(ex.term(ob[0].value),
                                pattern('np.empty((_z,) + _s)')) is not None and
                       contains(ex.term(ob[0].value), 'size'))
    ctx.check(ok, rv, 'output has `size` rows', 'np.empty((size,) + means.shape[1:])',
              'the output buffer does not have `size` rows', fn=rv, node=ob[0] if ob else lo)
    rr = returns(rv)
    allowed = [('name', OUT), ('sub', ('name', OUT), ('const', 0))]
    okr = bool(rr) and all(ex.raw(r.value) in allowed or ex.raw1(r.value) in allowed
                           for r in rr)
    ctx.check(okr, rv, 'the filled buffer is returned', 'return output',
              'rvs does not return the buffer it filled', fn=rv, node=rr[0] if rr else lo)


def _subst_phi(t, choice):
    """Replace every phi term by its alternative number choice[phi] (uniformly)."""
    if not isinstance(t, tuple) or not t:
        return t
    if isinstance(t[0], str) and t[0] == 'phi' and t in choice:
        return _subst_phi(t[1][choice[t]], choice)
    return tuple(_subst_phi(c, choice) if isinstance(c, tuple) else c for c in t)


def _phis(t, acc):
    if not isinstance(t, tuple) or not t:
        return acc
    if isinstance(t[0], str) and t[0] == 'phi':
        if t not in acc:
            acc.append(t)
        return acc
    for c in t:
        if isinstance(c, tuple):
            _phis(c, acc)
    return acc


@obligation('C13-d', 'T14', 'weighted variance = reliability-weights unbiased formula; effective '
            'sample size = (sum w)^2 / sum w^2', floor=3,
            necessary='a statistic whose normal form over the sample sums differs is a different '
                      'function of the sample')
def c13_d(ctx):
    from .. import sumalg as sa_
    from ..ratfun import Rat, Unsupported, DividesByZero
    sa_.selfcheck()
    ctx.fact('vectors are normalised to polynomials in the sample vectors, np.sum / dot / average '
             'to sums of monomials S[m]; equality of the resulting rational functions in the S[m] '
             'is decided by coefficient comparison')
    um = ctx.repo.module('elfi.methods.utils')
    S = sa_.S

    def inline(t):
        f = t[1]
        if f[0] != 'global' or not f[1].startswith('elfi.'):
            return None
        mod, _, name = f[1].rpartition('.')
        m = ctx.repo.modules.get(mod)
        if m is None or name not in m.functions:
            return None
        callee = m.functions[name]
        rr = returns(callee)
        if len(rr) != 1:
            return None
        body = ctx.ex(callee).term(rr[0].value)
        binding = {}
        for i, a in enumerate(t[2]):
            if i < len(callee.params):
                binding[('param', callee.params[i])] = a
        for (k, v) in t[3]:
            binding[('param', k)] = v
        ctx.touch(callee)
        return body, binding

    def decide(fn, vec_names, expected, label, want_txt):
        ex = ctx.ex(fn)
        rr = returns(fn)
        if len(rr) != 1:
            ctx.undecided('{}: expected one return'.format(fn.name))
        t = ex.term(rr[0].value)
        phis = _phis(t, [])
        if len(phis) > 1:
            ctx.undecided('{}: more than one merged definition'.format(fn.name))
        alts = range(len(phis[0][1])) if phis else [0]
        for i in alts:
            tt = _subst_phi(t, {phis[0]: i}) if phis else t
            default = bool(phis) and vec_names.get('weights') is not None and \
                ('param', vec_names['weights']) not in set(subterms(tt))

            def vec_leaf(x):
                for role, pname in vec_names.items():
                    if x == ('param', pname):
                        return role[0]
                return None
            try:
                got = sa_.Conv(vec_leaf, inline).conv(tt)
            except DividesByZero:
                ctx.check(False, fn, label + (' (default weights)' if default else ''), want_txt,
                          '{} divides by a quantity that is identically zero{}'.format(
                              fn.name, ' for unit weights' if default else ''), fn=fn,
                          node=rr[0])
                continue
            except Unsupported as e:
                ctx.undecided('{} outside the sum fragment: {}'.format(fn.name, e))
            if isinstance(got, sa_.Vec):
                ctx.undecided('{} returns a vector expression'.format(fn.name))
            want = expected(default)
            ctx.check(got.same(want), fn, label + (' (default weights)' if default else ''),
                      want_txt, '{} computes {} which is not {}'.format(fn.name, got, want_txt),
                      fn=fn, node=rr[0])

    # weighted variance
    wv = [f for f in um.functions.values() if f.params[:2] == ['x', 'weights'] and
          any(ctx.ex(f).term(r.value)[0] == 'binop' and ctx.ex(f).term(r.value)[1] == '/' and
              contains(ctx.ex(f).term(r.value), 'np.sum(_)') for r in returns(f))]
    if len(wv) != 1:
        raise AnchorMissing('weighted variance function')

    def want_var(default):
        if default:
            n = Rat.sym('n')
            return (S(x=2) - S(x=1) * S(x=1) / n) / (n - n / n)
        num = S(w=1, x=2) - S(w=1, x=1) * S(w=1, x=1) / S(w=1)
        return num / (S(w=1) - S(w=2) / S(w=1))
    decide(wv[0], {'x': 'x', 'weights': 'weights'}, want_var, 'reliability-weights variance',
           'sum w (x - xbar)^2 / (V1 - V2/V1), xbar = sum w x / sum w')
    # effective sample size
    es = [f for f in um.functions.values() if f.params == ['weights'] and
          any(isinstance(n, ast.Call) and callee_name(n) in ('square',) for n in
              own_nodes(f.node)) and f.name != wv[0].name and
          any(ctx.ex(f).term(r.value)[0] == 'binop' and ctx.ex(f).term(r.value)[1] == '/'
              for r in returns(f))]
    if len(es) != 1:
        raise AnchorMissing('effective sample size function')
    decide(es[0], {'weights': 'weights'}, lambda d: S(w=1) * S(w=1) / S(w=2),
           'effective sample size', '(sum w)^2 / sum w^2')


@obligation('C13-e', 'T14', 'the statistics helpers do not modify the arrays they are given', floor=6,
            necessary='weights, samples and means handed to these helpers are stored populations '
                      'and results: an in-place operation rewrites them')
def c13_e(ctx):
    from .base import inplace_param_sites
    um = ctx.repo.module(U)
    # helpers whose purpose is to fill / convert the container they are given
    by_design = {'numpy_to_python_type': 'converts the values of the dict it is given',
                 'sample_object_to_dict': 'fills the dict it is given'}
    fns = list(um.functions.values()) + [m for c in um.classes.values()
                                         for m in c.methods.values()]
    n = 0
    for f in fns:
        if f.name in by_design or getattr(f, 'node', None) is None:
            continue
        n += 1
        sites = inplace_param_sites(f.node)
        ctx.check(not sites, f, 'arguments are not modified in place', '',
                  '{} modifies its argument in place (`{}`): the caller\'s array changes'.format(
                      f.name, src(sites[0])[:50] if sites else ''), fn=f,
                  node=sites[0] if sites else f.node)
    if n < 6:
        ctx.undecided('expected the statistics helpers, found {}'.format(n))


def _falls_off(fn):
    cfg = cfg_of(fn)
    return [p for (p, lab) in cfg.ret.pred
            if not (p.kind == 'stmt' and isinstance(p.ast, ast.Return))]


def _guarded(ctx, fn, node, pats, pol):
    return any(p == pol and match_any(t, pats) is not None for (t, p, _) in ctx.guards(fn, node))


def _means_view(t):
    """t is the caller's `means` seen through shape-only conversions, on every alternative."""
    alts = t[1] if t[0] == 'phi' else (t,)
    shape_only = ('numpy.atleast_1d', 'numpy.atleast_2d', 'numpy.squeeze', 'numpy.asanyarray',
                  'numpy.asarray', 'numpy.array')

    def view(x):
        if x == ('param', 'means'):
            return True
        if x[0] == 'call' and x[1][0] == 'global' and x[1][1] in shape_only and x[2] and \
                not x[3]:
            return view(x[2][0])
        return False
    return all(view(a) for a in alts)



@obligation('C13-f', 'T8 T11', 'defaults apply only when the argument is missing; what was computed '
            'is what is returned (mixture density, sampler output, normalised parameters)',
            floor=9,
            necessary='equal weights substituted for given ones, or an exit that drops the '
                      'accumulated value, is another function of the sample')
def c13_f(ctx):
    from .base import bind_args
    # (a) equal weights exactly when none are given
    wv = ctx.fn(U + ':weighted_var')
    gm = ctx.cls(U + ':GMDistribution')
    npar = gm.lookup('_normalize_params')
    if npar is None:
        raise AnchorMissing('GMDistribution._normalize_params')
    ctx.touch(npar)
    for f in (wv, npar):
        ex = ctx.ex(f)
        dflt = [n for n in own_nodes(f.node) if isinstance(n, ast.Assign) and
                isinstance(n.targets[0], ast.Name) and n.targets[0].id == 'weights' and
                match_any(ex.raw(n.value), ('np.ones(_)', 'np.ones_like(_)', 'np.full(_, _)'))
                is not None]
        ok = len(dflt) == 1 and _guarded(ctx, f, dflt[0], ('weights is None',), True)
        ctx.check(ok, f, 'equal weights exactly when none are given',
                  'if weights is None: weights = np.ones(n)',
                  'given weights are replaced by equal weights (or None is used as weights)',
                  fn=f, node=dflt[0] if dflt else f.node)
    # (b) normalised parameters: (means, weights) in this order, weights always normalised
    ex = ctx.ex(npar)
    rr = returns(npar)
    ok = len(rr) == 1 and not _falls_off(npar)
    if ok:
        t = ex.term(rr[0].value)
        ok = t[0] == 'tuple' and len(t[1]) == 2 and \
            match(t[1][1], pattern('normalize_weights(_w)')) is not None and \
            _means_view(t[1][0])
    ctx.check(ok, npar, 'returns (means, normalised weights)',
              'return means, normalize_weights(weights)',
              'the parameter normalisation does not return (means, normalised weights) in this '
              'order', fn=npar, node=rr[0] if rr else npar.node)
    for name in ('pdf', 'rvs'):
        f = ctx.own_method(gm, name)
        exf = ctx.ex(f)
        cs = ctx.calls(f, resolved_to=npar) or ctx.calls(f, 'cls._normalize_params(*_)')
        ok = len(cs) == 1
        if ok:
            b = bind_args(cs[0], npar, skip_self=False)
            ok = b is not None and set(b) == {'means', 'weights'} and \
                all(exf.term(v) == ('param', k) for (k, v) in b.items())
            st = getattr(cs[0], '_parent', None)
            ok = ok and isinstance(st, ast.Assign) and isinstance(st.targets[0], ast.Tuple) and \
                [getattr(e, 'id', None) for e in st.targets[0].elts] == ['means', 'weights'] and \
                cfg_of(f).must_pass([ctx.node(f, st)])
        ctx.check(ok, f, '{}: parameters normalised first, unpacked in order'.format(name),
                  'means, weights = cls._normalize_params(means, weights)',
                  '{} does not normalise (means, weights) and unpack them in the same order'
                  .format(name), fn=f, node=cs[0] if cs else f.node)
    # (c) the density: every exit returns the accumulated sum; squeezed only to undo the
    # promotion of a scalar / single point
    pdf = ctx.own_method(gm, 'pdf')
    ex = ctx.ex(pdf)
    acc = [n for n in own_nodes(pdf.node) if isinstance(n, ast.AugAssign) and
           isinstance(n.op, ast.Add) and isinstance(n.target, ast.Name) and
           enclosing_loop(n) is not None]
    rr = returns(pdf)
    ok = len(acc) == 1 and bool(rr) and not _falls_off(pdf)
    if ok:
        d = acc[0].target.id
        for r in rr:
            v = _ret_value(ex, pdf, ctx, r, (d,))
            plain = v == ('name', d)
            sq = match_any(v, ('{}.squeeze()'.format(d), 'np.squeeze({})'.format(d))) is not None
            ok = ok and (plain or sq) and \
                cfg_of(pdf).must_precede([cfg_of(pdf).by_stmt[id(enclosing_loop(acc[0]))]],
                                         ctx.node(pdf, r))
            if sq:
                grp = [g for g in ctx.guard_groups(pdf, r)]
                ok = ok and any(
                    p and unweak_(t)[0] == 'bool' and unweak_(t)[1] == 'or' and
                    match(unweak_(t), pattern(
                        'np.asanyarray(x).ndim == 0 or (np.asanyarray(x).ndim == 1 and '
                        '_m.ndim == 2)')) is not None
                    for g in grp for (t, p) in g)
    ctx.check(ok, pdf, 'density returned on every exit; squeezed only for a scalar / single point',
              'return d.squeeze() if ndim == 0 or (ndim == 1 and means.ndim == 2) else d',
              'an exit of pdf does not return the accumulated density (or squeezes it under '
              'another condition than `the input was a scalar or one point`)', fn=pdf,
              node=rr[0] if rr else pdf.node)
    prom = [n for n in own_nodes(pdf.node) if isinstance(n, ast.Assign) and
            isinstance(n.targets[0], ast.Name) and n.targets[0].id == 'x']
    want = {1: 'np.atleast_1d(x)', 2: 'np.atleast_2d(x)'}
    okp = len(prom) == 2
    for n in prom:
        k = [k_ for (k_, p_) in want.items() if match(ex.raw(n.value), pattern(p_)) is not None]
        okp = okp and len(k) == 1 and _guarded(ctx, pdf, n, ('means.ndim == {}'.format(k[0]),
                                                             '_m.ndim == {}'.format(k[0])), True)
    ctx.check(okp, pdf, 'points promoted to the components\' dimension',
              'x = atleast_1d(x) if means.ndim == 1; atleast_2d(x) if means.ndim == 2',
              'the evaluation points are not promoted to match the dimension of the means',
              fn=pdf, node=prom[0] if prom else pdf.node)
    # (d) the sampler returns its buffer (one row of it when size is None)
    rv = ctx.own_method(gm, 'rvs')
    ex = ctx.ex(rv)
    rr = returns(rv)
    bufs = [n for n in own_nodes(rv.node) if isinstance(n, ast.Assign) and
            isinstance(n.targets[0], ast.Name) and
            match_any(ex.raw(n.value), ('np.empty(_)', 'np.zeros(_)')) is not None]
    ok = len(bufs) == 1 and bool(rr) and not _falls_off(rv)
    if ok:
        o = bufs[0].targets[0].id
        kinds = set()
        for r in rr:
            v = _ret_value(ex, rv, ctx, r, (o,))
            if v == ('name', o):
                kinds.add(('all', _guarded(ctx, rv, r, ('size is None',), True) or
                           _flag_guard(ctx, rv, ex, r, True)))
            elif match(v, pattern('{}[0]'.format(o))) is not None:
                kinds.add(('first', _guarded(ctx, rv, r, ('size is None',), True) or
                           _flag_guard(ctx, rv, ex, r, True)))
            else:
                kinds.add(('other', False))
        ok = kinds == {('all', False), ('first', True)}
    ctx.check(ok, rv, 'sampler returns its buffer (its only row when size is None)',
              'return output[0] if size was None else output',
              'rvs does not return the filled buffer, or unwraps it under another condition '
              'than `size is None`', fn=rv, node=rr[0] if rr else rv.node)
    sz = [n for n in own_nodes(rv.node) if isinstance(n, ast.Assign) and
          isinstance(n.targets[0], ast.Name) and n.targets[0].id == 'size']
    ok = len(sz) == 1 and ex.raw(sz[0].value) == ('const', 1) and \
        _guarded(ctx, rv, sz[0], ('size is None',), True)
    ctx.check(ok, rv, 'one point when size is None', 'if size is None: size = 1',
              'the requested size is replaced (or None is used as a size)', fn=rv,
              node=sz[0] if sz else rv.node)


def _ret_value(ex, fn, ctx, r, keep):
    """raw value of a return; a temporary that only holds the returned expression is looked
    through (names in `keep` are never expanded)."""
    v = ex.raw(r.value)
    if v[0] == 'name' and v[1] not in keep:
        defs = ex.reaching(v[1], ctx.node(fn, r))
        if len(defs) == 1 and defs[0].kind == 'assign':
            return ex.raw(defs[0].payload)
    return v


def unweak_(t):
    from .base import unweak
    return unweak(t)


def _flag_guard(ctx, fn, ex, node, want):
    """node is guarded by a boolean local that is True exactly on the `size is None` branch."""
    for (t, p, ta) in ctx.guards(fn, node):
        if t[0] == 'unary':
            continue        # the negated statement of the same test: its plain form is listed too
        while isinstance(ta, ast.UnaryOp) and isinstance(ta.op, ast.Not):
            ta = ta.operand  # (the polarity p belongs to the plain term t, not to the test text)
        if isinstance(ta, ast.Name):
            name = ta.id
            defs = [n for n in own_nodes(fn.node) if isinstance(n, ast.Assign) and
                    isinstance(n.targets[0], ast.Name) and n.targets[0].id == name]
            if len(defs) == 2 and all(isinstance(d.value, ast.Constant) and
                                      isinstance(d.value.value, bool) for d in defs):
                ok = all(_guarded(ctx, fn, d, ('size is None',), d.value.value) for d in defs)
                if ok:
                    return p == want
            if len(defs) == 1 and match(ex.raw(defs[0].value), pattern('size is None')) \
                    is not None and not any(
                        isinstance(n, ast.Assign) and isinstance(n.targets[0], ast.Name) and
                        n.targets[0].id == 'size' and
                        cfg_of(fn).exists_path(ctx.node(fn, n), ctx.node(fn, defs[0]))
                        for n in own_nodes(fn.node)):
                return p == want
    return False


@obligation('C13-g', 'T2', 'the weighted statistics and the mixture contain no absolute tolerance',
            floor=6,
            necessary='the quantile must be invariant to rescaling the weights and the other '
                      'statistics equal their formulas for all weights: a test against an '
                      'absolute number (np.isclose(sum, 0)) treats small valid weights as zero')
def c13_g(ctx):
    from .base import scale_free_sweep
    fns = [ctx.fn('elfi.methods.utils:weighted_sample_quantile'),
           ctx.fn('elfi.methods.utils:weighted_var'),
           ctx.fn('elfi.methods.utils:normalize_weights')]
    fns += list(ctx.cls('elfi.methods.utils:GMDistribution').methods.values())
    scale_free_sweep(ctx, fns, 'valid weights / spreads below the tolerance are treated as zero, '
                               'so the statistic depends on the scale of its input')


@obligation('C13-h', 'T2', 'no result buffer takes the dtype of a caller\'s array and then receives '
            'computed values (shared sweep of C08-l, restricted to the modules this property is '
            'anchored in; `*_like(x)` and `dtype=x.dtype` allocations)', floor=1,
            necessary='the statistics equal their formulas for integer-typed samples and weights too (numpy truncates floats silently when they are assigned into an '
                      'integer array)')
def c13_dtype(ctx):
    from .base import inherited_dtype_obligation
    inherited_dtype_obligation(ctx, ['elfi.methods.utils'])


@obligation('C13-i', 'T11', 'parameter normalisation keeps the component axis of a single '
            'k-dimensional component: the array of means is squeezed only on the side of a test of '
            'its shape', floor=1,
            necessary='an unconditional np.squeeze turns the means of one k-dimensional component, '
                      'shape (1, k), into k one-dimensional components: density and sampler then '
                      'describe another mixture (or raise on a matrix covariance)')
def c13_i(ctx):
    gm = ctx.cls('elfi.methods.utils:GMDistribution')
    npar = gm.lookup('_normalize_params')
    if npar is None:
        raise AnchorMissing('GMDistribution._normalize_params')
    ex = ctx.ex(npar)
    pm = npar.params[0] if npar.is_static else npar.params[1]
    n = 0
    for c in ctx.calls(npar, name='squeeze'):
        if any(k.arg == 'axis' for k in c.keywords) or len(c.args) > 1:
            continue
        arg = c.args[0] if c.args else (c.func.value if isinstance(c.func, ast.Attribute)
                                        else None)
        if arg is None or ('param', pm) not in set(subterms(ex.term(arg))):
            continue
        n += 1
        from .base import unweak
        single = ('_.shape[0] == 1', 'len(_) == 1', 'np.shape(_)[0] == 1')
        several = ('_.shape[0] != 1', '_.shape[0] > 1', 'len(_) != 1', 'len(_) > 1')
        ok = False
        for (t, pol, _) in ctx.guards(npar, c):
            u = unweak(t)
            parts = u[2] if u[0] == 'bool' and u[1] == 'and' else (u,)
            # squeezed only where "exactly one component row" is excluded
            if (not pol) and any(match_any(p_, single) is not None for p_ in parts) and all(
                    match_any(p_, single + ('_.ndim == 2', '_.ndim >= 2', 'np.ndim(_) == 2'))
                    is not None for p_ in parts):
                ok = True
            if pol and u[0] != 'bool' and match_any(u, several) is not None:
                ok = True
        ctx.check(ok, npar, 'squeeze of the means is conditional on their shape',
                  'a (1, k) array keeps its component axis',
                  '`{}` squeezes the array of means whatever its shape: a single k-dimensional '
                  'component (shape (1, k)) becomes k one-dimensional components'.format(
                      src(c)[:50]), fn=npar, node=c)
    if n == 0:
        ctx.ok(npar, 'the means are never fully squeezed', 'no np.squeeze of the means', fn=npar,
               node=npar.node)
