"""C07 - SMC-ABC populations: thresholds, prior support, importance weights.

Decided: orientation of the importance weight, argument binding of the mixture parameters,
which population is "previous", the covariance expression, the support filter, the threshold
handed to the inner round.  Not decided: numeric equality of weights / covariance.
"""

import ast

from .. import AnalysisError, AnchorMissing
from ..cfg import cfg_of
from ..model import own_nodes
from ..values import term_kwargs, pattern, match, match_any, find, contains, show, subterms, alias
from ..domains import polarity, POS, NEG, ZERO
from .base import obligation, src, callee_name, if_branches, split_if
from .C04 import pattern_term, returns, enclosing_loop, _inside

SMC = 'elfi.methods.inference.samplers:SMC'
GM = 'elfi.methods.utils:GMDistribution'


def weight_fns(ctx):
    smc = ctx.cls(SMC)
    ups = smc.overrides('update')
    ext = smc.overrides('extract_result')
    fs = [f for f in ctx.reachable(ups + ext, depth=3, may=True)
          if f.cls is not None and f.cls.is_subclass_of(smc) and
          ctx.calls(f, 'GMDistribution.logpdf(*_)')]
    if not fs:
        raise AnchorMissing('no SMC method reachable from update evaluates GMDistribution.logpdf')
    return smc, fs


@obligation('C07-a', 'T4', 'weight = prior density / mixture density; first population has unit '
            'weights', floor=4,
            necessary='an inverted ratio weights particles by proposal / prior')
def c07_a(ctx):
    smc, fs = weight_fns(ctx)
    for f in fs:
        ex = ctx.ex(f)
        rr = returns(f)
        if len(rr) != 1:
            ctx.undecided('{} has {} returns'.format(f.qname, len(rr)))
        rt = ex.term(rr[0].value)
        if rt[0] != 'tuple' or len(rt[1]) != 3:
            ctx.undecided('weight function does not return (means, w, cov)')
        w = rt[1][1]
        alts = w[1] if w[0] == 'phi' else (w,)
        ratio = [a for a in alts if contains(a, 'GMDistribution.logpdf(*_)')]
        ones = [a for a in alts if match(a, pattern('np.ones(_n)')) is not None]
        ctx.check(len(ratio) == 1 and len(ones) == 1 and len(alts) == 2, f, 'weight alternatives',
                  'importance ratio | ones', 'weights are {} - expected (ratio | ones)'.format(
                      show(w)[:120]), fn=f, node=rr[0])
        if ratio:
            r = ratio[0]
            is_p = lambda x: match(x, pattern('self._prior.logpdf(_)')) is not None
            is_q = lambda x: match(x, pattern('GMDistribution.logpdf(*_)')) is not None
            pp, pq = polarity(r, is_p), polarity(r, is_q)
            ctx.check(pp == POS, f, 'prior density in the numerator', 'polarity +',
                      'the weight depends on the prior log density with polarity {}'.format(pp),
                      fn=f, node=rr[0])
            ctx.check(pq == NEG, f, 'mixture density in the denominator', 'polarity -',
                      'the weight depends on the mixture log density with polarity {}'.format(pq),
                      fn=f, node=rr[0])
            ctx.check(match(r, pattern('np.exp(_)')) is not None, f, 'log densities exponentiated',
                      'w = exp(log p - log q)', 'weights are {} not exp(log p - log q)'.format(
                          show(r)[:80]), fn=f, node=rr[0])
            # same evaluation points
            pa = [s[2][0] for s in subterms(r) if is_p(s) and s[0] == 'call']
            qa = [s[2][0] for s in subterms(r) if is_q(s) and s[0] == 'call']
            ok = bool(pa) and bool(qa) and pa[0] == qa[0] and contains(pa[0], 'self.parameter_names')
            ctx.check(ok, f, 'both densities at the particles',
                      'prior and mixture evaluated at the same parameter matrix',
                      'prior and mixture are evaluated at different points', fn=f, node=rr[0])
        if ones:
            m = match(ones[0], pattern('np.ones(_n)'))
            sel = [n for n in own_nodes(f.node) if isinstance(n, ast.If) and
                   if_branches(ex, n, ('self._populations', 'len(self._populations) != 0',
                                       '0 < len(self._populations)')) is not None]
            ok = bool(sel) and any(
                isinstance(s, ast.Assign) and
                match(ex.term(s.value), pattern('np.ones(_n)')) is not None
                for s in if_branches(ex, sel[0], ('self._populations',
                                                  'len(self._populations) != 0',
                                                  '0 < len(self._populations)'))[1])
            ctx.check(ok, f, 'unit weights for the first population',
                      'ones when there is no previous population',
                      'unit weights are not selected exactly when no previous population exists',
                      fn=f, node=sel[0] if sel else rr[0])
        # particle matrix columns in parameter order
        pm = [n for n in own_nodes(f.node) if isinstance(n, ast.Assign) and
              contains(ex.term(n.value), 'np.column_stack(_)')]
        ok = bool(pm) and contains(ex.term(pm[0].value), 'self.parameter_names') and \
            contains(ex.term(pm[0].value), '_.outputs[_]')
        ctx.check(ok, f, 'particle matrix', 'column_stack(outputs[p] for p in parameter_names)',
                  'the particle matrix is not built from the population outputs in '
                  'parameter_names order', fn=f, node=pm[0] if pm else f.node)
    # the computed weights are the population's weights
    smc = ctx.cls(SMC)
    for ep in smc.overrides('_extract_population') if smc.lookup('_extract_population') else []:
        ex = ctx.ex(ep)
        st = [s for s in own_nodes(ep.node) if isinstance(s, ast.Assign) and
              isinstance(s.targets[0], ast.Attribute) and s.targets[0].attr == 'weights']
        ok = bool(st) and all(ex.term(s.value)[0] == 'item' and ex.term(s.value)[2] == 1 and
                              contains(ex.term(s.value), 'self._compute_weights_means_and_cov(_)')
                              or any(contains(ex.term(s.value), 'self.' + f.name + '(_)')
                                     for f in fs) for s in st)
        ctx.check(ok, ep, 'population carries the computed weights', 'sample.weights = w',
                  'the population\'s weights are not the computed importance weights', fn=ep,
                  node=st[0] if st else ep.node)


@obligation('C07-b', 'T8', 'mixture parameters are bound to the right arguments', floor=3,
            necessary='covariance and weights swapped evaluate another mixture')
def c07_b(ctx):
    smc = ctx.cls(SMC)
    gm = ctx.cls(GM)
    gp = smc.lookup('_gm_params')
    if gp is None:
        # discover: property returning a 3-tuple of attributes of the last population
        for m in smc.methods.values():
            rr = returns(m)
            if len(rr) == 1 and rr[0].value is not None:
                t = ctx.term(m, rr[0].value)
                if t[0] == 'tuple' and len(t[1]) == 3 and contains(t, 'self._populations[_]'):
                    gp = m
    if gp is None:
        raise AnchorMissing('mixture-parameter provider not found')
    ctx.touch(gp)
    rr = returns(gp)
    t = ctx.term(gp, rr[0].value)
    names = [x[2] if x[0] == 'attr' else None for x in t[1]]
    bases = set(x[1] if x[0] == 'attr' else None for x in t[1])
    ctx.check(len(bases) == 1 and None not in bases, gp, 'one population',
              'all three parameters come from one population object',
              'mixture parameters are taken from different objects', fn=gp, node=rr[0])
    lp = ctx.own_method(gm, 'logpdf')
    rv = ctx.own_method(gm, 'rvs')
    pdf = ctx.own_method(gm, 'pdf')
    ctx.check(lp.params[2:5] == names, lp, 'logpdf(x, *params) binding',
              '{} -> {}'.format(names, lp.params[2:5]),
              'the provider yields {} but logpdf binds them to {}'.format(names, lp.params[2:5]),
              fn=lp, node=lp.node)
    ctx.check(rv.params[1:4] == names, rv, 'rvs(*params) binding',
              '{} -> {}'.format(names, rv.params[1:4]),
              'the provider yields {} but rvs binds them to {}'.format(names, rv.params[1:4]),
              fn=rv, node=rv.node)
    # call sites splat the provider right after x / first
    for f in smc.methods.values():
        for c in ctx.calls(f, 'GMDistribution.logpdf(*_)'):
            ok = len(c.args) == 2 and isinstance(c.args[1], ast.Starred) and \
                ctx.term(f, c.args[1].value) == pattern_term('self.' + gp.name)
            ctx.check(ok, f, 'logpdf call site', 'GMDistribution.logpdf(x, *self._gm_params)',
                      'mixture parameters are not splatted after x', fn=f, node=c)
        for c in ctx.calls(f, 'GMDistribution.rvs(*_)'):
            ok = len(c.args) == 1 and isinstance(c.args[0], ast.Starred) and \
                ctx.term(f, c.args[0].value) == pattern_term('self.' + gp.name)
            ctx.check(ok, f, 'rvs call site', 'GMDistribution.rvs(*self._gm_params, ...)',
                      'mixture parameters are not the leading arguments of rvs', fn=f, node=c)
    # logpdf forwards by name to pdf
    rr = returns(lp)
    ok = len(rr) == 1 and match(ctx.term(lp, rr[0].value),
                                pattern('np.log(cls.pdf(x, means=means, cov=cov, '
                                        'weights=weights))')) is not None
    ctx.check(ok, lp, 'logpdf = log(pdf(same arguments))', 'np.log(cls.pdf(x, means=means, ...))',
              'logpdf is not log(pdf) of the same named arguments', fn=lp,
              node=rr[0] if rr else lp.node)
    # Sample.cov reads the covariance that was stored with the population
    res = ctx.repo.module('elfi.methods.results')


@obligation('C07-c', 'T1 T5', 'the mixture is centred on the previous population', floor=5,
            necessary='a population appended too late (or another index) proposes from the '
                      'wrong population')
def c07_c(ctx):
    smc = ctx.cls(SMC)
    gp = smc.lookup('_gm_params')
    ctx.touch(gp)
    rr = returns(gp)
    t = ctx.term(gp, rr[0].value)
    ok = all(x[0] == 'attr' and x[1] == pattern_term('self._populations[-1]') for x in t[1])
    ctx.check(ok, gp, 'last population', '_populations[-1]',
              'mixture parameters are not read from the last stored population', fn=gp,
              node=rr[0])
    for up in smc.overrides('update'):
        ex = ctx.ex(up)
        apps = [c for c in ctx.calls(up, name='append')
                if match(ex.term(c.func.value), pattern('self._populations')) is not None]
        rounds = [s for (s, t2, k) in ctx.stores(up, "self.state['round']")]
        inits = ctx.calls(up, 'self._init_new_round()')
        if not inits:
            continue
        ok = bool(apps) and bool(rounds) and all(
            ctx.must_precede(up, apps, i) and ctx.must_precede(up, rounds, i) for i in inits) \
            and all(ctx.must_precede(up, apps, r) for r in rounds)
        ctx.check(ok, up, 'population stored, round advanced, then planned',
                  'append(population) < round += 1 < _init_new_round()',
                  'the finished population is not stored before the round counter advances and '
                  'the next round is planned', fn=up, node=apps[0] if apps else up.node)
        for r in rounds:
            ok = ctx.must_follow(up, r, inits)
            ctx.check(ok, up, 'a new round is planned whenever the round advances',
                      "_init_new_round() follows state['round'] += 1 on every path",
                      'the round counter can advance without the next round being planned',
                      fn=up, node=r)
        for r in rounds:
            ok = isinstance(r, ast.AugAssign) and isinstance(r.op, ast.Add) and \
                ex.term(r.value) == ('const', 1)
            ctx.check(ok, up, 'round advances by one', "state['round'] += 1",
                      'the round counter does not advance by exactly one', fn=up, node=r)
        for a in apps:
            v = ex.term(a.args[0]) if a.args else None
            ok = v is not None and (contains(v, 'self._extract_population()'))
            if not ok and v is not None and v[0] == 'attr' and v[1] == ('param', 'self'):
                # held in a field first:  self.x = self._extract_population(); append(self.x)
                st = [s2 for (s2, t2, k2) in ctx.stores(up, 'self.' + v[2])
                      if isinstance(s2, ast.Assign) and
                      contains(ex.term(s2.value), 'self._extract_population()')]
                ok = bool(st) and ctx.must_precede(up, st, a)
            ctx.check(ok, up, 'appended population carries fresh weights',
                      'append(self._extract_population())',
                      'the appended population is not the one extracted (and weighted) now',
                      fn=up, node=a)
    # the last population is recorded too: continued sampling starts from len(_populations)
    for er in smc.overrides('extract_result'):
        exr = ctx.ex(er)
        apps = [c for c in ctx.calls(er, name='append')
                if match(exr.term(c.func.value), pattern('self._populations')) is not None]
        ok = len(apps) == 1 and cfg_of(er).must_pass([ctx.node(er, apps[0])]) and \
            contains(exr.term(apps[0].args[0]), 'self._extract_population()')
        ctx.check(ok, er, 'final population recorded',
                  '_populations.append(self._extract_population()) in extract_result',
                  'the population returned to the user is not recorded in _populations: a '
                  'continued run restarts from (and is weighted against) an older population',
                  fn=er, node=apps[0] if apps else er.node)
        rr = returns(er)
        okp = False
        if rr:
            rt = exr.term(rr[-1].value)
            kws = term_kwargs(rt)
            pv = kws.get('populations')
            okp = pv is not None and match_any(pv, ('self._populations.copy()',
                                                    'list(self._populations)',
                                                    'self._populations[:]')) is not None and \
                bool(apps) and ctx.must_precede(er, apps, rr[-1])
        ctx.check(okp, er, 'result lists all recorded populations',
                  'populations=self._populations.copy() after the append',
                  'the result does not carry a copy of all recorded populations', fn=er,
                  node=rr[-1] if rr else er.node)
    so = ctx.own_method(smc, 'set_objective')
    exso = ctx.ex(so)
    st0 = [s for (s, t2, k) in ctx.stores(so, "self.state['round']") if isinstance(s, ast.Assign)]
    ok = bool(st0) and match(exso.term(st0[0].value), pattern('len(self._populations)')) \
        is not None
    ctx.check(ok, so, 'continued sampling resumes after the recorded populations',
              "state['round'] = len(self._populations)",
              'the starting round is not the number of recorded populations', fn=so,
              node=st0[0] if st0 else so.node)
    uo = smc.lookup('_update_objective')
    if uo is not None:
        exu = ctx.ex(uo)
        stn = [s for (s, t2, k) in ctx.stores(uo, "self.objective['n_batches']")
               if isinstance(s, ast.Assign)]
        ok = bool(stn) and contains(exu.term(stn[0].value),
                                    'sum([_p.n_batches for _p in self._populations])') and \
            contains(exu.term(stn[0].value), "self._rejection.objective['n_batches']")
        ctx.check(ok, uo, 'batch budget = finished rounds + current round',
                  "sum(pop.n_batches) + _rejection.objective['n_batches']",
                  'the SMC batch budget is not the batches of the recorded populations plus the '
                  'current inner objective', fn=uo, node=stn[0] if stn else uo.node)
    for st in smc.overrides('_set_threshold') if smc.lookup('_set_threshold') else []:
        ex = ctx.ex(st)
        cs = ctx.calls(st, 'weighted_sample_quantile(*_)')
        if not cs:
            # AdaptiveDistanceSMC takes the previous population's threshold
            stores = [s for (s, t2, k) in ctx.stores(st, "self.objective['thresholds'][_]")]
            ok = bool(stores) and all(match(
                ex.term(s.value), pattern("self._populations[self.state['round'] - 1].threshold"))
                is not None and ex.term(s.targets[0].slice) == pattern_term("self.state['round']")
                for s in stores)
            ctx.check(ok, st, 'threshold of the previous population',
                      "thresholds[round] = populations[round - 1].threshold",
                      'the threshold is not taken from population round - 1', fn=st,
                      node=stores[0] if stores else st.node)
            continue
        for c in cs:
            kws = dict((k.arg, ex.term(k.value)) for k in c.keywords)
            prev = pattern_term("self._populations[self.state['round'] - 1]")
            ok = kws.get('x') == ('attr', prev, 'discrepancies') and \
                kws.get('weights') == ('attr', prev, 'weights') and \
                kws.get('alpha') == pattern_term("self._quantiles[self.state['round']]")
            ctx.check(ok, st, 'quantile of the previous population',
                      'x and weights of populations[round - 1], alpha = quantiles[round]',
                      'the threshold is not the weighted quantile (alpha = quantiles[round]) of '
                      'the discrepancies and weights of population round - 1', fn=st, node=c)
        stores = [s for (s, t2, k) in ctx.stores(st, "self.objective['thresholds'][_]")]
        ok = bool(stores) and all(
            ex.term(s.targets[0].slice) == pattern_term("self.state['round']") and
            contains(ex.term(s.value), 'weighted_sample_quantile(*_)') for s in stores)
        ctx.check(ok, st, 'threshold stored for the current round',
                  'thresholds[round] = quantile',
                  'the selected threshold is not stored for the current round', fn=st,
                  node=stores[0] if stores else st.node)


@obligation('C07-d', 'T3 T5', 'covariance = 2 x weighted variance of the particles with the new '
            'weights', floor=1, necessary='another factor or other weights change the proposal '
                                          'kernel')
def c07_d(ctx):
    smc, fs = weight_fns(ctx)
    for f in fs:
        ex = ctx.ex(f)
        rr = returns(f)
        rt = ex.term(rr[0].value)
        cov = rt[1][2]
        w = rt[1][1]
        alts = cov[1] if cov[0] == 'phi' else (cov,)
        main = [a for a in alts if contains(a, 'weighted_var(*_)')]
        ok = len(main) == 1
        if ok:
            m = match_any(main[0], ('2 * np.diag(weighted_var(_p, _w))',
                                    'np.diag(weighted_var(_p, _w)) * 2',
                                    '2 * np.diag(weighted_var(_p, weights=_w))'))
            ok = m is not None and m['w'] == w and contains(m['p'], 'self.parameter_names')
        ctx.check(ok, f, 'covariance', '2 * diag(weighted_var(params, w))',
                  'cov = {} is not twice the weighted variance of the particles under the new '
                  'weights'.format(show(cov)[:120]), fn=f, node=rr[0])
        # fallback only when not finite
        others = [a for a in alts if a not in main]
        fb_ok = True
        for n in own_nodes(f.node):
            if isinstance(n, ast.Assign) and any(ex.term(n.value) == o for o in others):
                fb_ok = fb_ok and any(
                    (not pol) and match_any(t, ('np.all(np.isfinite(_))',
                                                'np.isfinite(_).all()')) is not None
                    for (t, pol, _) in ctx.guards(f, n))
        ctx.check(fb_ok, f, 'fallback covariance only when not finite', 'guarded by isfinite',
                  'the covariance is replaced although it is finite', fn=f, node=rr[0])


@obligation('C07-e', 'T3 T11', 'proposals are conditioned on positive prior density', floor=3,
            necessary='particles outside the prior support enter the population')
def c07_e(ctx):
    smc = ctx.cls(SMC)
    for p in smc.overrides('prepare_new_batch'):
        ex = ctx.ex(p)
        for c in ctx.calls(p, 'GMDistribution.rvs(*_)'):
            kws = dict((k.arg, ex.term(k.value)) for k in c.keywords)
            ctx.check(kws.get('prior_logpdf') == pattern_term('self._prior.logpdf'), p,
                      'prior handed to the proposal', 'prior_logpdf=self._prior.logpdf',
                      'the proposal is not conditioned on the model prior', fn=p, node=c)
            ctx.check(kws.get('size') == pattern_term('self.batch_size'), p, 'batch of proposals',
                      'size=self.batch_size', 'the number of proposals is not batch_size', fn=p,
                      node=c)
        early = [r for r in returns(p) if r.value is None]
        ok = any(any(pol and match(t, pattern("self.state['round'] == 0")) is not None
                     for (t, pol, _) in ctx.guards(p, r)) for r in early)
        ctx.check(ok, p, 'first round draws from the prior', "return None when round == 0",
                  'the first round does not leave the draws to the prior', fn=p,
                  node=early[0] if early else p.node)
        rr = [r for r in returns(p) if r.value is not None]
        ok = bool(rr) and all(match(ex.term(r.value),
                                    pattern('arr2d_to_batch(_x, self.parameter_names)'))
                              is not None and contains(ex.term(r.value), 'GMDistribution.rvs(*_)')
                              for r in rr)
        ctx.check(ok, p, 'proposals named in parameter order',
                  'arr2d_to_batch(proposals, parameter_names)',
                  'the proposals are not assigned to parameters in parameter_names order', fn=p,
                  node=rr[0] if rr else p.node)
    init = ctx.own_method(smc, '__init__')
    st = [s for (s, t, k) in ctx.stores(init, 'self._prior') if isinstance(s, ast.Assign)]
    ok = bool(st) and match(ctx.term(init, st[0].value), pattern('ModelPrior(self.model)')) \
        is not None
    ctx.check(ok, init, 'prior of the model', '_prior = ModelPrior(self.model)',
              '_prior is not the joint prior of the sampler\'s model', fn=init,
              node=st[0] if st else init.node)


@obligation('C07-f', 'T3', 'the inner rejection round gets the threshold in force and the '
            'population size', floor=3,
            necessary='another threshold accepts particles above the round\'s tolerance')
def c07_f(ctx):
    smc = ctx.cls(SMC)
    inr = smc.lookup('_init_new_round')
    if inr is None:
        raise AnchorMissing('_init_new_round')
    ex = ctx.ex(inr)
    so = ctx.calls(inr, 'self._rejection.set_objective(*_)')
    if not so:
        raise AnchorMissing('inner round objective is never set')
    n_thr = 0
    for c in so:
        a0 = ex.term(c.args[0]) if c.args else None
        ctx.check(a0 == pattern_term("self.objective['n_samples']"), inr, 'population size',
                  "n_samples = objective['n_samples']",
                  'the inner round is asked for {} samples'.format(show(a0) if a0 else None),
                  fn=inr, node=c)
        kws = dict((k.arg, ex.term(k.value)) for k in c.keywords)
        if 'threshold' in kws:
            n_thr += 1
            ctx.check(kws['threshold'] == pattern_term('self.current_population_threshold'), inr,
                      'threshold in force', 'threshold=self.current_population_threshold',
                      'the inner round gets threshold {}'.format(show(kws['threshold'])[:60]),
                      fn=inr, node=c)
        elif 'quantile' in kws:
            ok = kws['quantile'] == pattern_term('self._quantiles[0]') and any(
                pol and contains(t, "self.state['round'] == 0")
                for (t, pol, _) in ctx.guards(inr, c))
            ctx.check(ok, inr, 'first-round quantile', 'quantile=_quantiles[0] only in round 0',
                      'a quantile objective is used outside round 0 or with another quantile',
                      fn=inr, node=c)
    if n_thr < 1:
        ctx.bad(inr, 'threshold in force', 'no inner round is given a threshold', fn=inr,
                node=inr.node)
    ok = cfg_of(inr).must_pass([ctx.node(inr, c) for c in so])
    ctx.check(ok, inr, 'every new round gets an objective', 'set_objective on every path',
              'a round can start without the inner objective being set', fn=inr, node=so[0])
    rs = ctx.calls(inr, 'self._set_rejection_round(*_)')
    ok = bool(rs) and all(ctx.must_precede(inr, rs, c) for c in so)
    ctx.check(ok, inr, 'fresh inner sampler before its objective',
              '_set_rejection_round() before set_objective()',
              'the objective is set on the previous round\'s inner sampler', fn=inr,
              node=rs[0] if rs else inr.node)
    cpt = smc.methods.get('current_population_threshold')
    if cpt is not None:
        ctx.touch(cpt)
        rr = returns(cpt)
        ok = len(rr) == 1 and match(
            ctx.term(cpt, rr[0].value),
            pattern("self.objective['thresholds'][self.state['round']]")) is not None
        ctx.check(ok, cpt, 'threshold of the current round', "thresholds[state['round']]",
                  'current_population_threshold is not thresholds[round]', fn=cpt,
                  node=rr[0] if rr else cpt.node)
    # quantile thresholds are computed before the inner objective is set
    sts = ctx.calls(inr, 'self._set_threshold()')
    thr_calls = [c for c in so if any(k.arg == 'threshold' for k in c.keywords)]
    ok = bool(sts) and all(
        any(pol and match(t, pattern('self._quantiles is not None')) is not None
            for (t, pol, _) in ctx.guards(inr, s)) for s in sts) and \
        all(cfg_of(inr).exists_path(ctx.node(inr, s), ctx.node(inr, c))
            for s in sts for c in thr_calls)
    ctx.check(ok, inr, 'quantile threshold selected first',
              '_set_threshold() before set_objective(threshold=...) when quantiles are used',
              'the quantile threshold is not selected before the inner objective is set', fn=inr,
              node=sts[0] if sts else inr.node)
    srr = smc.lookup('_set_rejection_round')
    if srr is not None:
        exs = ctx.ex(srr)
        cs = ctx.calls(srr, 'Rejection(*_)')
        ok = bool(cs)
        for c in cs:
            kws = dict((k.arg, exs.term(k.value)) for k in c.keywords)
            ok = ok and kws.get('batch_size') == pattern_term('self.batch_size') and \
                kws.get('discrepancy_name') == pattern_term('self.discrepancy_name') and \
                kws.get('output_names') == pattern_term('self.output_names') and \
                exs.term(c.args[0]) == pattern_term('self.model')
        ctx.check(ok, srr, 'inner sampler mirrors the outer configuration',
                  'same model, discrepancy, outputs and batch size',
                  'the inner Rejection sampler is configured differently from the SMC sampler',
                  fn=srr, node=cs[0] if cs else srr.node)


@obligation('C07-g', 'T7', 'proposals are named column by column in parameter_names order',
            floor=2, necessary='another pairing assigns a proposed value to another parameter')
def c07_g(ctx):
    from .C11 import check_column_helpers
    check_column_helpers(ctx)


# Every SMC round is run by an inner rejection sampler with a threshold objective, and every
# proposal comes from the constrained mixture sampler: their obligations are obligations of the
# SMC population clauses too (n_samples particles below the threshold; positive prior density).
from . import C01 as _C01   # noqa: E402
from . import C13 as _C13   # noqa: E402

obligation('C07-h', 'T5 T6', 'the inner rejection round keeps sampling until n_samples draws are '
           'below its threshold, whatever the threshold value (shared with C01-f)', floor=6,
           necessary='a round that stops on a stale batch estimate returns unfilled buffer rows '
                     'as particles')(_C01.c01_f)

obligation('C07-i', 'T5 T7 T3', 'proposals are filtered by finite prior log density and exactly '
           'the requested number is returned (shared with C13-c)', floor=6,
           necessary='a candidate whose prior log density is -inf or NaN becomes a particle '
                     'without positive prior density')(_C13.c13_c)



@obligation('C07-j', 'T6 T11', 'a round threshold of 0 is never tested by truth value', floor=1,
            necessary='a zero threshold treated as absent ends the round on the initial batch estimate with unfilled particles')
def c07_j(ctx):
    from .base import zero_is_valid_obligation
    zero_is_valid_obligation(ctx, ['threshold'])


# Importance weights divide the prior by the mixture density, and every population's stored
# weights are handed to the mixture code: its obligations are obligations of the weight clause.
obligation('C07-k', 'T7 T8', 'mixture density = sum of w_k N(x; m_k, cov) with the shared '
           'covariance; stored weights are not modified by normalisation (shared with C13-b)',
           floor=4,
           necessary='a variance used as a standard deviation changes the denominator of every '
                     'importance weight; in-place normalisation rewrites the weights of stored '
                     'populations')(_C13.c13_b)


@obligation('C07-l', 'T1 T5 T7', 'SMC round state machine: every batch goes to the inner sampler; a '
            'finished round is recorded, counted and followed by the next one until the last '
            'round index; the round count and threshold list account for earlier populations',
            floor=14,
            necessary='a batch that is not merged, a round that is skipped or repeated, or a '
                      'threshold list shifted against the round index gives populations that do '
                      'not belong to the requested schedule')
def c07_l(ctx):
    from .. import symdiff as sd
    from ..ratfun import Rat, Unsupported
    smc = ctx.cls(SMC)
    up = ctx.own_method(smc, 'update')
    ex = ctx.ex(up)
    g = cfg_of(up)
    ROUND = "self.state['round']"
    # every batch: framework bookkeeping, then the inner sampler, with (batch, batch_index)
    sup = [c for c in ctx.calls(up) if isinstance(c.func, ast.Attribute) and
           c.func.attr == 'update' and isinstance(c.func.value, ast.Call) and
           callee_name(c.func.value) == 'super']
    inner = ctx.calls(up, 'self._rejection.update(*_)')
    for (cs, label) in ((sup, 'framework update'), (inner, 'inner sampler update')):
        ok = len(cs) == 1 and [ex.term(a) for a in cs[0].args] == [('param', up.params[1]),
                                                                     ('param', up.params[2])] \
            and g.must_pass([ctx.node(up, _st(cs[0]))])
        ctx.check(ok, up, label + ' receives (batch, batch_index) on every path',
                  'update(batch, batch_index)',
                  'the {} is not called with (batch, batch_index) for every batch'.format(label),
                  fn=up, node=cs[0] if cs else up.node)
    # round transition
    app = [c for c in ctx.calls(up, 'self._populations.append(_)')]
    inc = [s for (s, t, k) in ctx.stores(up, ROUND)]
    nxt = ctx.calls(up, 'self._init_new_round()')
    can = ctx.calls(up, 'self.batches.cancel_pending()')
    fin = pattern('self._rejection.finished')
    more = pattern("{} < self.objective['round']".format(ROUND))

    def under(node, pats):
        facts = [t for (t, pol, _) in ctx.guards(up, node) if pol and t[0] != 'bool']
        return all(any(match(t, p) is not None for t in facts) for p in pats)
    ok = len(app) == 1 and match(ex.term(app[0].args[0]),
                                 pattern('self._extract_population()')) is not None and \
        under(_st(app[0]), [fin, more])
    ctx.check(ok, up, 'finished round recorded (when another round follows)',
              'if rejection.finished and round < objective[round]: populations.append(extract)',
              'the population of a finished round is not appended exactly when the round is '
              'finished and is not the last one', fn=up, node=app[0] if app else up.node)
    ok = len(inc) == 1 and isinstance(inc[0], ast.AugAssign) and isinstance(inc[0].op, ast.Add) \
        and ex.raw(inc[0].value) == ('const', 1) and under(inc[0], [fin, more]) and \
        bool(app) and ctx.must_precede(up, [_st(app[0])], inc[0])
    ctx.check(ok, up, 'round index advances by one after the population is recorded',
              "state['round'] += 1", 'the round index is not advanced by exactly one after the '
              'finished population was recorded', fn=up, node=inc[0] if inc else up.node)
    ok = len(nxt) == 1 and under(_st(nxt[0]), [fin, more]) and bool(inc) and \
        ctx.must_precede(up, [inc[0]], _st(nxt[0]))
    ctx.check(ok, up, 'next round initialised after the index advanced', '_init_new_round()',
              'the next round is not initialised after the round index was advanced', fn=up,
              node=nxt[0] if nxt else up.node)
    ok = len(can) == 1 and under(_st(can[0]), [fin]) and \
        not any(match(t, more) is not None for (t, pol, _) in ctx.guards(up, _st(can[0])))
    ctx.check(ok, up, 'outstanding batches cancelled whenever a round finishes',
              'if rejection.finished: cancel_pending()', 'pending batches are not cancelled for '
              'every finished round (including the last)', fn=up, node=can[0] if can else up.node)
    uo = [c for c in ctx.calls(up) if callee_name(c) == alias('_update_objective')]
    ok = len(uo) == 1 and g.must_pass([ctx.node(up, _st(uo[0]))])
    ctx.check(ok, up, 'total batch objective refreshed after every batch', '_update_objective()',
              'the total n_batches objective is not refreshed on every path', fn=up,
              node=uo[0] if uo else up.node)
    # set_objective: last round index and threshold list
    so = ctx.own_method(smc, 'set_objective')
    exs = ctx.ex(so)
    st_round = [s for (s, t, k) in ctx.stores(so, ROUND) if k == 'assign']
    ok = len(st_round) == 1 and match(exs.term(st_round[0].value),
                                      pattern('len(self._populations)')) is not None
    ctx.check(ok, so, 'a continued run starts at the number of recorded populations',
              "state['round'] = len(self._populations)", '', fn=so,
              node=st_round[0] if st_round else so.node)
    upd = [c for c in ctx.calls(so, 'self.objective.update(_)')]
    okr = False
    okt = False
    if upd:
        d = exs.term(upd[0].args[0])
        kv = {}
        if d[0] == 'dict':
            kv = dict((k[1], v) for (k, v) in d[1] if k[0] == 'const')
        r = kv.get('round')
        alg = sd.Algebra()

        def leaf(t):
            if match(t, pattern('len(self._populations)')) is not None or \
                    t == pattern_term(ROUND):
                return Rat.sym('P')
            if t[0] == 'call' and t[1] in (('global', 'builtins.len'), ('name', 'len'),
                                            ('global', 'len')) and \
                    t[2] and t[2][0] in (('param', 'thresholds'), ('param', 'quantiles')):
                return Rat.sym('L')
            return None
        if r is not None:
            alts = _phi_variants(r)
            try:
                okr = all(alg.same(sd.convert(a, alg, leaf),
                                   Rat.sym('L') - Rat.const(1) + Rat.sym('P')) for a in alts)
            except Unsupported:
                okr = False
        th = kv.get('thresholds')
        if th is not None:
            alts = th[1] if th[0] == 'phi' else (th,)
            okt = any(match_any(a, (
                'np.concatenate((np.full(len(self._populations), None), thresholds))',
                "np.concatenate((np.full(self.state['round'], None), thresholds))"))
                is not None for a in alts) and \
                any(match(a, pattern('np.full(_n, None)')) is not None for a in alts)
    ctx.check(okr, so, 'last round index = earlier populations + length of the schedule - 1',
              "round = len(schedule) - 1 + len(self._populations)",
              'the last round index is not len(thresholds or quantiles) - 1 plus the number of '
              'recorded populations', fn=so, node=upd[0] if upd else so.node)
    ctx.check(okt, so, 'threshold list padded by one entry per earlier population',
              'concatenate((full(n_previous, None), thresholds))',
              'the threshold list is not aligned with the round index (one None per earlier '
              'population, then the given thresholds)', fn=so, node=upd[0] if upd else so.node)
    qs = [s for (s, t, k) in ctx.stores(so, 'self._quantiles') if k == 'assign']
    okq = any(match_any(exs.term(s.value), (
        'np.concatenate((np.full(len(self._populations), None), quantiles))',
        "np.concatenate((np.full(self.state['round'], None), quantiles))")) is not None
        for s in qs) and bool(st_round) and \
        all(ctx.must_precede(so, st_round, s) for s in qs)
    ctx.check(okq, so, 'quantile list padded by one entry per earlier population', '', 'the '
              'quantile list is not aligned with the round index', fn=so,
              node=qs[0] if qs else so.node)
    first = ctx.calls(so, 'self._init_new_round()')
    ctx.check(len(first) == 1 and bool(upd) and
              ctx.must_precede(so, [_st(upd[0])], _st(first[0])) and
              cfg_of(so).must_pass([ctx.node(so, _st(first[0]))]), so,
              'first round initialised once the objective is set', '_init_new_round()', '',
              fn=so, node=first[0] if first else so.node)
    # the inner sampler of a round
    sr = ctx.own_method(smc, '_set_rejection_round')
    exr = ctx.ex(sr)
    rc = [c for c in ctx.calls(sr, 'Rejection(*_)')]
    okc = False
    if len(rc) == 1:
        kw = dict((k.arg, exr.term(k.value)) for k in rc[0].keywords)
        a0 = exr.term(rc[0].args[0]) if rc[0].args else kw.get('model')
        sd_ = kw.get('seed')
        okc = a0 == pattern_term('self.model') and \
            kw.get('discrepancy_name') == pattern_term('self.discrepancy_name') and \
            kw.get('output_names') == pattern_term('self.output_names') and \
            kw.get('batch_size') == pattern_term('self.batch_size') and \
            kw.get('max_parallel_batches') == pattern_term('self.max_parallel_batches') and \
            sd_ is not None and sd_[0] in ('phi', 'ifexp')
    ctx.check(okc, sr, 'inner sampler built on the same model, outputs, batch size and '
              'parallelism, with the round seed', 'Rejection(self.model, discrepancy_name=.., '
              'output_names=.., batch_size=.., seed=round seed, max_parallel_batches=..)',
              'the inner rejection sampler of a round is not configured like the SMC sampler '
              'itself', fn=sr, node=rc[0] if rc else sr.node)
    # round 0 uses the master seed, later rounds their sub-seed
    seeds = [s for s in own_nodes(sr.node) if isinstance(s, ast.Assign) and
             isinstance(s.value, ast.IfExp)]
    oks = False
    for s in seeds:
        # the canonical conditional term (test positive, branches ordered accordingly)
        ct = exr.raw(s.value)
        if ct[0] != 'ifexp':
            continue
        t = ct[1]
        full = exr.term(s.value)
        b, o = (full[2], full[3]) if full[0] == 'ifexp' else (None, None)
        if b is None:
            continue
        if match(t, pattern('{} == 0'.format(sr.params[1]))) is not None:
            oks = b == pattern_term('self.seed') and contains(o, 'get_sub_seed(self.seed, _)')
        elif match(t, pattern('{} != 0'.format(sr.params[1]))) is not None or \
                match(t, pattern('0 < {}'.format(sr.params[1]))) is not None:
            oks = o == pattern_term('self.seed') and contains(b, 'get_sub_seed(self.seed, _)')
    ctx.check(oks, sr, 'round 0 on the master seed, later rounds on their sub-seed',
              'seed = self.seed if round == 0 else get_sub_seed(self.seed, round)', '', fn=sr,
              node=seeds[0] if seeds else sr.node)
    # a population = the inner result with weights, means and covariance attached
    ep = ctx.own_method(smc, '_extract_population')
    exe = ctx.ex(ep)
    rr = returns(ep)
    src_ = [s for s in own_nodes(ep.node) if isinstance(s, ast.Assign) and
            match(exe.term(s.value), pattern('self._rejection.extract_result()')) is not None]
    wst = [s for s in own_nodes(ep.node) if isinstance(s, ast.Assign) and
           isinstance(s.targets[0], ast.Attribute) and s.targets[0].attr == 'weights']
    okp = len(rr) == 1 and bool(src_) and bool(wst) and \
        match(exe.term(rr[0].value), pattern('self._rejection.extract_result()')) is not None and \
        exe.term(wst[0].targets[0].value) == exe.term(rr[0].value) and \
        exe.term(wst[0].value)[0] == 'item' and exe.term(wst[0].value)[2] == 1 and \
        contains(exe.term(wst[0].value), 'self._compute_weights_means_and_cov(_)')
    ctx.check(okp, ep, 'population = inner result carrying the computed weights',
              'sample = rejection.extract_result(); sample.weights = w; return sample',
              'the recorded population is not the inner sampler\'s result with the importance '
              'weights attached', fn=ep, node=rr[0] if rr else ep.node)


def _phi_variants(t, limit=16):
    """All terms obtained by choosing one alternative for every phi inside t."""
    if not isinstance(t, tuple) or not t:
        return [t]
    if isinstance(t[0], str) and t[0] == 'phi':
        out = []
        for a in t[1]:
            out += _phi_variants(a, limit)
        return out[:limit]
    parts = [(_phi_variants(c, limit) if isinstance(c, tuple) else [c]) for c in t]
    out = [()]
    for p in parts:
        out = [o + (x,) for o in out for x in p][:limit]
    return out


def _st(node):
    n = node
    while n is not None and not isinstance(n, ast.stmt):
        n = getattr(n, '_parent', None)
    return n


@obligation('C07-m', 'T1 T5 T7', 'adaptive-threshold SMC round state machine: every batch goes to '
            'the inner sampler; a finished round is extracted; while rounds remain the next '
            'quantile is adapted and, below the stopping quantile, the population is recorded, '
            'the round index advanced and the next round initialised, in this order', floor=8,
            necessary='a population recorded on the wrong side of a test, a round index that '
                      'moves without its population, or a next round initialised before the index '
                      'advanced gives populations that do not belong to their thresholds')
def c07_m(ctx):
    cls = ctx.cls('elfi.methods.inference.samplers:AdaptiveThresholdSMC')
    up = ctx.own_method(cls, 'update')
    ex = ctx.ex(up)
    g = cfg_of(up)
    ROUND = "self.state['round']"
    sup = [c for c in ctx.calls(up) if isinstance(c.func, ast.Attribute) and
           c.func.attr == 'update' and isinstance(c.func.value, ast.Call) and
           callee_name(c.func.value) == 'super']
    inner = ctx.calls(up, 'self._rejection.update(*_)')
    for (cs, label) in ((sup, 'framework update'), (inner, 'inner sampler update')):
        ok = len(cs) == 1 and [ex.term(a) for a in cs[0].args] == [('param', up.params[1]),
                                                                     ('param', up.params[2])] \
            and g.must_pass([ctx.node(up, _st(cs[0]))])
        ctx.check(ok, up, label + ' receives (batch, batch_index) on every path',
                  'update(batch, batch_index)',
                  'the {} is not called with (batch, batch_index) for every batch'.format(label),
                  fn=up, node=cs[0] if cs else up.node)
    fin = pattern('self._rejection.finished')
    more = pattern("{} < self.objective['round']".format(ROUND))
    below = pattern('self._quantiles[{} + 1] < self.q_threshold'.format(ROUND))

    def under(node, pats, absent=()):
        gs = ctx.guards(up, node)
        facts = [t for (t, pol, _) in gs if pol and t[0] != 'bool']
        anyp = [t for (t, pol, _) in gs]
        return all(any(match(t, p) is not None for t in facts) for p in pats) and \
            not any(match(t, p) is not None for t in anyp for p in absent)
    newp = [s for (s, t, k) in ctx.stores(up, 'self._new_population') if isinstance(s, ast.Assign)]
    ok = len(newp) == 1 and match(ex.term(newp[0].value),
                                  pattern('self._extract_population()')) is not None and \
        under(newp[0], [fin], absent=[more, below])
    ctx.check(ok, up, 'finished round extracted (every finished round, also the last)',
              'if rejection.finished: self._new_population = self._extract_population()',
              'the population of a finished round is not extracted exactly when the inner '
              'sampler finished', fn=up, node=newp[0] if newp else up.node)
    adapt = ctx.calls(up, 'self._set_adaptive_quantile()')
    ok = len(adapt) == 1 and under(_st(adapt[0]), [fin, more], absent=[below]) and bool(newp) and \
        ctx.must_precede(up, newp, _st(adapt[0]))
    ctx.check(ok, up, 'next quantile adapted while rounds remain, from the extracted population',
              'if round < objective[round]: self._set_adaptive_quantile()',
              'the next quantile is not adapted exactly when another round may follow, after '
              'the finished population was extracted', fn=up, node=adapt[0] if adapt else up.node)
    app = ctx.calls(up, 'self._populations.append(_)')
    inc = [s for (s, t, k) in ctx.stores(up, ROUND)]
    nxt = ctx.calls(up, 'self._init_new_round()')
    ok = len(app) == 1 and match(ex.term(app[0].args[0]),
                                 pattern('self._new_population')) is not None and \
        under(_st(app[0]), [fin, more, below]) and bool(adapt) and \
        ctx.must_precede(up, [_st(adapt[0])], _st(app[0]))
    ctx.check(ok, up, 'population recorded when the adapted quantile is below the stopping quantile',
              'if quantiles[round + 1] < q_threshold: populations.append(new population)',
              'the extracted population is not recorded exactly when another round follows '
              '(rounds remain and the adapted quantile is below the stopping quantile)', fn=up,
              node=app[0] if app else up.node)
    ok = len(inc) == 1 and isinstance(inc[0], ast.AugAssign) and isinstance(inc[0].op, ast.Add) \
        and ex.raw(inc[0].value) == ('const', 1) and under(inc[0], [fin, more, below]) and \
        bool(app) and ctx.must_precede(up, [_st(app[0])], inc[0])
    ctx.check(ok, up, 'round index advances by one after the population is recorded',
              "state['round'] += 1", 'the round index is not advanced by exactly one after the '
              'population was recorded', fn=up, node=inc[0] if inc else up.node)
    ok = len(nxt) == 1 and under(_st(nxt[0]), [fin, more, below]) and bool(inc) and \
        ctx.must_precede(up, [inc[0]], _st(nxt[0]))
    ctx.check(ok, up, 'next round initialised after the index advanced', '_init_new_round()',
              'the next round is not initialised after the round index was advanced', fn=up,
              node=nxt[0] if nxt else up.node)
    uo = [c for c in ctx.calls(up) if callee_name(c) == alias('_update_objective')]
    ok = len(uo) == 1 and g.must_pass([ctx.node(up, _st(uo[0]))])
    ctx.check(ok, up, 'total batch objective refreshed after every batch', '_update_objective()',
              'the total n_batches objective is not refreshed on every path', fn=up,
              node=uo[0] if uo else up.node)
    # the adapted quantile: written for the *next* round, at least 0.05, at most 1
    sq = ctx.own_method(cls, '_set_adaptive_quantile')
    exq = ctx.ex(sq)
    st = [s for (s, t, k) in ctx.stores(sq, 'self._quantiles[_]') if isinstance(s, ast.Assign)]
    ok = len(st) == 1 and match(exq.term(st[0].targets[0].slice), pattern(ROUND + ' + 1')) \
        is not None
    if ok:
        v = exq.term(st[0].value)
        m = match_any(v, ('max(1 / _m, 0.05)', 'max(0.05, 1 / _m)'))
        ok = m is not None and m['m'][0] == 'ifexp' and \
            match_any(m['m'], ('1.0 if _r < 1.0 else _r', '_r if _r >= 1.0 else 1.0',
                               '1.0 if _r <= 1.0 else _r', '_r if 1.0 < _r else 1.0')) is not None
    ctx.check(ok, sq, 'adapted quantile = max(1 / max(ratio, 1), 0.05), stored for the next round',
              "self._quantiles[round + 1] = max(1 / max_value, 0.05), max_value >= 1",
              'the adapted quantile is not max(1 / max(estimated ratio, 1), 0.05) stored at the '
              'next round\'s index', fn=sq, node=st[0] if st else sq.node)


@obligation('C07-n', 'T1 T8', 'the values a sampler prepares for a batch are supplied to the model '
            'as node outputs (shared with C03-e)', floor=6,
            necessary='proposals that are prepared but not written into the loaded net are '
                      'replaced by prior draws: the population is not drawn from the mixture '
                      'its weights assume')
def c07_n(ctx):
    from .C03 import c03_e
    c03_e(ctx)


@obligation('C07-o', 'T2', 'no result buffer takes the dtype of a caller\'s array and then receives '
            'computed values (shared sweep of C08-l, restricted to the modules this property is '
            'anchored in; `*_like(x)` and `dtype=x.dtype` allocations)', floor=1,
            necessary='populations and weights are stored as computed, not truncated to the dtype of an argument (numpy truncates floats silently when they are assigned into an '
                      'integer array)')
def c07_dtype(ctx):
    from .base import inherited_dtype_obligation
    inherited_dtype_obligation(ctx, ['elfi.methods.inference.samplers', 'elfi.methods.utils'])


@obligation('C07-p', 'T4', 'the inner rejection round\'s batch-count estimate adds its safety margin '
            '(shared with C01-m)', floor=1,
            necessary='every population must hold exactly n_samples particles below the round\'s '
                      'threshold: an estimate that can fall to the consumed batches while a '
                      'particle is missing ends the round with an unfilled row')
def c07_p(ctx):
    from . import C01
    C01.c01_m(ctx)
