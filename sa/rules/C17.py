"""C17 - regression adjustment and model comparison.

Decided: one finite-mask per parameter applied to regressors and parameter alike, regressors
as a difference of simulated and observed summaries in one name order, adjusted = theta minus
the fitted linear term, half-open block membership and orientation of the model probability.
Not decided: least-squares optimality, affine invariance, numeric values.
"""

import ast

from .. import AnalysisError, AnchorMissing
from ..cfg import cfg_of
from ..model import own_nodes
from ..values import pattern, match, match_any, find, contains, show, subterms
from ..domains import polarity, POS, NEG, ZERO
from .base import obligation, src, callee_name
from .C04 import pattern_term, returns, enclosing_loop, _inside

RA = 'elfi.methods.post_processing:RegressionAdjustment'
LA = 'elfi.methods.post_processing:LinearAdjustment'


@obligation('C17-a', 'T7', 'the finite-row mask of parameter i selects both its regressors and '
            'its values', floor=4,
            necessary='different masks pair regressor rows with parameter values of other draws')
def c17_a(ctx):
    ra = ctx.cls(RA)
    la = ctx.cls(LA)
    # the generator of (X, p) pairs
    pairs = [m for m in ra.methods.values()
             if any(isinstance(n, (ast.Yield,)) for n in own_nodes(m.node))]
    if not pairs:
        raise AnchorMissing('no (X, p) pair generator in RegressionAdjustment')
    pf = pairs[0]
    ex = ctx.ex(pf)
    ys = [n for n in own_nodes(pf.node) if isinstance(n, ast.Yield)]
    t = ex.term(ys[0].value)
    ok = t[0] == 'tuple' and len(t[1]) == 2
    if ok:
        X, p = t[1]
        mx = match(X, pattern('self._X[self._finite[_i], :]'))
        mp = match(p, pattern('self._sample.outputs[_n][self._finite[_i]]'))
        ok = mx is not None and mp is not None and mx['i'] == mp['i'] and \
            mx['i'][0] == 'item' and mx['i'][2] == 0 and mp['n'][0] == 'item' and \
            mp['n'][2] == 1 and mp['n'][1] == mx['i'][1] and \
            contains(mx['i'], 'enumerate(self._parameter_names)')
    ctx.check(ok, pf, 'fit pairs', 'X[finite[i]], outputs[name_i][finite[i]]',
              'the fitted pair is {} - regressors and parameter values are not selected by the '
              'same mask finite[i] of parameter i'.format(show(t)[:140]), fn=pf, node=ys[0])
    ad = ctx.own_method(ra, 'adjust')
    exa = ctx.ex(ad)
    calls = ctx.calls(ad, 'self._adjust(*_)')
    ok = False
    for c in calls:
        a = [exa.term(x) for x in c.args]
        if len(a) == 3:
            m2 = match(a[1], pattern('self.sample.outputs[_n][self._finite[_i]]'))
            m3 = match(a[2], pattern('self.regression_models[_i]'))
            if m2 is not None and m3 is not None and a[0] == m2['i'] == m3['i'] and \
                    a[0][0] == 'item' and a[0][2] == 0 and m2['n'] == ('item', a[0][1], 1) and \
                    contains(a[0], 'enumerate(self.parameter_names)'):
                ok = True
    ctx.check(ok, ad, 'adjust call', '_adjust(i, outputs[name_i][finite[i]], models[i])',
              'adjust does not hand parameter i its own finite rows and its own fitted model',
              fn=ad, node=calls[0] if calls else ad.node)
    st = [n for n in own_nodes(ad.node) if isinstance(n, ast.Assign) and
          isinstance(n.targets[0], ast.Subscript) and contains(exa.term(n.value), 'self._adjust(*_)')]
    ok = bool(st) and exa.term(st[0].targets[0].slice)[0] == 'item' and \
        exa.term(st[0].targets[0].slice)[2] == 1
    ctx.check(ok, ad, 'result stored under the parameter\'s name', 'outputs[name] = adjusted',
              'the adjusted values are not stored under their own parameter name', fn=ad,
              node=st[0] if st else ad.node)
    lad = la.methods.get('_adjust')
    if lad is None:
        raise AnchorMissing('LinearAdjustment._adjust')
    exl = ctx.ex(lad)
    rr = returns(lad)
    t = exl.term(rr[0].value)
    m = match(t, pattern('theta_i - self.X[self._finite[i], :].dot(_b)'))
    ctx.check(m is not None and match(m['b'], pattern('regression_model.coef_')) is not None, lad,
              'adjusted = theta - X[finite[i]] . slope',
              'theta_i - X[finite[i], :].dot(coef_)',
              'the adjusted value is {}'.format(show(t)[:100]), fn=lad, node=rr[0])
    # masks: finite regressor rows AND finite parameter values, one per parameter
    gf = [m_ for m_ in ra.methods.values() if ctx.stores(m_, 'self._finite')
          and m_.name != '__init__']
    if not gf:
        raise AnchorMissing('mask computation')
    g = gf[0]
    exg = ctx.ex(g)
    st = [s for (s, t2, k) in ctx.stores(g, 'self._finite') if isinstance(s, ast.Assign)]
    v = exg.term(st[0].value)
    ok = v[0] == 'comp' and v[1] == 'list' and \
        match(v[3][0][0], pattern('self._parameter_names')) is not None and \
        match_any(v[2], ('np.isfinite(self._X).all(axis=1) & '
                         'np.isfinite(self._sample.outputs[_p])',
                         'np.isfinite(self._sample.outputs[_p]) & '
                         'np.isfinite(self._X).all(axis=1)')) is not None
    ctx.check(ok, g, 'mask definition',
              'finite regressor rows & finite values of that parameter, per parameter',
              'the masks are {}'.format(show(v)[:120]), fn=g, node=st[0])
    fit = ctx.own_method(ra, 'fit')
    exf = ctx.ex(fit)
    cg = ctx.calls(fit, resolved_to=g)
    loop = [n for n in own_nodes(fit.node) if isinstance(n, ast.For)]
    ok = bool(cg) and bool(loop) and ctx.must_precede(fit, cg, loop[0].iter)
    ctx.check(ok, fit, 'masks computed before fitting', '_get_finite() before the pairs',
              'the models are fitted before the masks are computed', fn=fit,
              node=cg[0] if cg else fit.node)
    xs = [s for (s, t2, k) in ctx.stores(fit, 'self._X') if isinstance(s, ast.Assign)]
    ok = bool(xs) and bool(cg) and ctx.must_precede(fit, xs, cg[0])
    ctx.check(ok, fit, 'regressors built before the masks', '', 'masks are computed before the '
              'regressors exist', fn=fit, node=xs[0] if xs else fit.node)


@obligation('C17-b', 'T4', 'regressors are (simulated - observed) summaries in one name order',
            floor=3, necessary='same-sign operands do not vanish when simulated = observed; '
                               'different name orders subtract different summaries')
def c17_b(ctx):
    la = ctx.cls(LA)
    iv = la.methods.get('_input_variables')
    if iv is None:
        raise AnchorMissing('LinearAdjustment._input_variables')
    ex = ctx.ex(iv)
    rr = returns(iv)
    t = ex.term(rr[0].value)
    is_sim = lambda x: match(x, pattern('sample.outputs[_n]')) is not None
    is_obs = lambda x: match(x, pattern('model[_s].observed')) is not None
    ps, po = polarity(t, is_sim), polarity(t, is_obs)
    ok = {ps, po} == {POS, NEG}
    ctx.check(ok, iv, 'difference of simulated and observed', 'opposite polarity',
              'the regressors depend on the simulated summaries with polarity {} and on the '
              'observed ones with polarity {}: they do not vanish when both are equal'.format(
                  ps, po), fn=iv, node=rr[0])
    stacks = [s for s in subterms(t) if match(s, pattern('np.stack(_c, axis=1)')) is not None]
    iters = []
    for s in stacks:
        c = s[2][0]
        if c[0] == 'comp':
            iters.append(c[3][0][0])
    ok = len(iters) == 2 and iters[0] == iters[1] == ('param', 'summary_names')
    ctx.check(ok, iv, 'one name order on both sides', 'both stacks iterate summary_names',
              'simulated and observed summaries are stacked in different orders', fn=iv,
              node=rr[0])
    ok = len(stacks) == 2
    ctx.check(ok, iv, 'summaries are columns', 'np.stack(..., axis=1)',
              'the summaries are not stacked as columns', fn=iv, node=rr[0])


@obligation('C17-d', 'T6 T4 T7', 'model comparison: half-open blocks, share / n_sim x prior, '
            'normalised', floor=6,
            necessary='closed blocks count boundary indices twice; a multiplied n_sim rewards '
                      'expensive models')
def c17_d(ctx):
    cm = ctx.fn('elfi.methods.model_selection:compare_models')
    ex = ctx.ex(cm)
    loops = [n for n in own_nodes(cm.node) if isinstance(n, ast.For)]
    if not loops:
        raise AnchorMissing('compare_models has no loop over the models')
    lo = loops[0]
    i = lo.target.id if isinstance(lo.target, ast.Name) else None
    ok = match(ex.raw(lo.iter), pattern('range(len(sample_objs))')) is not None or \
        match(ex.term(lo.iter, cfg_of(cm).by_stmt[id(lo)]),
              pattern('range(len(sample_objs))')) is not None
    ctx.check(ok, cm, 'one pass per model', 'for i in range(n_models)',
              'the loop does not visit every model once', fn=cm, node=lo)
    # block bounds: low = previous up; up += n_samples of model i
    lows = [n for n in ast.walk(lo) if isinstance(n, ast.Assign) and
            isinstance(n.targets[0], ast.Name) and isinstance(n.value, ast.Name)]
    ups = [n for n in ast.walk(lo) if isinstance(n, ast.AugAssign) and
           isinstance(n.target, ast.Name) and isinstance(n.op, ast.Add) and
           match(ex.raw(n.value), pattern('sample_objs[{}].n_samples'.format(i))) is not None]
    ok = len(ups) == 1 and any(n.value.id == ups[0].target.id and
                               ctx.must_precede(cm, [n], ups[0]) for n in lows)
    ctx.check(ok, cm, 'adjacent blocks', 'low = previous up; up += n_samples[i]',
              'the block of model i does not start where the block of model i-1 ended', fn=cm,
              node=ups[0] if ups else lo)
    if not ok:
        return
    up = ups[0].target.id
    low = [n for n in lows if n.value.id == up][0].targets[0].id
    init = [n for n in own_nodes(cm.node) if isinstance(n, ast.Assign) and
            isinstance(n.targets[0], ast.Name) and n.targets[0].id == up and
            not _inside(n, lo)]
    ctx.check(bool(init) and ex.raw(init[0].value) == ('const', 0), cm, 'blocks start at 0',
              'up_bound = 0', 'the first block does not start at index 0', fn=cm,
              node=init[0] if init else lo)
    cnt = [n for n in ast.walk(lo) if isinstance(n, ast.Assign) and
           isinstance(n.targets[0], ast.Subscript) and
           contains(ex.raw(n.value), 'np.logical_and(_a, _b)')]
    ok = False
    if cnt:
        m = match(ex.raw(cnt[0].value), pattern('np.logical_and(_a, _b).sum()')) or \
            match(ex.raw(cnt[0].value), pattern('np.sum(np.logical_and(_a, _b))'))
        if m is not None:
            a, b = m['a'], m['b']
            la_ = match(a, pattern('{} <= _x'.format(low)))
            lb_ = match(b, pattern('_x < {}'.format(up)))
            if la_ is None or lb_ is None:
                la_ = match(b, pattern('{} <= _x'.format(low)))
                lb_ = match(a, pattern('_x < {}'.format(up)))
            ok = la_ is not None and lb_ is not None and la_['x'] == lb_['x']
            if ok:
                idx = ex.term(cnt[0].value)
                ok = contains(idx, 'np.argsort(_d)[:_n]')
    ctx.check(ok, cm, 'half-open membership', 'low <= inds < up',
              'block membership is not `inds >= low` and `inds < up`', fn=cm,
              node=cnt[0] if cnt else lo)
    if cnt:
        ctx.check(ctx.must_precede(cm, [ups[0]], cnt[0]), cm, 'bounds updated before counting',
                  '', 'the share is counted before the block bounds were advanced', fn=cm,
                  node=cnt[0])
        slot = ex.raw(cnt[0].targets[0].slice)
        ctx.check(slot == ('name', i), cm, 'share stored in the model\'s own slot',
                  'p_models[i]', 'the share of model i is stored in slot {}'.format(show(slot)),
                  fn=cm, node=cnt[0])
    divs = [n for n in ast.walk(lo) if isinstance(n, ast.AugAssign) and
            isinstance(n.op, ast.Div) and
            match(ex.raw(n.value), pattern('sample_objs[{}].n_sim'.format(i))) is not None and
            ex.raw(n.target.slice) == ('name', i)]
    bad = [n for n in ast.walk(lo) if isinstance(n, ast.AugAssign) and
           not isinstance(n.op, ast.Div) and contains(ex.raw(n.value), '_.n_sim')]
    ctx.check(len(divs) == 1 and not bad, cm, 'divided by the model\'s simulation count',
              'p_models[i] /= sample_objs[i].n_sim',
              'the share is not divided by the number of simulations of the same model', fn=cm,
              node=divs[0] if divs else lo)
    muls = [n for n in ast.walk(lo) if isinstance(n, ast.AugAssign) and
            isinstance(n.op, ast.Mult) and
            match(ex.raw(n.value), pattern('model_priors[{}]'.format(i))) is not None and
            ex.raw(n.target.slice) == ('name', i)]
    ok = len(muls) == 1 and any(pol and match(t, pattern('model_priors is not None')) is not None
                                for (t, pol, _) in ctx.guards(cm, muls[0]))
    ctx.check(ok, cm, 'multiplied by the model\'s prior weight',
              'p_models[i] *= model_priors[i] when priors are given',
              'the share is not multiplied by the prior weight of the same model', fn=cm,
              node=muls[0] if muls else lo)
    rr = returns(cm)
    t = ex.term(rr[0].value) if rr else None
    ok = t is not None and (match(t, pattern('_p / _p.sum()')) is not None or
                            match(t, pattern('_p / np.sum(_p)')) is not None)
    ctx.check(ok, cm, 'normalised', 'p / p.sum()', 'the probabilities are not divided by their '
              'sum', fn=cm, node=rr[0] if rr else cm.node)
    # jointly smallest n_min discrepancies of the concatenation in model order
    nmin = [n for n in own_nodes(cm.node) if isinstance(n, ast.Assign) and
            match(ex.term(n.value), pattern('min([_s.n_samples for _s in sample_objs])')) is not None]
    cat = [n for n in own_nodes(cm.node) if isinstance(n, ast.Assign) and
           match(ex.term(n.value),
                 pattern('np.concatenate([_s.discrepancies for _s in sample_objs])')) is not None]
    ctx.check(bool(nmin) and bool(cat), cm, 'joint ranking',
              'argsort(concatenated discrepancies)[:min n_samples]',
              'the ranking is not over the concatenation of all models\' discrepancies, cut at '
              'the smallest sample size', fn=cm, node=(cat or nmin or [cm.node])[0])


@obligation('C17-e', 'T1 T2', 'every fit starts from empty per-fit state', floor=1,
            necessary='models appended to those of an earlier fit are read by parameter index: '
                      'the adjustment then uses the slope of another sample')
def c17_e(ctx):
    ra = ctx.cls('elfi.methods.post_processing:RegressionAdjustment')
    fit = ctx.own_method(ra, 'fit')
    adj = ctx.own_method(ra, 'adjust')
    exf = ctx.ex(fit)
    # attributes that fit() grows (append / extend / +=) must be re-initialised in fit() first
    grown = {}
    for c in ctx.calls(fit):
        if isinstance(c.func, ast.Attribute) and c.func.attr in ('append', 'extend', 'insert') \
                and isinstance(c.func.value, ast.Attribute) and \
                isinstance(c.func.value.value, ast.Name) and c.func.value.value.id == 'self':
            grown.setdefault(c.func.value.attr, []).append(c)
    for s in own_nodes(fit.node):
        if isinstance(s, ast.AugAssign) and isinstance(s.target, ast.Attribute) and \
                isinstance(s.target.value, ast.Name) and s.target.value.id == 'self':
            grown.setdefault(s.target.attr, []).append(s)
    read_by_index = set()
    for n in own_nodes(adj.node):
        if isinstance(n, ast.Subscript) and isinstance(n.value, ast.Attribute) and \
                isinstance(n.value.value, ast.Name) and n.value.value.id == 'self':
            read_by_index.add(n.value.attr)
    if not grown:
        # nothing is grown in place: every per-fit attribute must then be assigned afresh
        sts = [s for (s, t, k) in ctx.stores(fit, 'self.regression_models') if k == 'assign']
        ctx.check(bool(sts), fit, 'models assigned afresh by fit', 'self.regression_models = ...',
                  'fit does not set self.regression_models', fn=fit, node=fit.node)
    for attr, sites in sorted(grown.items()):
        resets = [s for (s, t, k) in ctx.stores(fit, 'self.' + attr) if k == 'assign' and
                  exf.raw(s.value) in (('list', ()), ('call', ('global', 'builtins.list'), (), ()),
                                       ('call', ('name', 'list'), (), ()))]
        ok = bool(resets) and all(ctx.must_precede(fit, resets, x) for x in sites)
        ctx.check(ok, fit, 'self.{} emptied before it is filled'.format(attr),
                  'self.{} = [] at the start of fit'.format(attr),
                  'fit() appends to self.{0} without emptying it first{1}: a second fit keeps the '
                  'entries of the first'.format(
                      attr, ' (adjust reads it by parameter index)' if attr in read_by_index
                      else ''), fn=fit, node=sites[0])
