"""C17 - regression adjustment and model comparison.

Decided: one finite-mask per parameter applied to regressors and parameter alike, regressors
as a difference of simulated and observed summaries in one name order, adjusted = theta minus
the fitted linear term, half-open block membership and orientation of the model probability.
Not decided: least-squares optimality, affine invariance, numeric values.
"""

import ast

from .. import AnalysisError, AnchorMissing
from ..cfg import cfg_of
from ..model import own_nodes
from ..values import pattern, match, match_any, find, contains, show, subterms
from ..domains import polarity, POS, NEG, ZERO
from .base import obligation, src, callee_name
from .C04 import pattern_term, returns, enclosing_loop, _inside

RA = 'elfi.methods.post_processing:RegressionAdjustment'
LA = 'elfi.methods.post_processing:LinearAdjustment'


@obligation('C17-a', 'T7', 'the finite-row mask of parameter i selects both its regressors and '
            'its values', floor=4,
            necessary='different masks pair regressor rows with parameter values of other draws')
def c17_a(ctx):
    ra = ctx.cls(RA)
    la = ctx.cls(LA)
    # the generator of (X, p) pairs
    pairs = [m for m in ra.methods.values()
             if any(isinstance(n, (ast.Yield,)) for n in own_nodes(m.node))]
    if not pairs:
        raise AnchorMissing('no (X, p) pair generator in RegressionAdjustment')
    pf = pairs[0]
    ex = ctx.ex(pf)
    ys = [n for n in own_nodes(pf.node) if isinstance(n, ast.Yield)]
    t = ex.term(ys[0].value)
    ok = t[0] == 'tuple' and len(t[1]) == 2
    if ok:
        X, p = t[1]
        mx = match(X, pattern('self._X[self._finite[_i], :]'))
        mp = match(p, pattern('self._sample.outputs[_n][self._finite[_i]]'))
        ok = mx is not None and mp is not None and mx['i'] == mp['i'] and \
            mx['i'][0] == 'item' and mx['i'][2] == 0 and mp['n'][0] == 'item' and \
            mp['n'][2] == 1 and mp['n'][1] == mx['i'][1] and \
            contains(mx['i'], 'enumerate(self._parameter_names)')
    ctx.check(ok, pf, 'fit pairs', 'X[finite[i]], outputs[name_i][finite[i]]',
              'the fitted pair is {} - regressors and parameter values are not selected by the '
              'same mask finite[i] of parameter i'.format(show(t)[:140]), fn=pf, node=ys[0])
    ad = ctx.own_method(ra, 'adjust')
    exa = ctx.ex(ad)
    calls = ctx.calls(ad, 'self._adjust(*_)')
    ok = False
    for c in calls:
        a = [exa.term(x) for x in c.args]
        if len(a) == 3:
            m2 = match(a[1], pattern('self.sample.outputs[_n][self._finite[_i]]'))
            m3 = match(a[2], pattern('self.regression_models[_i]'))
            if m2 is not None and m3 is not None and a[0] == m2['i'] == m3['i'] and \
                    a[0][0] == 'item' and a[0][2] == 0 and m2['n'] == ('item', a[0][1], 1) and \
                    contains(a[0], 'enumerate(self.parameter_names)'):
                ok = True
    ctx.check(ok, ad, 'adjust call', '_adjust(i, outputs[name_i][finite[i]], models[i])',
              'adjust does not hand parameter i its own finite rows and its own fitted model',
              fn=ad, node=calls[0] if calls else ad.node)
    st = [n for n in own_nodes(ad.node) if isinstance(n, ast.Assign) and
          isinstance(n.targets[0], ast.Subscript) and contains(exa.term(n.value), 'self._adjust(*_)')]
    ok = bool(st) and exa.term(st[0].targets[0].slice)[0] == 'item' and \
        exa.term(st[0].targets[0].slice)[2] == 1
    ctx.check(ok, ad, 'result stored under the parameter\'s name', 'outputs[name] = adjusted',
              'the adjusted values are not stored under their own parameter name', fn=ad,
              node=st[0] if st else ad.node)
    lad = la.methods.get('_adjust')
    if lad is None:
        raise AnchorMissing('LinearAdjustment._adjust')
    exl = ctx.ex(lad)
    rr = returns(lad)
    t = exl.term(rr[0].value)
    m = match(t, pattern('theta_i - self.X[self._finite[i], :].dot(_b)'))
    ctx.check(m is not None and match(m['b'], pattern('regression_model.coef_')) is not None, lad,
              'adjusted = theta - X[finite[i]] . slope',
              'theta_i - X[finite[i], :].dot(coef_)',
              'the adjusted value is {}'.format(show(t)[:100]), fn=lad, node=rr[0])
    # masks: finite regressor rows AND finite parameter values, one per parameter
    gf = [m_ for m_ in ra.methods.values() if ctx.stores(m_, 'self._finite')
          and m_.name != '__init__']
    if not gf:
        raise AnchorMissing('mask computation')
    g = gf[0]
    exg = ctx.ex(g)
    st = [s for (s, t2, k) in ctx.stores(g, 'self._finite') if isinstance(s, ast.Assign)]
    v = exg.term(st[0].value)
    ok = v[0] == 'comp' and v[1] == 'list' and \
        match(v[3][0][0], pattern('self._parameter_names')) is not None and \
        match_any(v[2], ('np.isfinite(self._X).all(axis=1) & '
                         'np.isfinite(self._sample.outputs[_p])',
                         'np.isfinite(self._sample.outputs[_p]) & '
                         'np.isfinite(self._X).all(axis=1)')) is not None
    ctx.check(ok, g, 'mask definition',
              'finite regressor rows & finite values of that parameter, per parameter',
              'the masks are {}'.format(show(v)[:120]), fn=g, node=st[0])
    fit = ctx.own_method(ra, 'fit')
    exf = ctx.ex(fit)
    cg = ctx.calls(fit, resolved_to=g)
    loop = [n for n in own_nodes(fit.node) if isinstance(n, ast.For)]
    ok = bool(cg) and bool(loop) and ctx.must_precede(fit, cg, loop[0].iter)
    ctx.check(ok, fit, 'masks computed before fitting', '_get_finite() before the pairs',
              'the models are fitted before the masks are computed', fn=fit,
              node=cg[0] if cg else fit.node)
    xs = [s for (s, t2, k) in ctx.stores(fit, 'self._X') if isinstance(s, ast.Assign)]
    ok = bool(xs) and bool(cg) and ctx.must_precede(fit, xs, cg[0])
    ctx.check(ok, fit, 'regressors built before the masks', '', 'masks are computed before the '
              'regressors exist', fn=fit, node=xs[0] if xs else fit.node)


@obligation('C17-b', 'T4', 'regressors are (simulated - observed) summaries in one name order',
            floor=3, necessary='same-sign operands do not vanish when simulated = observed; '
                               'different name orders subtract different summaries')
def c17_b(ctx):
    la = ctx.cls(LA)
    iv = la.methods.get('_input_variables')
    if iv is None:
        raise AnchorMissing('LinearAdjustment._input_variables')
    ex = ctx.ex(iv)
    rr = returns(iv)
    t = ex.term(rr[0].value)
    is_sim = lambda x: match(x, pattern('sample.outputs[_n]')) is not None
    is_obs = lambda x: match(x, pattern('model[_s].observed')) is not None
    ps, po = polarity(t, is_sim), polarity(t, is_obs)
    ok = {ps, po} == {POS, NEG}
    ctx.check(ok, iv, 'difference of simulated and observed', 'opposite polarity',
              'the regressors depend on the simulated summaries with polarity {} and on the '
              'observed ones with polarity {}: they do not vanish when both are equal'.format(
                  ps, po), fn=iv, node=rr[0])
    stacks = [s for s in subterms(t) if match(s, pattern('np.stack(_c, axis=1)')) is not None]
    iters = []
    for s in stacks:
        c = s[2][0]
        if c[0] == 'comp':
            iters.append(c[3][0][0])
    ok = len(iters) == 2 and iters[0] == iters[1] == ('param', 'summary_names')
    ctx.check(ok, iv, 'one name order on both sides', 'both stacks iterate summary_names',
              'simulated and observed summaries are stacked in different orders', fn=iv,
              node=rr[0])
    ok = len(stacks) == 2
    ctx.check(ok, iv, 'summaries are columns', 'np.stack(..., axis=1)',
              'the summaries are not stacked as columns', fn=iv, node=rr[0])


@obligation('C17-d', 'T6 T4 T7', 'model comparison: half-open blocks, share / n_sim x prior, '
            'normalised', floor=6,
            necessary='closed blocks count boundary indices twice; a multiplied n_sim rewards '
                      'expensive models')
def c17_d(ctx):
    cm = ctx.fn('elfi.methods.model_selection:compare_models')
    ex = ctx.ex(cm)
    loops = [n for n in own_nodes(cm.node) if isinstance(n, ast.For)]
    if not loops:
        raise AnchorMissing('compare_models has no loop over the models')
    lo = loops[0]
    i = lo.target.id if isinstance(lo.target, ast.Name) else None
    ok = match(ex.raw(lo.iter), pattern('range(len(sample_objs))')) is not None or \
        match(ex.term(lo.iter, cfg_of(cm).by_stmt[id(lo)]),
              pattern('range(len(sample_objs))')) is not None
    ctx.check(ok, cm, 'one pass per model', 'for i in range(n_models)',
              'the loop does not visit every model once', fn=cm, node=lo)
    # block bounds: low = previous up; up += n_samples of model i
    lows = [n for n in ast.walk(lo) if isinstance(n, ast.Assign) and
            isinstance(n.targets[0], ast.Name) and isinstance(n.value, ast.Name)]
    ups = [n for n in ast.walk(lo) if isinstance(n, ast.AugAssign) and
           isinstance(n.target, ast.Name) and isinstance(n.op, ast.Add) and
           match(ex.raw(n.value), pattern('sample_objs[{}].n_samples'.format(i))) is not None]
    ok = len(ups) == 1 and any(n.value.id == ups[0].target.id and
                               ctx.must_precede(cm, [n], ups[0]) for n in lows)
    ctx.check(ok, cm, 'adjacent blocks', 'low = previous up; up += n_samples[i]',
              'the block of model i does not start where the block of model i-1 ended', fn=cm,
              node=ups[0] if ups else lo)
    if not ok:
        return
    up = ups[0].target.id
    low = [n for n in lows if n.value.id == up][0].targets[0].id
    init = [n for n in own_nodes(cm.node) if isinstance(n, ast.Assign) and
            isinstance(n.targets[0], ast.Name) and n.targets[0].id == up and
            not _inside(n, lo)]
    ctx.check(bool(init) and ex.raw(init[0].value) == ('const', 0), cm, 'blocks start at 0',
              'up_bound = 0', 'the first block does not start at index 0', fn=cm,
              node=init[0] if init else lo)
    cnt = [n for n in ast.walk(lo) if isinstance(n, ast.Assign) and
           isinstance(n.targets[0], ast.Subscript) and
           contains(ex.raw(n.value), 'np.logical_and(_a, _b)')]
    ok = False
    if cnt:
        m = match(ex.raw(cnt[0].value), pattern('np.logical_and(_a, _b).sum()')) or \
            match(ex.raw(cnt[0].value), pattern('np.sum(np.logical_and(_a, _b))'))
        if m is not None:
            a, b = m['a'], m['b']
            la_ = match(a, pattern('{} <= _x'.format(low)))
            lb_ = match(b, pattern('_x < {}'.format(up)))
            if la_ is None or lb_ is None:
                la_ = match(b, pattern('{} <= _x'.format(low)))
                lb_ = match(a, pattern('_x < {}'.format(up)))
            ok = la_ is not None and lb_ is not None and la_['x'] == lb_['x']
            if ok:
                idx = ex.term(cnt[0].value)
                ok = contains(idx, 'np.argsort(_d)[:_n]')
    ctx.check(ok, cm, 'half-open membership', 'low <= inds < up',
              'block membership is not `inds >= low` and `inds < up`', fn=cm,
              node=cnt[0] if cnt else lo)
    if cnt:
        ctx.check(ctx.must_precede(cm, [ups[0]], cnt[0]), cm, 'bounds updated before counting',
                  '', 'the share is counted before the block bounds were advanced', fn=cm,
                  node=cnt[0])
        slot = ex.raw(cnt[0].targets[0].slice)
        ctx.check(slot == ('name', i), cm, 'share stored in the model\'s own slot',
                  'p_models[i]', 'the share of model i is stored in slot {}'.format(show(slot)),
                  fn=cm, node=cnt[0])
    divs = [n for n in ast.walk(lo) if isinstance(n, ast.AugAssign) and
            isinstance(n.op, ast.Div) and
            match(ex.raw(n.value), pattern('sample_objs[{}].n_sim'.format(i))) is not None and
            ex.raw(n.target.slice) == ('name', i)]
    bad = [n for n in ast.walk(lo) if isinstance(n, ast.AugAssign) and
           not isinstance(n.op, ast.Div) and contains(ex.raw(n.value), '_.n_sim')]
    ctx.check(len(divs) == 1 and not bad, cm, 'divided by the model\'s simulation count',
              'p_models[i] /= sample_objs[i].n_sim',
              'the share is not divided by the number of simulations of the same model', fn=cm,
              node=divs[0] if divs else lo)
    muls = [n for n in ast.walk(lo) if isinstance(n, ast.AugAssign) and
            isinstance(n.op, ast.Mult) and
            match(ex.raw(n.value), pattern('model_priors[{}]'.format(i))) is not None and
            ex.raw(n.target.slice) == ('name', i)]
    ok = len(muls) == 1 and any(pol and match(t, pattern('model_priors is not None')) is not None
                                for (t, pol, _) in ctx.guards(cm, muls[0]))
    ctx.check(ok, cm, 'multiplied by the model\'s prior weight',
              'p_models[i] *= model_priors[i] when priors are given',
              'the share is not multiplied by the prior weight of the same model', fn=cm,
              node=muls[0] if muls else lo)
    rr = returns(cm)
    t = ex.term(rr[0].value) if rr else None
    ok = t is not None and (match(t, pattern('_p / _p.sum()')) is not None or
                            match(t, pattern('_p / np.sum(_p)')) is not None)
    ctx.check(ok, cm, 'normalised', 'p / p.sum()', 'the probabilities are not divided by their '
              'sum', fn=cm, node=rr[0] if rr else cm.node)
    # jointly smallest n_min discrepancies of the concatenation in model order
    nmin = [n for n in own_nodes(cm.node) if isinstance(n, ast.Assign) and
            match(ex.term(n.value), pattern('min([_s.n_samples for _s in sample_objs])')) is not None]
    cat = [n for n in own_nodes(cm.node) if isinstance(n, ast.Assign) and
           match(ex.term(n.value),
                 pattern('np.concatenate([_s.discrepancies for _s in sample_objs])')) is not None]
    ctx.check(bool(nmin) and bool(cat), cm, 'joint ranking',
              'argsort(concatenated discrepancies)[:min n_samples]',
              'the ranking is not over the concatenation of all models\' discrepancies, cut at '
              'the smallest sample size', fn=cm, node=(cat or nmin or [cm.node])[0])


@obligation('C17-e', 'T1 T2', 'every fit starts from empty per-fit state', floor=1,
            necessary='models appended to those of an earlier fit are read by parameter index: '
                      'the adjustment then uses the slope of another sample')
def c17_e(ctx):
    ra = ctx.cls('elfi.methods.post_processing:RegressionAdjustment')
    fit = ctx.own_method(ra, 'fit')
    adj = ctx.own_method(ra, 'adjust')
    exf = ctx.ex(fit)
    # attributes that fit() grows (append / extend / +=) must be re-initialised in fit() first
    grown = {}
    for c in ctx.calls(fit):
        if isinstance(c.func, ast.Attribute) and c.func.attr in ('append', 'extend', 'insert') \
                and isinstance(c.func.value, ast.Attribute) and \
                isinstance(c.func.value.value, ast.Name) and c.func.value.value.id == 'self':
            grown.setdefault(c.func.value.attr, []).append(c)
    for s in own_nodes(fit.node):
        if isinstance(s, ast.AugAssign) and isinstance(s.target, ast.Attribute) and \
                isinstance(s.target.value, ast.Name) and s.target.value.id == 'self':
            grown.setdefault(s.target.attr, []).append(s)
    read_by_index = set()
    for n in own_nodes(adj.node):
        if isinstance(n, ast.Subscript) and isinstance(n.value, ast.Attribute) and \
                isinstance(n.value.value, ast.Name) and n.value.value.id == 'self':
            read_by_index.add(n.value.attr)
    if not grown:
        # nothing is grown in place: every per-fit attribute must then be assigned afresh
        sts = [s for (s, t, k) in ctx.stores(fit, 'self.regression_models') if k == 'assign']
        ctx.check(bool(sts), fit, 'models assigned afresh by fit', 'self.regression_models = ...',
                  'fit does not set self.regression_models', fn=fit, node=fit.node)
    for attr, sites in sorted(grown.items()):
        resets = [s for (s, t, k) in ctx.stores(fit, 'self.' + attr) if k == 'assign' and
                  exf.raw(s.value) in (('list', ()), ('call', ('global', 'builtins.list'), (), ()),
                                       ('call', ('name', 'list'), (), ()))]
        ok = bool(resets) and all(ctx.must_precede(fit, resets, x) for x in sites)
        ctx.check(ok, fit, 'self.{} emptied before it is filled'.format(attr),
                  'self.{} = [] at the start of fit'.format(attr),
                  'fit() appends to self.{0} without emptying it first{1}: a second fit keeps the '
                  'entries of the first'.format(
                      attr, ' (adjust reads it by parameter index)' if attr in read_by_index
                      else ''), fn=fit, node=sites[0])


@obligation('C17-f', 'T8 T1', 'fit / adjust wiring: what fit stores is what the accessors return '
            'and what adjust uses; one model is fitted per (regressors, parameter) pair with '
            'fit(X, y); the adjusted sample is returned', floor=10,
            necessary='a model fitted with (y, X), a state field that is not stored, or a result '
                      'that is not returned cannot be `accepted values minus slope times '
                      '(simulated - observed)`')
def c17_f(ctx):
    from .base import bind_args
    ra = ctx.cls(RA)
    fit = ctx.own_method(ra, 'fit')
    ex = ctx.ex(fit)
    cfg = cfg_of(fit)
    # (a) the state fit() leaves behind
    want = {'self._sample': lambda v: v == ('param', 'sample'),
            'self._parameter_names': lambda v: match_any(
                v, ('parameter_names or sample.parameter_names',
                    'sample.parameter_names if parameter_names is None else parameter_names',
                    'parameter_names if parameter_names is not None else sample.parameter_names',
                    'parameter_names if parameter_names else sample.parameter_names'))
            is not None,
            'self._fitted': lambda v: v == ('const', True)}
    stores = {}
    for field, good in sorted(want.items()):
        st = [s for (s, t, k) in ctx.stores(fit, field) if isinstance(s, ast.Assign)]
        ok = len(st) == 1 and good(ex.term(st[0].value)) and cfg.must_pass([ctx.node(fit, st[0])])
        stores[field] = st
        ctx.check(ok, fit, 'fit stores {}'.format(field), src(st[0])[:60] if st else field,
                  'fit() does not store {} (the value given / the default) on every path'.format(
                      field), fn=fit, node=st[0] if st else fit.node)
    iv = ctx.calls(fit, 'self._input_variables(*_)')
    ok = False
    if len(iv) == 1:
        callee = ra.lookup('_input_variables')
        b = bind_args(iv[0], callee) if callee is not None else None
        ok = b is not None and set(b) == {'model', 'sample', 'summary_names'} and \
            all(ex.term(v) == ('param', k) for (k, v) in b.items())
        xs = [s for (s, t, k) in ctx.stores(fit, 'self._X') if isinstance(s, ast.Assign)]
        ok = ok and len(xs) == 1 and contains(ex.term(xs[0].value), 'self._input_variables(*_)') \
            and cfg.must_pass([ctx.node(fit, xs[0])])
    ctx.check(ok, fit, 'regressors from (model, sample, summary_names)',
              'self._X = self._input_variables(model, sample, summary_names)',
              'the regressors are not built from fit\'s own (model, sample, summary_names), each '
              'in its own position', fn=fit, node=iv[0] if iv else fit.node)
    # the fitted flag is set last: after the models exist
    loops = [n for n in own_nodes(fit.node) if isinstance(n, ast.For)]
    fl = stores.get('self._fitted') or []
    ok = bool(loops) and bool(fl) and cfg.must_precede([cfg.by_stmt[id(loops[0])]],
                                                       ctx.node(fit, fl[0]))
    ctx.check(ok, fit, 'fitted flag set after the models exist', '_fitted = True last',
              'the fitted flag is set before the models are fitted', fn=fit,
              node=fl[0] if fl else fit.node)
    # (b) one model per pair, appended in order
    ok = False
    app = []
    if loops:
        lo = loops[0]
        it = ex.term(lo.iter, cfg.by_stmt[id(lo)])
        app = [c for c in ast.walk(lo) if isinstance(c, ast.Call) and callee_name(c) == 'append'
               and match(ex.term(c.func.value), pattern('self.regression_models')) is not None or
               (isinstance(c, ast.Call) and callee_name(c) == 'append' and
                isinstance(c.func.value, ast.Attribute) and
                c.func.value.attr == 'regression_models')]
        if len(app) == 1 and match(it, pattern('self._pairs()')) is not None and \
                isinstance(lo.target, ast.Name):
            a = app[0].args[0]
            okc = isinstance(a, ast.Call) or True
            t = ex.term(a)
            m = match(t, pattern('self._fit1(*_p)'))
            ok = m is not None and len(t[2]) == 1 and t[2][0][0] == 'starred' and \
                t[2][0][1][0] == 'elem' and not any(
                    isinstance(n, (ast.Break, ast.Continue, ast.Return)) for n in ast.walk(lo))
            if not ok:
                m2 = match(t, pattern('self._fit1(_a, _b)'))
                ok = m2 is not None and m2['a'][0] == 'item' and m2['a'][2] == 0 and \
                    m2['b'][0] == 'item' and m2['b'][2] == 1 and m2['a'][1] == m2['b'][1]
    ctx.check(ok, fit, 'one model per (regressors, parameter) pair',
              'for pair in self._pairs(): regression_models.append(self._fit1(*pair))',
              'fit() does not append one fitted model per pair, in pair order', fn=fit,
              node=app[0] if app else fit.node)
    f1 = ra.lookup('_fit1')
    if f1 is None:
        raise AnchorMissing('RegressionAdjustment._fit1')
    ctx.touch(f1)
    ex1 = ctx.ex(f1)
    rr = returns(f1)
    falls = [p for (p, lab) in cfg_of(f1).ret.pred
             if not (p.kind == 'stmt' and isinstance(p.ast, ast.Return))]
    px, py = f1.params[1], f1.params[2]
    ok = len(rr) == 1 and not falls and match(
        ex1.term(rr[0].value),
        pattern('self._regression_model(**self._model_kwargs).fit({}, {})'.format(px, py))) \
        is not None
    ctx.check(ok, f1, 'model fitted as fit(X, y) and returned',
              'return self._regression_model(**self._model_kwargs).fit(X, y)',
              'the regression model is not fitted with (regressors, parameter values) in that '
              'order, or the fitted model is not returned', fn=f1, node=rr[0] if rr else f1.node)
    # (c) the accessors return the fields fit() stored, after the fitted check
    for prop, field in (('parameter_names', '_parameter_names'), ('sample', '_sample'),
                        ('X', '_X')):
        g = ra.methods.get(prop)
        if g is None or not g.is_property:
            raise AnchorMissing('RegressionAdjustment.{} property'.format(prop))
        ctx.touch(g)
        exg = ctx.ex(g)
        rr = returns(g)
        falls = [p for (p, lab) in cfg_of(g).ret.pred
                 if not (p.kind == 'stmt' and isinstance(p.ast, ast.Return))]
        ok = bool(rr) and not falls and all(
            match(exg.term(r.value), pattern('self.' + field)) is not None for r in rr)
        ctx.check(ok, g, 'accessor {} returns {}'.format(prop, field), 'return self.' + field,
                  'the accessor {} does not return the field fit() stored'.format(prop), fn=g,
                  node=rr[0] if rr else g.node)
    cf = ra.lookup('_check_fitted')
    if cf is not None:
        ctx.touch(cf)
        rs = ctx.stmts(cf, ast.Raise)
        ok = bool(rs) and all(any(pol is False and match(t, pattern('self._fitted')) is not None
                                  for (t, pol, _) in ctx.guards(cf, r)) for r in rs)
        ctx.check(ok, cf, 'unfitted use refused', 'raise unless self._fitted',
                  'the fitted check does not raise exactly when nothing has been fitted', fn=cf,
                  node=rs[0] if rs else cf.node)
    # (d) adjust() returns a Sample of the adjusted outputs under fit's parameter names
    ad = ctx.own_method(ra, 'adjust')
    exa = ctx.ex(ad)
    rr = returns(ad)
    falls = [p for (p, lab) in cfg_of(ad).ret.pred
             if not (p.kind == 'stmt' and isinstance(p.ast, ast.Return))]
    ok = len(rr) == 1 and not falls
    if ok:
        t = exa.term(rr[0].value)
        ok = match_any(t, ('results.Sample(*_)', 'Sample(*_)', 'elfi.methods.results.Sample(*_)')) \
            is not None
        if ok:
            kws = dict((k, v) for (k, v) in t[3] if k is not None)
            ok = 'outputs' in kws and 'parameter_names' in kws and \
                match_any(kws['parameter_names'], ('self._parameter_names',
                                                   'self.parameter_names')) is not None
            # the dict handed over is the one the loop fills
            st = [n for n in own_nodes(ad.node) if isinstance(n, ast.Assign) and
                  isinstance(n.targets[0], ast.Subscript) and
                  contains(exa.term(n.value), 'self._adjust(*_)')]
            ok = ok and bool(st) and isinstance(st[0].targets[0].value, ast.Name) and \
                any(isinstance(k.value, ast.Name) and k.arg == 'outputs' and
                    k.value.id == st[0].targets[0].value.id
                    for c in ctx.calls(ad) for k in c.keywords) 
    ctx.check(ok, ad, 'adjust returns the adjusted sample',
              'return Sample(outputs=adjusted, parameter_names=...)',
              'adjust() does not return a Sample built from the adjusted outputs and the fitted '
              'parameter names', fn=ad, node=rr[0] if rr else ad.node)
    # (e) adjust_posterior: fit with its own arguments, return the adjustment
    ap = ctx.fn('elfi.methods.post_processing:adjust_posterior')
    exp_ = ctx.ex(ap)
    fc = [c for c in ctx.calls(ap, name='fit')]
    ok = False
    if len(fc) == 1:
        b = bind_args(fc[0], fit)
        ok = b is not None and set(b) == {'model', 'sample', 'summary_names', 'parameter_names'} \
            and all(exp_.term(v) == ('param', k) for (k, v) in b.items())
    ctx.check(ok, ap, 'adjust_posterior fits with its own arguments',
              'adjustment.fit(model=model, sample=sample, parameter_names=..., summary_names=...)',
              'adjust_posterior does not pass each of its arguments to fit() under its own name',
              fn=ap, node=fc[0] if fc else ap.node)
    rr = returns(ap)
    falls = [p for (p, lab) in cfg_of(ap).ret.pred
             if not (p.kind == 'stmt' and isinstance(p.ast, ast.Return))]
    ok = len(rr) == 1 and not falls and callee_name(rr[0].value) == 'adjust' if rr and \
        isinstance(rr[0].value, ast.Call) else False
    if rr and not ok:
        t = exp_.term(rr[0].value)
        ok = not falls and t[0] == 'call' and t[1][0] == 'attr' and t[1][2] == 'adjust'
    ok = ok and bool(fc) and bool(rr) and ctx.must_precede(ap, fc, rr[0])
    ctx.check(ok, ap, 'adjust_posterior returns adjustment.adjust() after fitting',
              'return adjustment.adjust()',
              'adjust_posterior does not return the adjusted sample of the fitted adjustment',
              fn=ap, node=rr[0] if rr else ap.node)


@obligation('C17-g', 'T2', 'the regression adjustment and the model comparison contain no absolute '
            'tolerance', floor=6,
            necessary='the adjustment must be unaffected by an affine re-expression of the '
                      'summaries and leave a draw unchanged exactly when its summaries equal the '
                      'observed ones: a test against an absolute number makes both depend on the '
                      'units of the summaries')
def c17_g(ctx):
    from .base import scale_free_sweep
    fns = []
    for q in ('elfi.methods.post_processing:RegressionAdjustment',
              'elfi.methods.post_processing:LinearAdjustment'):
        fns += list(ctx.cls(q).methods.values())
    fns.append(ctx.fn('elfi.methods.model_selection:compare_models'))
    scale_free_sweep(ctx, fns, 'the result depends on the units the summaries / discrepancies are '
                               'expressed in')


@obligation('C17-h', 'T2', 'no result buffer takes the dtype of a caller\'s array and then receives '
            'computed values (shared sweep of C08-l, restricted to the modules this property is '
            'anchored in; `*_like(x)` and `dtype=x.dtype` allocations)', floor=1,
            necessary='adjusted values are stored as computed (numpy truncates floats silently when they are assigned into an '
                      'integer array)')
def c17_dtype(ctx):
    from .base import inherited_dtype_obligation
    inherited_dtype_obligation(ctx, ['elfi.methods.post_processing', 'elfi.methods.model_selection'])
