"""C04 - sampler results do not depend on worker scheduling.

Decided: FIFO consumption, bounded outstanding batches, cancel-before-replan, nothing left
behind, rewind on cancel, schedule-blind objective, draws in index order, each consumed batch
updates the state exactly once.  Not decided: equality of results across interleavings.
"""

import ast

from .. import AnalysisError, AnchorMissing
from ..cfg import cfg_of
from ..model import own_nodes
from ..values import pattern, match, find, find_all, contains, show, subterms, alias
from .base import obligation, src, callee_name

BH = 'elfi.client:BatchHandler'
PI = 'elfi.methods.inference.parameter_inference:ParameterInference'
SAMPLERS = 'elfi.methods.inference.samplers'
SCHEDULE_ATTRS = {'has_ready', 'num_ready', 'num_pending', 'has_pending', 'pending_indices',
                  'is_ready', 'next_index', 'total', '_next_batch_index', '_pending_batches'}
PENDING = 'self._pending_batches'


def enclosing_loop(node):
    n = getattr(node, '_parent', None)
    while n is not None and not isinstance(n, (ast.FunctionDef, ast.AsyncFunctionDef, ast.Lambda)):
        if isinstance(n, (ast.While, ast.For)):
            return n
        n = getattr(n, '_parent', None)
    return None


def returns(fn):
    return [n for n in own_nodes(fn.node) if isinstance(n, ast.Return)]


# ---------------------------------------------------------------------------

@obligation('C04-a', 'T8 T5', 'pending batches are consumed oldest first; indices advance by one',
            floor=4, necessary='LIFO or skipped indices consume batches out of index order')
def c04_a(ctx):
    bh = ctx.cls(BH)
    ctx.fact('OrderedDict.popitem() is LIFO by default, popitem(last=False) is FIFO')
    init = ctx.own_method(bh, '__init__')
    cre = [s for (s, t, k) in ctx.stores(init, PENDING) if k == 'assign']
    if not cre:
        raise AnchorMissing('BatchHandler.__init__ does not create _pending_batches')
    ct = ctx.term(init, cre[0].value)
    ordered = match(ct, pattern('OrderedDict()')) is not None
    plain = ct in (('dict', ()), ) or match(ct, pattern('dict()')) is not None
    ctx.check(ordered or plain, init, 'pending container',
              'insertion-ordered mapping ({})'.format(show(ct)),
              'pending batches are kept in {} which does not keep submission order'.format(
                  show(ct)), fn=init, node=cre[0])
    wn = ctx.own_method(bh, 'wait_next')
    removals = [(s, t, k) for (s, t, k) in ctx.stores(wn, PENDING)]
    if not removals:
        ctx.bad(wn, 'oldest first', 'wait_next does not take an entry out of the pending map',
                fn=wn, node=wn.node)
    for (s, t, k) in removals:
        term = ctx.term(wn, t) if isinstance(t, ast.Call) else None
        fifo = False
        why = src(t)
        if k == 'call:popitem':
            kw = dict((a.arg, a.value) for a in t.keywords)
            if 'last' in kw and isinstance(kw['last'], ast.Constant) and kw['last'].value is False:
                fifo = True
            elif t.args and isinstance(t.args[0], ast.Constant) and t.args[0].value is False:
                fifo = True
            if fifo and not ordered:
                fifo = False
                why += ' on a plain dict'
        elif k == 'call:pop' and t.args:
            a = ctx.term(wn, t.args[0])
            if match(a, pattern('next(iter(self._pending_batches))')) is not None or \
                    match(a, pattern('next(iter(self._pending_batches.keys()))')) is not None:
                fifo = True
        elif k == 'del':
            a = ctx.term(wn, t.slice) if isinstance(t, ast.Subscript) else None
            if a is not None and (match(a, pattern('next(iter(self._pending_batches))'))
                                  is not None or contains(a, 'next(iter(self._pending_batches'
                                                             '.items()))')):
                fifo = True
        ctx.check(fifo, wn, 'oldest first', 'removes the oldest pending entry: ' + why,
                  'removes an entry that is not the oldest: ' + why, fn=wn, node=t)
    sub = ctx.own_method(bh, 'submit')
    sets = [(s, t, k) for (s, t, k) in ctx.stores(sub, PENDING + '[_]') if k == 'assign']
    if len(sets) != 1:
        ctx.bad(sub, 'store under next index',
                'submit stores {} entries into the pending map'.format(len(sets)), fn=sub,
                node=sub.node)
    else:
        key = ctx.term(sub, sets[0][1].slice)
        ctx.check(key == pattern_term('self._next_batch_index'), sub, 'store under next index',
                  'task stored under _next_batch_index',
                  'task stored under {} instead of _next_batch_index'.format(show(key)),
                  fn=sub, node=sets[0][0])
        incs = [s for (s, t, k) in ctx.stores(sub, 'self._next_batch_index')]
        good = [s for s in incs if _is_plus_one(ctx, sub, s, 'self._next_batch_index')]
        okk = len(incs) == 1 and len(good) == 1 and ctx.must_follow(sub, sets[0][0], good)
        ctx.check(okk, sub, 'index advances by one',
                  '_next_batch_index += 1 once after the task is stored',
                  '_next_batch_index is not increased by exactly one after storing the task',
                  fn=sub, node=incs[0] if incs else sub.node)
        # the same index goes to load_data (seed derivation uses it)
        lds = ctx.calls(sub, name='load_data')
        okk = bool(lds) and all(
            len(c.args) >= 3 and ctx.term(sub, c.args[2]) == key or
            any(kw.arg == 'batch_index' and ctx.term(sub, kw.value) == key for kw in c.keywords)
            for c in lds)
        ctx.check(okk, sub, 'same index loaded', 'load_data(..., batch_index) uses the stored index',
                  'the batch is loaded with a different index than it is stored under', fn=sub,
                  node=lds[0] if lds else sub.node)


def pattern_term(srcp):
    """Concrete term written as a pattern (self -> param)."""
    p = pattern(srcp)

    def conv(t):
        if not isinstance(t, tuple):
            return t
        if t and t[0] == 'pname':
            return ('param', t[1])
        return tuple(conv(x) for x in t)
    return conv(p)


def _is_plus_one(ctx, fn, stmt, target, by=1):
    if isinstance(stmt, ast.AugAssign):
        v = ctx.term(fn, stmt.value)
        return isinstance(stmt.op, ast.Add) and v == ('const', by)
    if isinstance(stmt, ast.Assign):
        v = ctx.term(fn, stmt.value)
        return match(v, pattern('{} + {}'.format(target, by))) is not None or \
            match(v, pattern('{} + {}'.format(by, target))) is not None
    return False


# ---------------------------------------------------------------------------

@obligation('C04-b', 'T11 T13 T2 T6', 'never more than max_parallel_batches outstanding',
            floor=5, necessary='a non-strict limit or an unguarded submit exceeds the limit')
def c04_b(ctx):
    pi = ctx.cls(PI)
    bh = ctx.cls(BH)
    submit = ctx.own_method(bh, 'submit')
    # every caller of BatchHandler.submit in the repo
    callers = ctx.cg.callers_of(submit)
    # plus syntactic candidates the type table cannot resolve
    for (f, n) in ctx.cg.call_sites_named('submit'):
        if (f, n) in callers:
            continue
        recv = ctx.term(f, n.func.value) if isinstance(n.func, ast.Attribute) else None
        if recv is not None and recv[0] == 'attr' and recv[2] == 'batches':
            callers.append((f, n))
    if not callers:
        raise AnchorMissing('no caller of BatchHandler.submit found')
    for (f, n) in callers:
        loop = enclosing_loop(n)
        guarded = False
        if isinstance(loop, ast.While):
            t = ctx.term(f, loop.test, cfg_of(f).by_stmt[id(loop)])
            guarded = contains(t, 'self._allow_submit(*_)') and any(
                pol and match(g, pattern('self._allow_submit(*_)')) is not None
                for (g, pol, _) in ctx.guards(f, n))
        in_iter = f.cls is not None and f.cls.is_subclass_of(pi) and f.name == 'iterate'
        ctx.check(guarded and in_iter, f, 'submit under _allow_submit',
                  'submit inside `while self._allow_submit(...)` of iterate',
                  'BatchHandler.submit called outside the `while _allow_submit` loop of '
                  'iterate', fn=f, node=n)
        if guarded:
            body_submits = [c for c in ast.walk(loop) if isinstance(c, ast.Call) and
                            callee_name(c) == 'submit']
            ctx.check(len(body_submits) == 1 and enclosing_loop(n) is loop, f,
                      'one submit per permission',
                      'exactly one submit per loop iteration',
                      '{} submits per evaluation of _allow_submit'.format(len(body_submits)),
                      fn=f, node=n)
    # base predicate: strict comparison with the limit
    base = ctx.own_method(pi, '_allow_submit')
    rets = returns(base)
    if not rets:
        raise AnchorMissing('_allow_submit has no return')
    for r in rets:
        t = ctx.term(base, r.value)
        strict = contains(t, 'self.batches.num_pending < self.max_parallel_batches')
        loose = contains(t, 'self.batches.num_pending <= self.max_parallel_batches')
        # must be a conjunct, i.e. not under `or` / `not`
        conj = _is_conjunct(t, pattern('self.batches.num_pending < self.max_parallel_batches'))
        ctx.check(strict and conj and not loose, base, 'strict limit',
                  'max_parallel_batches > num_pending is a conjunct of the permission',
                  'the permission does not require num_pending < max_parallel_batches '
                  '(found: {})'.format(show(t)[:200]), fn=base, node=r)
    # num_pending really counts the pending map
    npend = ctx.own_method(bh, 'num_pending')
    rr = returns(npend)
    okk = len(rr) == 1 and _counts_pending(ctx, bh, npend, rr[0])
    ctx.check(okk, npend, 'num_pending counts the pending map', 'len(pending entries)',
              'num_pending is not the size of the pending map', fn=npend,
              node=rr[0] if rr else npend.node)
    # overrides may only restrict
    for ov in pi.overrides('_allow_submit'):
        if ov is base:
            continue
        for r in returns(ov):
            t = ctx.term(ov, r.value) if r.value is not None else ('const', None)
            if t in (('const', False), ('const', None)):
                continue
            sup = pattern('super(*_)._allow_submit(*_)')
            if match(t, sup) is not None or _is_conjunct(t, sup):
                continue
            g_ok = False
            for (gt, pol, tast) in ctx.guards(ov, r):
                if pol is False and gt[0] == 'unary' and gt[1] == 'not' and \
                        match(gt[2], sup) is not None:
                    g_ok = True
                if pol is True and (match(gt, sup) is not None or _is_conjunct(gt, sup)):
                    g_ok = True
            ctx.check(g_ok, ov, 'override only restricts',
                      '`return {}` reachable only where the base permission holds'.format(
                          src(r.value) if r.value else None),
                      '`return {}` can grant permission where the base predicate refused'.format(
                          src(r.value) if r.value else None), fn=ov, node=r)
        ctx.ok(ov, 'override examined', '{} returns'.format(len(returns(ov))), fn=ov, node=ov.node)


def _is_conjunct(t, pat):
    """pat matches t itself or a member of a (nested) top-level `and`."""
    if match(t, pat) is not None:
        return True
    if t[0] == 'bool' and t[1] == 'and':
        return any(_is_conjunct(x, pat) for x in t[2])
    return False


def _counts_pending(ctx, bh, fn, ret):
    t = ctx.term(fn, ret.value)
    if match(t, pattern('len(self._pending_batches)')) is not None:
        return True
    if match(t, pattern('len(self._pending_batches.keys())')) is not None:
        return True
    m = match(t, pattern('len(self._a)'))
    if t[0] == 'call' and len(t[2]) == 1 and t[2][0][0] == 'attr' and t[2][0][1] == ('param', 'self'):
        prop = bh.lookup(t[2][0][2])
        if prop is not None and prop.is_property:
            rr = returns(prop)
            if len(rr) == 1:
                pt = ctx.term(prop, rr[0].value)
                return pt in (pattern_term('self._pending_batches.keys()'),
                              pattern_term('self._pending_batches'))
    return False


# ---------------------------------------------------------------------------

@obligation('C04-c', 'T1 T13', 'pending batches are cancelled before a new round is planned',
            floor=2, necessary='batches proposed for the old round would be consumed by the '
                               'new one')
def c04_c(ctx):
    smc = ctx.cls(SAMPLERS + ':SMC')
    bh = ctx.cls(BH)
    cancel = ctx.own_method(bh, 'cancel_pending')
    updates = smc.overrides('update')
    if not updates:
        raise AnchorMissing('no SMC.update')
    for up in updates:
        inits = ctx.calls(up, 'self._init_new_round()')
        cancels = ctx.calls(up, resolved_to=cancel)
        if not inits:
            ctx.ok(up, 'no re-plan here', 'update does not start a new round', fn=up,
                   node=up.node)
            continue
        for i in inits:
            ctx.check(bool(cancels) and ctx.must_precede(up, cancels, i), up,
                      'cancel before new round',
                      'batches.cancel_pending() on every path to _init_new_round()',
                      '_init_new_round() is reachable without cancelling the pending batches '
                      'first', fn=up, node=i, anchors=cancels)
        # siblings agree on the skeleton
        sup = ctx.calls(up, 'super(*_).update(batch, batch_index)')
        inner = ctx.calls(up, 'self._rejection.update(batch, batch_index)')
        uo = ctx.calls(up, 'self._update_objective()')
        cfg = cfg_of(up)
        ok1 = len(sup) == 1 and cfg.must_pass([ctx.node(up, sup[0])])
        ok2 = len(inner) == 1 and cfg.must_pass([ctx.node(up, inner[0])])
        ok3 = bool(uo) and all(cfg.must_follow(ctx.node(up, i), [ctx.node(up, u) for u in uo])
                               for i in inits)
        ctx.check(ok1, up, 'base update once', 'super().update(batch, batch_index) once on every path',
                  'the base update (counters) is not called exactly once with (batch, '
                  'batch_index)', fn=up, node=sup[0] if sup else up.node)
        ctx.check(ok2, up, 'inner update once',
                  '_rejection.update(batch, batch_index) once on every path',
                  'the inner rejection round is not updated exactly once with (batch, '
                  'batch_index)', fn=up, node=inner[0] if inner else up.node)
        ctx.check(ok3, up, 'objective refreshed last',
                  '_update_objective() after a new round is planned',
                  '_update_objective() does not follow _init_new_round() on every path', fn=up,
                  node=uo[0] if uo else up.node)
        # the round is advanced and the population stored before the new round is planned
        for i in inits:
            rounds = [s for (s, t, k) in ctx.stores(up, "self.state['round']")]
            okr = bool(rounds) and ctx.must_precede(up, rounds, i)
            ctx.check(okr, up, 'round advanced before planning',
                      "state['round'] advanced before _init_new_round()",
                      "_init_new_round() runs before state['round'] is advanced", fn=up, node=i)


# ---------------------------------------------------------------------------

@obligation('C04-d', 'T1 T2 T13', 'no submitted task is left behind; ids leave the pending map '
            'only through wait_next / cancel_pending', floor=8,
            necessary='a leaked id keeps a task (and its result) in the client for ever')
def c04_d(ctx):
    pi = ctx.cls(PI)
    bh = ctx.cls(BH)
    cancel = ctx.own_method(bh, 'cancel_pending')
    for inf in pi.overrides('infer'):
        cs = ctx.calls(inf, resolved_to=cancel)
        sup = ctx.calls(inf, 'super(*_).infer(*_)')
        if sup and not cs:
            cfg = cfg_of(inf)
            ok = all(True for _ in sup) and cfg.must_pass([ctx.node(inf, s) for s in sup])
            ctx.check(ok, inf, 'delegates to base infer', 'returns through super().infer()',
                      'a path returns without running the base infer', fn=inf, node=sup[0])
            continue
        cfg = cfg_of(inf)
        loops = [n for n in own_nodes(inf.node) if isinstance(n, ast.While)]
        okk = bool(cs) and cfg.must_pass([ctx.node(inf, c) for c in cs]) and \
            all(enclosing_loop(c) is None for c in cs)
        if okk and loops:
            ln = cfg.by_stmt[id(loops[0])]
            okk = cfg.must_follow(ln, [ctx.node(inf, c) for c in cs])
        ctx.check(okk, inf, 'cancel after the loop',
                  'batches.cancel_pending() on every path from the loop to the return',
                  'infer can return without cancelling the pending batches', fn=inf,
                  node=cs[0] if cs else inf.node)
    # who takes ids out of the pending map
    owners = {'wait_next', 'cancel_pending'}
    writers = {'__init__', 'submit'}
    n_remove = 0
    for f in ctx.repo.all_functions():
        for n in own_nodes(f.node):
            if isinstance(n, ast.Attribute) and n.attr == '_pending_batches':
                if f.cls is None or not f.cls.is_subclass_of(bh):
                    ctx.bad(f, 'foreign access to the pending map',
                            '`{}` outside BatchHandler'.format(src(getattr(n, '_parent', n))),
                            fn=f, node=n)
        if f.cls is not None and f.cls.is_subclass_of(bh):
            for (s, t, k) in ctx.stores(f, PENDING):
                removing = k in ('del', 'call:pop', 'call:popitem', 'call:clear') or \
                    (k == 'assign' and f.name != '__init__')
                if removing:
                    n_remove += 1
                    ctx.check(f.name in owners, f, 'removal from pending map',
                              '{} in {}'.format(k, f.name),
                              '{} removes entries from the pending map ({}); only wait_next and '
                              'cancel_pending may'.format(f.name, src(t)), fn=f, node=s)
            for (s, t, k) in ctx.stores(f, PENDING + '[_]'):
                if k in ('del',):
                    n_remove += 1
                    ctx.check(f.name in owners, f, 'removal from pending map',
                              'del in ' + f.name,
                              '{} deletes entries of the pending map'.format(f.name), fn=f,
                              node=s)
    if n_remove < 2:
        ctx.undecided('expected removals in wait_next and cancel_pending, found {}'.format(
            n_remove))
    # popped id -> get_result ; cancelled id -> remove_task
    wn = ctx.own_method(bh, 'wait_next')
    gr = ctx.calls(wn, name='get_result')
    ok = False
    for c in gr:
        if c.args:
            a = ctx.term(wn, c.args[0])
            if contains(a, 'self._pending_batches.popitem(*_)') or \
                    contains(a, 'self._pending_batches.pop(*_)') or \
                    contains(a, 'self._pending_batches[_]'):
                ok = True
    ctx.check(ok and len(gr) == 1, wn, 'popped id is fetched',
              'client.get_result(<id taken from the pending map>) once',
              'the id taken from the pending map is not the one passed to client.get_result',
              fn=wn, node=gr[0] if gr else wn.node)
    cp = cancel
    rt = ctx.calls(cp, name='remove_task')
    ok = False
    for c in rt:
        if c.args:
            a = ctx.term(cp, c.args[0])
            if a[0] == 'item' and a[2] == 1 and contains(a, 'self._pending_batches.items()'):
                ok = True
            if a[0] == 'elem' and contains(a, 'self._pending_batches.values()'):
                ok = True
            if contains(a, 'self._pending_batches.pop(*_)') or \
                    contains(a, 'self._pending_batches[_]'):
                ok = True
    ctx.check(ok, cp, 'cancelled id is released',
              'client.remove_task(<id of the cancelled entry>)',
              'cancel_pending does not pass the cancelled entry\'s id to client.remove_task',
              fn=cp, node=rt[0] if rt else cp.node)
    # every entry that leaves the map is released: the release is unconditional
    pops = [s for (s, t, k) in ctx.stores(cp, PENDING) if k in ('call:pop', 'call:popitem',
                                                               'call:clear')] + \
           [s for (s, t, k) in ctx.stores(cp, PENDING + '[_]') if k == 'del']
    for s in pops:
        lo = enclosing_loop(s)
        hdr = cfg_of(cp).by_stmt[id(lo)] if lo is not None else cfg_of(cp).entry
        cfgc = cfg_of(cp)
        sn = ctx.node(cp, s)
        rtn = [ctx.node(cp, c) for c in rt]
        # within one iteration: no path header -> pop that avoids every remove_task
        reach = cfgc.reachable(hdr, avoiding=[n for n in rtn if n is not sn])
        unconditional = bool(rt) and (id(sn) not in reach or any(n is sn for n in rtn))
        ctx.check(unconditional, cp, 'release is unconditional',
                  'every popped entry passes client.remove_task',
                  'an entry can be taken out of the pending map without its task being removed '
                  'from the client (remove_task is conditional)', fn=cp, node=s)
    # all pending entries are visited
    fors = [n for n in own_nodes(cp.node) if isinstance(n, ast.For)]
    ok = False
    for fo in fors:
        it = ctx.term(cp, fo.iter, cfg_of(cp).by_stmt[id(fo)])
        if contains(it, 'self._pending_batches.items()') or it == pattern_term(PENDING) or \
                contains(it, 'self._pending_batches.keys()') or contains(it, 'list(' + PENDING + ')'):
            if any(cfg_of(cp).node_of(c) is not None and _inside(c, fo) for c in rt):
                ok = True
    ctx.check(ok, cp, 'every pending entry is cancelled',
              'loop over all pending entries releases each',
              'cancel_pending does not iterate over all pending entries', fn=cp,
              node=fors[0] if fors else cp.node)
    # clients: get_result / remove_task drop the id from self.tasks
    cb = ctx.cls('elfi.client:ClientBase')
    n_clients = 0
    for c in cb.all_subclasses():
        for mname in ('get_result', 'remove_task'):
            m = c.methods.get(mname)
            if m is None:
                continue
            rem = [(s, t, k) for (s, t, k) in ctx.stores(m, 'self.tasks')
                   if k in ('call:pop',)] + \
                  [(s, t, k) for (s, t, k) in ctx.stores(m, 'self.tasks[_]') if k == 'del']
            arg_ok = False
            for (s, t, k) in rem:
                key = t.args[0] if k == 'call:pop' and t.args else (
                    t.slice if isinstance(t, ast.Subscript) else None)
                if key is not None and ctx.term(m, key) == ('param', m.params[1]):
                    arg_ok = True
            ctx.check(arg_ok, m, 'task id released',
                      '{} removes task_id from self.tasks'.format(mname),
                      '{} leaves task_id in self.tasks'.format(mname), fn=m,
                      node=rem[0][0] if rem else m.node)
        n_clients += 1
    if n_clients < 3:
        ctx.undecided('expected at least 3 client implementations, found {}'.format(n_clients))


def _inside(node, anc):
    n = node
    while n is not None:
        if n is anc:
            return True
        n = getattr(n, '_parent', None)
    return False


# ---------------------------------------------------------------------------

@obligation('C04-e', 'T3 T1', 'cancelling rewinds the next index to the oldest cancelled batch',
            floor=3, necessary='otherwise indices of cancelled batches are skipped and the '
                               'consumed index sequence depends on how many were in flight')
def c04_e(ctx):
    bh = ctx.cls(BH)
    cp = ctx.own_method(bh, 'cancel_pending')
    fors = [n for n in own_nodes(cp.node) if isinstance(n, ast.For)]
    if not fors:
        raise AnchorMissing('cancel_pending has no loop')
    fo = fors[0]
    it = ctx.term(cp, fo.iter, cfg_of(cp).by_stmt[id(fo)])
    newest_first = match(it, pattern('reversed(list(self._pending_batches.items()))')) is not None \
        or match(it, pattern('reversed(self._pending_batches.items())')) is not None \
        or match(it, pattern('list(self._pending_batches.items())[::-1]')) is not None \
        or match(it, pattern('reversed(list(self._pending_batches))')) is not None \
        or match(it, pattern('reversed(self._pending_batches)')) is not None
    ctx.check(newest_first, cp, 'newest first', 'iterates ' + show(it),
              'pending entries are not walked newest-first ({}) so the last assignment is not '
              'the oldest cancelled index'.format(show(it)), fn=cp, node=fo)
    rew = [(s, t, k) for (s, t, k) in ctx.stores(cp, 'self._next_batch_index')
           if _inside(s, fo)]
    ok = False
    for (s, t, k) in rew:
        if isinstance(s, ast.Assign):
            v = ctx.term(cp, s.value)
            if v[0] in ('item', 'elem') and contains(v, 'self._pending_batches'):
                if v[0] == 'elem' or v[2] == 0:
                    ok = True
    ctx.check(ok, cp, 'rewind', '_next_batch_index = <cancelled batch index> in the loop',
              'the next index is not set to the cancelled batch index', fn=cp,
              node=rew[0][0] if rew else fo)
    # reset: cancel then zero
    rs = ctx.own_method(bh, 'reset')
    cs = ctx.calls(rs, resolved_to=cp)
    z = [s for (s, t, k) in ctx.stores(rs, 'self._next_batch_index')
         if isinstance(s, ast.Assign) and ctx.term(rs, s.value) == ('const', 0)]
    ok = bool(cs) and bool(z) and cfg_of(rs).must_pass([ctx.node(rs, c) for c in cs]) and \
        all(ctx.must_follow(rs, c, z) for c in cs)
    ctx.check(ok, rs, 'reset', 'cancel_pending() then _next_batch_index = 0',
              'reset does not cancel and then restart from index 0', fn=rs, node=rs.node)


# ---------------------------------------------------------------------------

def _sampler_classes(ctx):
    pi = ctx.cls(PI)
    out = [pi]
    for c in pi.all_subclasses():
        if c.module.name in (SAMPLERS, 'elfi.methods.inference.parameter_inference'):
            out.append(c)
    return out


@obligation('C04-f', 'T3', 'state and objective are functions of consumed batches only', floor=8,
            necessary='a state that reads readiness or in-flight counts differs between '
                      'schedules')
def c04_f(ctx):
    classes = _sampler_classes(ctx)
    writers = []
    for c in classes:
        if c.name in ('ModelBased',):
            continue
        for m in c.methods.values():
            if m.name in (alias('_allow_submit'), alias('_has_batches_to_submit'), 'iterate', 'infer',
                          '__init__'):
                continue
            if ctx.stores(m, 'self.state') or ctx.stores(m, 'self.state[_]') or \
                    ctx.stores(m, 'self.objective') or ctx.stores(m, 'self.objective[_]') or \
                    ctx.stores(m, "self.state['samples'][_]") or m.name in ('update', 'finished'):
                writers.append(m)
    if len(writers) < 8:
        ctx.undecided('expected >= 8 state-writing sampler methods, found {}'.format(len(writers)))
    closure = []
    for w in writers:
        for f in ctx.reachable(w, depth=3, may=False):
            mod = f.module.name
            if mod not in (SAMPLERS, 'elfi.methods.inference.parameter_inference'):
                continue
            if f.name in (alias('_allow_submit'), alias('_has_batches_to_submit'), 'iterate', 'infer'):
                continue
            if f not in closure:
                closure.append(f)
    for f in closure:
        reads = []
        for n in own_nodes(f.node):
            if isinstance(n, ast.Attribute) and n.attr in SCHEDULE_ATTRS:
                base = ctx.term(f, n.value)
                if base[0] == 'attr' and base[2] in ('batches', 'client'):
                    reads.append(n)
        ctx.check(not reads, f, 'schedule-blind',
                  'reads no readiness / in-flight information',
                  'reads `{}` while computing state or objective'.format(
                      src(reads[0]) if reads else ''), fn=f, node=reads[0] if reads else f.node)
    # max_parallel_batches: initial estimate in set_objective only (benign, DESIGN C04-f)
    for f in closure:
        uses = [n for n in own_nodes(f.node)
                if isinstance(n, ast.Attribute) and n.attr == 'max_parallel_batches']
        if not uses:
            continue
        # initial estimate in the public set_objective, or handed on as a constructor keyword
        ok = f.name == 'set_objective' or all(
            isinstance(getattr(u, '_parent', None), ast.keyword) and
            u._parent.arg == 'max_parallel_batches' for u in uses)
        ctx.check(ok, f, 'max_parallel_batches use',
                  'max_parallel_batches only as initial estimate / constructor argument',
                  '{} reads max_parallel_batches while updating state or objective'.format(
                      f.name), fn=f, node=uses[0])


# ---------------------------------------------------------------------------

@obligation('C04-g', 'T2 T3', 'proposals are drawn in batch-index order from the round generator',
            floor=4, necessary='draws made out of index order differ between schedules')
def c04_g(ctx):
    pi = ctx.cls(PI)
    it = ctx.own_method(pi, 'iterate')
    preps = pi.overrides('prepare_new_batch')
    callers = []
    for p in preps:
        for (f, n) in ctx.cg.callers_of(p):
            if (f, n) not in callers:
                callers.append((f, n))
    if not callers:
        raise AnchorMissing('prepare_new_batch is never called')
    for (f, n) in callers:
        is_iter = f.name == 'iterate' and f.cls is not None and f.cls.is_subclass_of(pi)
        if not is_iter:
            ctx.bad(f, 'prepare_new_batch caller',
                    'prepare_new_batch of an inference method is called from {} (only iterate '
                    'may, right before submit)'.format(f.qname), fn=f, node=n)
            continue
        arg = ctx.term(f, n.args[0]) if n.args else None
        ok_arg = arg == pattern_term('self.batches.next_index')
        ctx.check(ok_arg, f, 'prepared for the next index',
                  'prepare_new_batch(self.batches.next_index)',
                  'prepare_new_batch is not called with batches.next_index', fn=f, node=n)
        subs = [c for c in ctx.calls(f, name='submit')]
        flows = False
        for c in subs:
            if c.args and contains(ctx.term(f, c.args[0]), 'self.prepare_new_batch(*_)') and \
                    enclosing_loop(c) is enclosing_loop(n) and ctx.must_precede(f, [n], c):
                flows = True
        ctx.check(flows, f, 'prepared batch is the submitted one',
                  'the value returned by prepare_new_batch is submitted in the same iteration',
                  'the prepared batch does not flow into submit in the same loop iteration',
                  fn=f, node=n)
    # SMC proposals use the round generator, which is rebound only when a round starts
    smc = ctx.cls(SAMPLERS + ':SMC')
    for p in smc.overrides('prepare_new_batch'):
        draws = [(p, d) for d in ctx.calls(p, 'GMDistribution.rvs(*_)')]
        if not draws:
            # the draw may live in a helper method called from prepare_new_batch
            for c in ctx.calls(p):
                for t in ctx.cg.resolve(p, c):
                    if t.cls is not None and t is not p:
                        draws += [(t, d) for d in ctx.calls(t, 'GMDistribution.rvs(*_)')]
        if not draws:
            ctx.undecided('SMC.prepare_new_batch does not draw from GMDistribution.rvs')
        for (q, d) in draws:
            kws = dict((k.arg, k.value) for k in d.keywords)
            ok = 'random_state' in kws and \
                ctx.term(q, kws['random_state']) == pattern_term('self._round_random_state')
            ctx.check(ok, q, 'round generator', 'random_state=self._round_random_state',
                      'proposals are not drawn from the round generator', fn=q, node=d)
            oks = 'size' in kws and ctx.term(q, kws['size']) == pattern_term('self.batch_size')
            ctx.check(oks, q, 'one draw per batch, of the batch size', 'size=self.batch_size',
                      'the proposals of a batch are not one draw of exactly batch_size points '
                      '(`{}`): the stream the round generator produces for batch i then depends '
                      'on more than (round, i)'.format(src(d)[:70]), fn=q, node=d)
    binders = []
    for c in [smc] + smc.all_subclasses():
        for m in c.methods.values():
            for (s, t, k) in ctx.stores(m, 'self._round_random_state'):
                v = ctx.term(m, s.value) if hasattr(s, 'value') else None
                if v == ('const', None):
                    continue
                binders.append((m, s, v))
    if not binders:
        raise AnchorMissing('_round_random_state is never bound')
    for (m, s, v) in binders:
        ok = match(v, pattern('np.random.RandomState(_a)')) is not None and \
            any(contains(v, p) for p in ('get_sub_seed(self.seed, _)', 'self.seed'))
        in_round_start = bool(ctx.cg.callers_of(m)) and all(
            f.name in (alias('_init_new_round'), alias('_set_rejection_round'))
            for (f, n) in ctx.cg.callers_of(m))
        ctx.check(ok and in_round_start, m, 'round generator seeded per round',
                  'RandomState(seed or get_sub_seed(seed, round)), bound when a round starts',
                  '_round_random_state is rebound from {} outside the start of a round'.format(
                      show(v)[:120]), fn=m, node=s)


# ---------------------------------------------------------------------------

@obligation('C04-i', 'T1 T3', 'each consumed batch updates the state exactly once', floor=4,
            necessary='a skipped or doubled update changes n_sim and the sample')
def c04_i(ctx):
    pi = ctx.cls(PI)
    bh = ctx.cls(BH)
    for it in pi.overrides('iterate'):
        cfg = cfg_of(it)
        waits = ctx.calls(it, resolved_to=ctx.own_method(bh, 'wait_next'))
        ups = ctx.calls(it, 'self.update(*_)')
        ok = len(waits) == 1 and enclosing_loop(waits[0]) is None and \
            cfg.must_pass([ctx.node(it, waits[0])])
        ctx.check(ok, it, 'one batch consumed per iteration',
                  'wait_next() exactly once per iterate, outside any loop',
                  'iterate does not consume exactly one batch', fn=it,
                  node=waits[0] if waits else it.node)
        ok = len(ups) == 1 and enclosing_loop(ups[0]) is None and bool(waits) and \
            cfg.must_pass([ctx.node(it, ups[0])]) and ctx.must_precede(it, waits, ups[0])
        if ok:
            a = [ctx.term(it, x) for x in ups[0].args]
            ok = len(a) == 2 and a[0][0] == 'item' and a[0][2] == 0 and a[1][0] == 'item' and \
                a[1][2] == 1 and a[0][1] == a[1][1] and \
                contains(a[0][1], 'self.batches.wait_next()')
        ctx.check(ok, it, 'update with the consumed pair',
                  'self.update(batch, batch_index) once with the pair returned by wait_next',
                  'the pair returned by wait_next does not flow into exactly one update call',
                  fn=it, node=ups[0] if ups else it.node)
    # wait_next returns the pair it consumed
    wn = ctx.own_method(bh, 'wait_next')
    rr = returns(wn)
    ok = len(rr) == 1
    if ok:
        t = ctx.term(wn, rr[0].value)
        ok = t[0] == 'tuple' and len(t[1]) == 2 and contains(t[1][0], 'self.client.get_result(_)') \
            and t[1][1][0] == 'item' and t[1][1][2] == 0 and \
            contains(t[1][1], 'self._pending_batches.popitem(*_)')
    ctx.check(ok, wn, 'returns (result, its index)',
              '(client.get_result(id), index) of the popped entry',
              'wait_next does not return the fetched result together with the popped index',
              fn=wn, node=rr[0] if rr else wn.node)
    # base update counts
    up = ctx.own_method(pi, 'update')
    nb = [s for (s, t, k) in ctx.stores(up, "self.state['n_batches']")]
    ns = [s for (s, t, k) in ctx.stores(up, "self.state['n_sim']")]
    ok = len(nb) == 1 and isinstance(nb[0], ast.AugAssign) and isinstance(nb[0].op, ast.Add) and \
        ctx.term(up, nb[0].value) == ('const', 1) and cfg_of(up).must_pass([ctx.node(up, nb[0])])
    ctx.check(ok, up, 'n_batches += 1', "state['n_batches'] += 1 on every path",
              "state['n_batches'] is not increased by exactly one per update", fn=up,
              node=nb[0] if nb else up.node)
    ok = len(ns) == 1 and isinstance(ns[0], ast.AugAssign) and isinstance(ns[0].op, ast.Add) and \
        ctx.term(up, ns[0].value) in (pattern_term('self.batch_size'),) and \
        cfg_of(up).must_pass([ctx.node(up, ns[0])])
    ctx.check(ok, up, 'n_sim += batch_size', "state['n_sim'] += batch_size on every path",
              "state['n_sim'] is not increased by batch_size per update", fn=up,
              node=ns[0] if ns else up.node)
    # client task ids come from a monotone counter
    cb = ctx.cls('elfi.client:ClientBase')
    for c in cb.all_subclasses():
        ap = c.methods.get('apply')
        if ap is None:
            continue
        rr = returns(ap)
        ok = False
        if len(rr) == 1:
            t = ctx.term(ap, rr[0].value)
            m = match(t, pattern('_a.__next__()')) or match(t, pattern('next(_a)'))
            if m is not None and m['a'][0] == 'attr' and m['a'][1] == ('param', 'self'):
                fld = m['a'][2]
                init = c.lookup('__init__')
                if init is not None:
                    for (s, tg, k) in ctx.stores(init, 'self.' + fld):
                        if isinstance(s, ast.Assign) and match(
                                ctx.term(init, s.value), pattern('itertools.count()')) is not None:
                            ok = True
            # the task is stored under the same id
            st = [(s, tg, k) for (s, tg, k) in ctx.stores(ap, 'self.tasks[_]') if k == 'assign']
            ok = ok and len(st) == 1 and ctx.term(ap, st[0][1].slice) == t
        ctx.check(ok, ap, 'fresh task id', 'id from itertools.count(), task stored under it',
                  'task ids are not taken from a monotone counter and stored under that id',
                  fn=ap, node=rr[0] if rr else ap.node)


# With a threshold objective the number of batches is first set to max_parallel_batches and then
# re-estimated from the accept rate after every batch; if that re-estimation can be skipped the
# simulation count depends on max_parallel_batches.  Same obligation as C01-f.
@obligation('C04-j', 'T5 T6', 'a threshold objective is re-estimated after every batch whatever '
            'the threshold value, so the initial max_parallel_batches estimate never decides the '
            'result (shared with C01-f)', floor=6,
            necessary='a run that stops on the initial estimate returns n_sim proportional to '
                      'max_parallel_batches')
def c04_j(ctx):
    from . import C01 as _C01     # imported late: C01 imports helpers from this module
    return _C01.c01_f(ctx)



@obligation('C04-k', 'T6 T11', 'threshold 0 and batch index 0 are never tested by truth value', floor=2,
            necessary='a falsy test treats batch 0 / threshold 0 as missing: which batches are consumed then depends on the schedule')
def c04_k(ctx):
    from .base import zero_is_valid_obligation
    zero_is_valid_obligation(ctx, ['batch_index', 'threshold'])


SCHEDULE_COUNTERS = ('submission_index', 'num_submissions')
# where these may appear: the counter itself (initialised, incremented) and the meta record that
# hands it to user operations for *naming* things (file names in examples/bdm.py)
_COUNTER_SITES = {
    ('elfi.model.elfi_model:ComputationContext.__init__', 'num_submissions'): 'initialised to 0',
    ('elfi.client:BatchHandler.submit', 'num_submissions'): 'incremented per submission',
    ('elfi.loader:AdditionalNodesLoader.load', 'num_submissions'): 'copied into the meta record',
    ('elfi.loader:AdditionalNodesLoader.load', 'submission_index'): 'key of the meta record',
}


def schedule_counter_sweep(ctx):
    """Every mention of the submission counter in the package (outside examples).  The counter
    also counts speculative batches that are cancelled later, so its value depends on the
    completion order: it may be handed to user code as meta information, never used to compute
    anything the library returns or seeds."""
    n = 0
    for m in ctx.repo.modules.values():
        if not m.name.startswith('elfi') or m.name.startswith('elfi.examples'):
            continue
        for f in m.all_functions:
            fnode = getattr(f, 'node', None)
            if fnode is None or isinstance(fnode, ast.Lambda):
                continue
            for x in own_nodes(fnode):
                name = None
                if isinstance(x, ast.Attribute) and x.attr in SCHEDULE_COUNTERS:
                    name = x.attr
                elif isinstance(x, ast.Constant) and x.value in SCHEDULE_COUNTERS:
                    name = x.value
                elif isinstance(x, ast.keyword) and x.arg in SCHEDULE_COUNTERS:
                    name = x.arg
                if name is None:
                    continue
                n += 1
                why = _COUNTER_SITES.get((f.qname, name))
                ctx.check(why is not None, f, 'use of the schedule-dependent counter `{}`'
                          .format(name), why or '',
                          '`{}` is read in {}: the counter also counts submissions that were '
                          'cancelled, so whatever is computed from it depends on the order in '
                          'which workers finished'.format(name, f.qname.split(':')[-1]), fn=f,
                          node=x if hasattr(x, 'lineno') else fnode)
    return n


@obligation('C04-l', 'T10 T2', 'the submission counter (which also counts cancelled speculative '
            'batches) is only maintained and handed on as meta information; nothing is computed '
            'from it', floor=4,
            necessary='a seed or value derived from the number of submissions differs between a '
                      'schedule that cancelled batches and one that did not')
def c04_l(ctx):
    n = schedule_counter_sweep(ctx)
    if n < 4:
        ctx.undecided('expected the four known sites of the submission counter, found {}'
                      .format(n))


def parallelism_sweep(ctx):
    """Every read of `.max_parallel_batches` in elfi.methods / elfi.client*, classified by the
    role of the read.  The number of batches in flight is a property of the client (it defaults
    to the number of cores): it may gate submissions and seed the *initial* batch-count estimate
    of an objective, nothing the sampler returns may be computed from it."""
    n = 0
    for m in ctx.repo.modules.values():
        if not m.name.startswith('elfi') or m.name.startswith('elfi.examples'):
            continue
        for f in m.all_functions:
            fnode = getattr(f, 'node', None)
            if fnode is None or isinstance(fnode, ast.Lambda):
                continue
            for x in own_nodes(fnode):
                if not (isinstance(x, ast.Attribute) and isinstance(x.ctx, ast.Load) and
                        x.attr in ('max_parallel_batches', 'num_cores')):
                    continue
                n += 1
                role = _parallelism_role(x, fnode)
                if role is None and x.attr == 'num_cores':
                    p_ = getattr(x, '_parent', None)
                    st_ = _stmt_up(x)
                    if _only_sink(x, fnode, lambda n_: isinstance(
                            getattr(n_, '_parent', None), ast.Return)):
                        role = 'accessor of the client\'s number of cores'
                    elif isinstance(p_, ast.BoolOp) and isinstance(p_.op, ast.Or) and \
                            p_.values[-1] is x and isinstance(st_, ast.Assign) and \
                            len(st_.targets) == 1 and \
                            isinstance(st_.targets[0], ast.Attribute) and \
                            st_.targets[0].attr == 'max_parallel_batches':
                        role = 'default of max_parallel_batches'
                ctx.check(role is not None, f, 'use of ' + x.attr, role or '',
                          '`{}` in {} computes with the number of batches in flight: what the '
                          'sampler draws or returns then depends on max_parallel_batches (which '
                          'defaults to the client\'s number of cores)'.format(
                              src(_stmt_up(x))[:70], f.qname.split(':')[-1]), fn=f, node=x)
    return n


def _stmt_up(n):
    while n is not None and not isinstance(n, ast.stmt):
        n = getattr(n, '_parent', None)
    return n


def _is_key_value(node, key):
    """node is the value of keyword / dict key `key`."""
    p = getattr(node, '_parent', None)
    if isinstance(p, ast.keyword) and p.arg == key and p.value is node:
        return True
    if isinstance(p, ast.Dict):
        for k, v in zip(p.keys, p.values):
            if v is node and isinstance(k, ast.Constant) and k.value == key:
                return True
    return False


def _only_sink(node, fnode, sink):
    """node itself satisfies `sink`, or it is bound to a local whose every read does."""
    if sink(node):
        return True
    p = getattr(node, '_parent', None)
    if isinstance(p, ast.Assign) and len(p.targets) == 1 and isinstance(p.targets[0], ast.Name) \
            and p.value is node:
        name = p.targets[0].id
        loads = [n_ for n_ in ast.walk(fnode) if isinstance(n_, ast.Name) and n_.id == name and
                 isinstance(n_.ctx, ast.Load)]
        return bool(loads) and all(sink(l) for l in loads)
    return False



def _parallelism_role(x, fnode):
    p = getattr(x, '_parent', None)
    # handed on under its own name / as the initial batch-count estimate of an objective
    if _is_key_value(x, 'max_parallel_batches'):
        return 'handed on as `max_parallel_batches`'
    if _only_sink(x, fnode, lambda n_: _is_key_value(n_, 'n_batches')):
        return 'initial batch-count estimate of the objective'
    # the submission gate: compared with the number of pending batches
    if isinstance(p, ast.Compare):
        others = [e for e in [p.left] + list(p.comparators) if e is not x]
        if any(isinstance(s, ast.Attribute) and s.attr in ('num_pending',)
               for o in others for s in ast.walk(o)):
            return 'submission gate (compared with the number of pending batches)'
        if all(isinstance(o, ast.Constant) for o in others):
            return 'validation against a constant'
    # message formatting
    q = p
    while q is not None and not isinstance(q, ast.stmt):
        if isinstance(q, ast.Call) and isinstance(q.func, ast.Attribute) and q.func.attr == 'format':
            return 'message text'
        q = getattr(q, '_parent', None)
    # default of the batches-per-acquisition option (configuration of BO, fixed before the run)
    if isinstance(p, ast.BoolOp) and isinstance(p.op, ast.Or) and p.values[-1] is x:
        st = _stmt_up(x)
        if isinstance(st, ast.Assign) and len(st.targets) == 1 and \
                isinstance(st.targets[0], ast.Attribute) and \
                st.targets[0].attr == 'batches_per_acquisition':
            return 'default of batches_per_acquisition'
    return None


@obligation('C04-m', 'T10 T2', 'nothing is computed from max_parallel_batches: it is validated, handed '
            'on, compared with the number of pending batches and used as the initial '
            'batch-count estimate of an objective - nothing else', floor=5,
            necessary='the results must be identical whatever max_parallel_batches is (it defaults '
                      'to the number of cores of the client): a draw whose size, or a value that, '
                      'is computed from it differs between clients')
def c04_m(ctx):
    n = parallelism_sweep(ctx)
    if n < 5:
        ctx.undecided('expected at least 5 reads of max_parallel_batches, found {}'.format(n))


@obligation('C04-n', 'T8', 'the predicates the submission gate reads mean what their names say: '
            'has_pending = (number of pending batches > 0), counted over the pending map (shared '
            'with C11-n)', floor=3,
            necessary='the gate compares max_parallel_batches with num_pending: a count that is '
                      'off by one, or a flipped has_pending, lets one batch too many (or none) '
                      'be outstanding')
def c04_n(ctx):
    from . import C11
    C11.c11_n(ctx)
