"""C08 - the joint model prior is the product of the conditional prior densities.

Decided: pdf<->mul / logpdf<->add pairing, argument order of the density nodes, net/node
family pairing, column order, agreement of the product domain with the override domain,
override sites dropping the operation.  Not decided: numerics, shapes, gradient = derivative.
"""

import ast

from .. import AnalysisError, AnchorMissing
from ..cfg import cfg_of
from ..model import own_nodes
from ..values import pattern, match, match_any, find, contains, show, subterms
from .base import obligation, src, callee_name, if_branches, split_if
from .C04 import pattern_term, returns, enclosing_loop, _inside
from .C03 import _output_store_sites

MP = 'elfi.model.extensions:ModelPrior'
AUG = 'elfi.model.augmenter'


@obligation('C08-a', 'T8', 'densities are multiplied, log densities are added', floor=3,
            necessary='adding densities or multiplying log densities is not the joint density')
def c08_a(ctx):
    ap = ctx.fn(AUG + ':add_pdf_nodes')
    ex = ctx.ex(ap)
    # the attribute selected by `log`
    attr = None
    for n in own_nodes(ap.node):
        if isinstance(n, ast.Assign):
            t = ex.term(n.value)
            m = match_any(t, ("'pdf' if log is False else 'logpdf'",
                              "'logpdf' if log else 'pdf'", "'pdf' if not log else 'logpdf'"))
            if m is not None:
                attr = n
    ctx.check(attr is not None, ap, 'density attribute selected by log',
              "'pdf' when log is false, 'logpdf' otherwise",
              'the density attribute is not (pdf | logpdf) selected by `log`', fn=ap,
              node=attr or ap.node)
    reds = ctx.calls(ap, 'add_reduce_node(*_)')
    pairs = {}
    for c in reds:
        if len(c.args) < 3:
            continue
        op = ex.term(c.args[2])
        pol = None
        for (t, p, _) in ctx.guards(ap, c):
            if t == ('param', 'log'):
                pol = p
            elif match(t, pattern('log is False')) is not None or \
                    match(t, pattern('not log')) is not None:
                pol = not p
        if pol is not None and op[0] == 'global':
            pairs[pol] = op[1].split('.')[-1]
    ctx.check(pairs == {True: 'add', False: 'mul'}, ap, 'reducer selected by log',
              'log -> operator.add, otherwise operator.mul',
              'reducers are paired as {} (expected log: add, not log: mul)'.format(pairs), fn=ap,
              node=reds[0] if reds else ap.node)
    # the reduced nodes are the density nodes just created, for the requested names
    dn = ctx.calls(ap, '_add_distribution_nodes(*_)')
    ok = bool(dn) and all(
        len(c.args) >= 3 and match(ex.term(c.args[1]),
                                   pattern('nodes or model.parameter_names')) is not None
        for c in dn) and all(contains(ex.term(c.args[1]), '_add_distribution_nodes(*_)')
                             for c in reds)
    ctx.check(ok, ap, 'reduced nodes', 'reduce over the density nodes of `nodes or parameters`',
              'the joint node does not reduce the density nodes of the requested parameters',
              fn=ap, node=dn[0] if dn else ap.node)
    ar = ctx.fn(AUG + ':add_reduce_node')
    exr = ctx.ex(ar)
    ops = ctx.calls(ar, 'Operation(*_)')
    ok = False
    for c in ops:
        if c.args and match(exr.term(c.args[0]),
                            pattern('compose(partial(reduce, reduce_operation), args_to_tuple)')) \
                is not None and any(isinstance(a, ast.Starred) for a in c.args[1:]):
            ok = True
    ctx.check(ok, ar, 'reduce over all parents', 'reduce(op, tuple(all parent outputs))',
              'the reduce node does not fold the operation over the tuple of all its parents',
              fn=ar, node=ops[0] if ops else ar.node)


@obligation('C08-b', 'T3', 'a density node evaluates op(own value, *positional parents)', floor=1,
            necessary='parents before the value (or missing parents) evaluate the density of '
                      'the wrong variable')
def c08_b(ctx):
    ad = ctx.fn(AUG + ':_add_distribution_nodes')
    ex = ctx.ex(ad)
    ops = ctx.calls(ad, 'Operation(*_)')
    if not ops:
        raise AnchorMissing('no Operation created in _add_distribution_nodes')
    for c in ops:
        st = [a for a in c.args if isinstance(a, ast.Starred)]
        t = ex.term(st[0].value) if st else None
        m = match(t, pattern('[model[_n]] + model[_n].parents')) if t else None
        ctx.check(m is not None and m['n'][0] == 'elem', ad, 'argument order',
                  '[node] + node.parents',
                  'density node arguments are {} instead of [node] + node.parents'.format(
                      show(t)[:80] if t else None), fn=ad, node=c)
        op = ex.term(c.args[0]) if c.args else None
        m2 = match(op, pattern('getattr(model[_n].distribution, attr)')) if op else None
        ctx.check(m2 is not None, ad, 'density function', 'getattr(node.distribution, attr)',
                  'the operation is {} instead of the node\'s distribution method'.format(
                      show(op)[:80] if op else None), fn=ad, node=c)
        lo = enclosing_loop(c)
        ok = isinstance(lo, ast.For) and ex.term(lo.iter, cfg_of(ad).by_stmt[id(lo)]) == \
            ('param', 'nodes')
        ctx.check(ok, ad, 'one density node per requested name', 'for n in nodes',
                  'density nodes are not created for exactly the requested names', fn=ad, node=c)


@obligation('C08-c', 'T8', 'pdf uses the pdf net and node, logpdf the logpdf net and node',
            floor=4, necessary='a mixed pair reads a node that the loaded net does not compute')
def c08_c(ctx):
    mp = ctx.cls(MP)
    ev = None
    for m in mp.methods.values():
        if 'log' in m.all_params and ctx.calls(m, 'self.client.compute(_)'):
            ev = m
    if ev is None:
        raise AnchorMissing('no evaluation method with a `log` switch in ModelPrior')
    ex = ctx.ex(ev)
    sel = [n for n in own_nodes(ev.node) if isinstance(n, ast.If) and
           if_branches(ex, n, ('log', 'log is True')) is not None]
    if not sel:
        ctx.undecided('no `if log:` selection in ' + ev.qname)

    def fam(stmts):
        out = set()
        for s in stmts:
            if isinstance(s, ast.Assign):
                v = ex.term(s.value)
                if v[0] == 'attr' and v[1] == ('param', 'self'):
                    out.add(v[2])
        return out
    _bt, _bf = if_branches(ex, sel[0], ('log', 'log is True'))
    ft, ff = fam(_bt), fam(_bf)
    ctx.check(ft == {'_logpdf_net', '_logpdf_node'} and ff == {'_pdf_net', '_pdf_node'}, ev,
              'family selection', 'log: (_logpdf_net, _logpdf_node) else (_pdf_net, _pdf_node)',
              'log selects {} and not-log selects {}'.format(sorted(ft), sorted(ff)), fn=ev,
              node=sel[0])
    # loaded net and read node are the selected pair
    ld = ctx.calls(ev, 'self.client.load_data(*_)')
    okn = bool(ld) and ex.term(ld[0].args[0]) == ('phi', tuple(sorted(
        [pattern_term('self._logpdf_net'), pattern_term('self._pdf_net')], key=repr)))
    ctx.check(okn, ev, 'selected net is loaded', 'load_data(net, ...)',
              'the loaded net is not the selected one', fn=ev, node=ld[0] if ld else ev.node)
    rd = [n for n in own_nodes(ev.node) if isinstance(n, ast.Subscript) and
          contains(ex.term(n.value), 'self.client.compute(_)')]
    okd = bool(rd) and ex.term(rd[0].slice) == ('phi', tuple(sorted(
        [pattern_term('self._logpdf_node'), pattern_term('self._pdf_node')], key=repr)))
    ctx.check(okd, ev, 'selected node is read', 'compute(net)[node]',
              'the value read from the computed batch is not the selected node', fn=ev,
              node=rd[0] if rd else ev.node)
    init = ctx.own_method(mp, '__init__')
    exi = ctx.ex(init)
    want = {'_pdf_node': False, '_logpdf_node': True}
    for fld, lg in want.items():
        st = [s for (s, t, k) in ctx.stores(init, 'self.' + fld) if isinstance(s, ast.Assign)]
        ok = False
        if st:
            v = exi.term(st[0].value)
            m = match(v, pattern('augmenter.add_pdf_nodes(_m, log=_l, *_)[0]'))
            if m is None:
                m = match(v, pattern('add_pdf_nodes(_m, log=_l, *_)[0]'))
            ok = m is not None and m['l'] == ('const', lg)
        ctx.check(ok, init, fld + ' built with log=' + str(lg),
                  'add_pdf_nodes(model, log={})[0]'.format(lg),
                  '{} is not built with log={}'.format(fld, lg), fn=init,
                  node=st[0] if st else init.node)
    for net, node in (('_pdf_net', '_pdf_node'), ('_logpdf_net', '_logpdf_node')):
        st = [s for (s, t, k) in ctx.stores(init, 'self.' + net) if isinstance(s, ast.Assign)]
        ok = False
        if st:
            v = exi.term(st[0].value)
            m = match(v, pattern('self.client.compile(_s, outputs=_o)'))
            ok = m is not None and contains(m['o'], 'log={}'.format(node == '_logpdf_node')) \
                if False else (m is not None)
            if ok:
                node_def = [s for (s, t, k) in ctx.stores(init, 'self.' + node)
                            if isinstance(s, ast.Assign)]
                ok = bool(node_def) and m['o'] == pattern_term('self.' + node) and \
                    ctx.must_precede(init, node_def, st[0])
        ctx.check(ok, init, net + ' compiled for ' + node, 'compile(source_net, outputs=' + node +
                  ')', '{} is not compiled for the outputs {}'.format(net, node), fn=init,
                  node=st[0] if st else init.node)
    # public entry points select the right family
    for name, lg in (('pdf', None), ('logpdf', True)):
        m = ctx.own_method(mp, name)
        cs = ctx.calls(m, resolved_to=ev)
        ok = False
        for c in cs:
            kws = dict((k.arg, k.value) for k in c.keywords)
            if lg is None:
                ok = 'log' not in kws and len(c.args) == 1
                dflt = ev.node.args.defaults
                ok = ok and bool(dflt) and isinstance(dflt[-1], ast.Constant) and \
                    dflt[-1].value is False
            else:
                ok = ('log' in kws and isinstance(kws['log'], ast.Constant) and
                      kws['log'].value is True) or \
                    (len(c.args) == 2 and isinstance(c.args[1], ast.Constant) and
                     c.args[1].value is True)
        ctx.check(ok, m, name + '() selects its family', 'log=' + str(bool(lg)),
                  '{}() does not evaluate with log={}'.format(name, bool(lg)), fn=m,
                  node=cs[0] if cs else m.node)


@obligation('C08-d', 'T7', 'column i of the query is parameter_names[i]', floor=3,
            necessary='another order evaluates each density at another parameter\'s value')
def c08_d(ctx):
    mp = ctx.cls(MP)
    NAMES = 'self.parameter_names'
    tb = None
    for m in mp.methods.values():
        rr = returns(m)
        if len(rr) == 1 and rr[0].value is not None:
            t = ctx.term(m, rr[0].value)
            if t[0] == 'comp' and t[1] == 'dict' and \
                    match(t[3][0][0], pattern('enumerate(' + NAMES + ')')) is not None:
                tb = (m, rr[0], t)
    if tb is None:
        raise AnchorMissing('no method maps columns to parameter names')
    m, r, t = tb
    k, v = t[2][1]
    ok = k[0] == 'item' and k[2] == 1 and v[0] == 'sub' and v[2][0] == 'tuple' and \
        v[2][1][1][0] == 'item' and v[2][1][1][2] == 0 and v[2][1][1][1] == k[1] and \
        v[2][1][0] == ('slice', ('const', None), ('const', None), ('const', None))
    ctx.check(ok, m, 'column to name map', '{p: x[:, i] for i, p in enumerate(names)}',
              'columns are mapped as {}'.format(show(t)[:100]), fn=m, node=r)
    rv = ctx.own_method(mp, 'rvs')
    ex = ctx.ex(rv)
    cs = [n for n in own_nodes(rv.node) if isinstance(n, ast.Call) and
          callee_name(n) == 'column_stack']
    ok = False
    for c in cs:
        tt = ex.term(c.args[0]) if c.args else None
        if tt is not None and tt[0] == 'comp' and match(tt[3][0][0], pattern(NAMES)) is not None \
                and tt[2][0] == 'sub' and tt[2][2][0] == 'elem':
            ok = True
    ctx.check(ok, rv, 'draw columns', 'column_stack([batch[p] for p in names])',
              'drawn columns are not stacked in parameter_names order', fn=rv,
              node=cs[0] if cs else rv.node)
    init = ctx.own_method(mp, '__init__')
    st = [s for (s, t2, k2) in ctx.stores(init, 'self.dim') if isinstance(s, ast.Assign)]
    ok = bool(st) and match(ctx.term(init, st[0].value), pattern('len(' + NAMES + ')')) is not None
    ctx.check(ok, init, 'dimension', 'dim = len(parameter_names)',
              'dim is not the number of requested parameters', fn=init,
              node=st[0] if st else init.node)
    # requested names are validated against the model
    ok = any(any(pol and match(t2, pattern('_p not in model.copy().parameter_names')) is not None
                 or pol and contains(t2, '_ not in _.parameter_names')
                 for (t2, pol, _) in ctx.guards(init, r2)) for r2 in ctx.stmts(init, ast.Raise))
    ctx.check(ok, init, 'unknown names refused', 'raises for names that are not parameters',
              'a requested name that is not a model parameter is accepted', fn=init,
              node=init.node)


@obligation('C08-e', 'T8', 'the densities multiplied are those of the overridden parameters',
            floor=3, necessary='a factor whose node is not overridden is evaluated at a random '
                               'draw: the density differs between calls')
def c08_e(ctx):
    mp = ctx.cls(MP)
    init = ctx.own_method(mp, '__init__')
    ex = ctx.ex(init)
    NAMES = pattern_term('self.parameter_names')
    calls = [n for n in own_nodes(init.node) if isinstance(n, ast.Call) and
             callee_name(n) == 'add_pdf_nodes']
    if len(calls) < 2:
        ctx.undecided('expected two add_pdf_nodes calls, found {}'.format(len(calls)))
    ap = ctx.fn(AUG + ':add_pdf_nodes')
    for c in calls:
        kws = dict((k.arg, k.value) for k in c.keywords)
        pos = list(ap.params)
        nodes = None
        if 'nodes' in kws:
            nodes = ex.term(kws['nodes'])
        elif len(c.args) > pos.index('nodes'):
            nodes = ex.term(c.args[pos.index('nodes')])
        ok = nodes == NAMES
        ctx.check(ok, init, 'product domain equals override domain',
                  'add_pdf_nodes(..., nodes=self.parameter_names)',
                  'the joint density ranges over {} while only self.parameter_names are '
                  'overridden with the query point'.format(
                      show(nodes) if nodes is not None else 'all model parameters (nodes not '
                                                            'given)'), fn=init, node=c)
    # the override domain: keys of _to_batch(x) = parameter_names (C08-d) for every evaluation
    evs = [m for m in mp.methods.values() if 'log' in m.all_params and
           ctx.calls(m, 'self.client.compute(_)')]
    for ev in evs:
        exe = ctx.ex(ev)
        loops = [n for n in own_nodes(ev.node) if isinstance(n, ast.For)]
        ok = any(match(exe.term(lo.iter, cfg_of(ev).by_stmt[id(lo)]),
                       pattern('self._to_batch(_x).items()')) is not None for lo in loops)
        ctx.check(ok, ev, 'every requested parameter is overridden',
                  'for k, v in self._to_batch(x).items(): override',
                  'not every requested parameter is overridden with its query column', fn=ev,
                  node=loops[0] if loops else ev.node)
    st = [s for (s, t, k) in ctx.stores(init, 'self._rvs_net') if isinstance(s, ast.Assign)]
    ok = bool(st) and match(ex.term(st[0].value),
                            pattern('self.client.compile(_s, outputs=self.parameter_names)')) \
        is not None
    ctx.check(ok, init, 'draws of the requested parameters', 'compile(outputs=parameter_names)',
              'the sampling net is not compiled for the requested parameters', fn=init,
              node=st[0] if st else init.node)
    # model is copied before it is augmented
    cp = [n for n in own_nodes(init.node) if isinstance(n, ast.Assign) and
          match(ex.term(n.value), pattern('model.copy()')) is not None]
    ok = bool(cp) and all(ctx.must_precede(init, cp, c) for c in calls)
    ctx.check(ok, init, 'user model not augmented', 'model = model.copy() before add_pdf_nodes',
              'density nodes are added to the user\'s model', fn=init,
              node=cp[0] if cp else init.node)


@obligation('C08-f', 'T1', 'overridden parameter nodes lose their operation', floor=2,
            necessary='a parameter node that keeps its operation is refused by the executor')
def c08_f(ctx):
    mp = ctx.cls(MP)
    sites = [(f, n, nd, kind) for (f, n, nd, kind) in _output_store_sites(ctx) if f.cls is mp]
    if len(sites) < 2:
        ctx.undecided('expected two override sites in ModelPrior, found {}'.format(len(sites)))
    for (f, n, nd, kind) in sites:
        ex = ctx.ex(f)
        removals = []
        for m in own_nodes(f.node):
            if isinstance(m, ast.Delete):
                for tg in m.targets:
                    if ex.term(tg) == ('sub', nd, ('const', 'operation')):
                        removals.append(m)
            elif isinstance(m, ast.Call) and callee_name(m) == 'pop' and m.args and \
                    ex.term(m.args[0]) == ('const', 'operation') and ex.term(m.func.value) == nd:
                removals.append(m)
        ok = bool(removals) and ctx.must_follow(f, n, removals)
        ctx.check(ok, f, 'operation removed with the override',
                  "`{}` followed by removing ['operation']".format(src(n)[:50]),
                  "`{}` overrides a node that keeps its operation".format(src(n)[:50]), fn=f,
                  node=n)
    # gradient of the log density differentiates logpdf
    g = ctx.own_method(mp, 'gradient_logpdf')
    cs = ctx.calls(g, 'numgrad(*_)')
    ok = bool(cs) and all(ctx.term(g, c.args[0]) == pattern_term('self.logpdf') for c in cs)
    ctx.check(ok, g, 'gradient differentiates logpdf', 'numgrad(self.logpdf, x_i)',
              'gradient_logpdf does not differentiate self.logpdf', fn=g,
              node=cs[0] if cs else g.node)


@obligation('C08-g', 'T3 T8', 'the requested parameter order is kept as given; the default log '
            'density is the plain logarithm of the density', floor=3,
            necessary='a re-ordered name list binds query columns to other parameters; a masked '
                      'logarithm is -inf where the density is positive')
def c08_g(ctx):
    mp = ctx.cls(MP)
    init = ctx.own_method(mp, '__init__')
    ex = ctx.ex(init)
    st = [s for (s, t, k) in ctx.stores(init, 'self.parameter_names') if isinstance(s, ast.Assign)]
    if not st:
        raise AnchorMissing('ModelPrior never stores parameter_names')
    given = 0
    for s in st:
        v = ex.term(s.value)
        alts = v[1] if v[0] == 'phi' else (v,)
        for a in alts:
            if a == ('param', 'parameter_names'):
                given += 1
                ok = any(pol and match(t, pattern('isinstance(parameter_names, list)')) is not None
                         for (t, pol, _) in ctx.guards(init, s)) or \
                    any(pol is False and match(t, pattern('parameter_names is None')) is not None
                        for (t, pol, _) in ctx.guards(init, s))
                ctx.check(ok, init, 'requested order kept as given',
                          'self.parameter_names = parameter_names', '', fn=init, node=s)
            elif match(a, pattern('_m.parameter_names')) is not None:
                ok = any(pol and match(t, pattern('parameter_names is None')) is not None
                         for (t, pol, _) in ctx.guards(init, s))
                ctx.check(ok, init, 'model order only when no order was requested',
                          'model.parameter_names when parameter_names is None',
                          'the model\'s own order replaces a requested order', fn=init, node=s)
            else:
                ctx.bad(init, 'requested order kept as given',
                        'self.parameter_names is {} - neither the list as given nor the model\'s '
                        'list when none was given'.format(show(a)[:100]), fn=init, node=s)
    ctx.check(given >= 1, init, 'a requested list is used', 'the given list is stored',
              'a requested parameter list is never stored as given', fn=init, node=st[0])
    # default logpdf of the distribution interface
    sd = ctx.cls('elfi.model.extensions:ScipyLikeDistribution')
    lp = ctx.own_method(sd, 'logpdf')
    exl = ctx.ex(lp)
    rr = returns(lp)
    ok = False
    if len(rr) == 1:
        t = exl.term(rr[0].value)
        m = match(t, pattern('np.log(_p)'))
        ok = m is not None and t[0] == 'call' and not t[3] and len(t[2]) == 1 and \
            match(m['p'], pattern('this.pdf(x, *params, **kwargs)')) is not None
        if not ok and m is not None:
            pc = m['p']
            ok = t[0] == 'call' and not t[3] and len(t[2]) == 1 and pc[0] == 'call' and \
                pc[1] == ('attr', ('param', lp.params[0]), 'pdf')
    ctx.check(ok, lp, 'default logpdf = log(pdf)', 'np.log(this.pdf(x, *params, **kwargs))',
              'the inherited logpdf is not the plain logarithm of pdf (masked or floored '
              'logarithms return -inf where the density is positive)', fn=lp,
              node=rr[0] if rr else lp.node)


def squeeze_conditions(ctx, f):
    """Test terms of the `if`s in f that select the first element of a result buffer."""
    ex = ctx.ex(f)
    out = []
    for n in own_nodes(f.node):
        if isinstance(n, ast.If) and len(n.body) == 1 and isinstance(n.body[0], ast.Assign) and \
                isinstance(n.body[0].value, ast.Subscript):
            v = ex.raw(n.body[0].value)
            if v[0] == 'sub' and v[2] == ('const', 0) and \
                    isinstance(n.body[0].targets[0], ast.Name) and \
                    v[1] == ('name', n.body[0].targets[0].id):
                out.append((n, ex.term(n.test)))
    return out


@obligation('C08-h', 'T13', 'value and gradient agree on when a single point is returned '
            'unwrapped', floor=2,
            necessary='different conditions give a scalar density but a matrix gradient (or the '
                      'reverse) for the same input shape')
def c08_h(ctx):
    mp = ctx.cls(MP)
    ev = mp.lookup('_evaluate_pdf')
    gl = ctx.own_method(mp, 'gradient_logpdf')
    if ev is None:
        raise AnchorMissing('evaluation method')
    ctx.touch(ev)
    ca, cb = squeeze_conditions(ctx, ev), squeeze_conditions(ctx, gl)
    ok = len(ca) >= 1 and len(cb) >= 1 and set(t for (n, t) in ca) == set(t for (n, t) in cb)
    ctx.check(ok, ev, 'same unwrap condition in value and gradient',
              'ndim == 0 or (ndim == 1 and dim > 1) in both',
              'value unwraps under {} but gradient under {}'.format(
                  [show(t)[:60] for (n, t) in ca], [show(t)[:60] for (n, t) in cb]), fn=ev,
              node=ca[0][0] if ca else ev.node)
    want = pattern('np.asanyarray(x).ndim == 0 or (np.asanyarray(x).ndim == 1 and 1 < self.dim)')
    ok = bool(ca) and all(match(t, want) is not None for (n, t) in ca)
    ctx.check(ok, ev, 'unwrap exactly for a single point',
              'scalar input, or a 1-d input when there are several parameters',
              'the unwrap condition is {}'.format([show(t)[:80] for (n, t) in ca]), fn=ev,
              node=ca[0][0] if ca else ev.node)
    for f in (ev, gl):
        ex = ctx.ex(f)
        rs = [n for n in own_nodes(f.node) if isinstance(n, ast.Assign) and
              match(ex.raw(n.value), pattern('_x.reshape((-1, self.dim))')) is not None]
        ctx.check(bool(rs), f, 'query reshaped to rows of dim columns', 'x.reshape((-1, dim))',
                  'the query is not reshaped to (n, dim)', fn=f, node=rs[0] if rs else f.node)


@obligation('C08-i', 'T2 T3 T5', 'the numerical gradient is a central difference of untouched '
            'function values and is zero when a stencil value is -inf', floor=5,
            necessary='a difference quotient taken across the jump to -inf (or over altered '
                      'values) is not the derivative of the log density at a point next to the '
                      'support boundary')
def c08_i(ctx):
    ng = ctx.fn('elfi.methods.utils:numgrad')
    ex = ctx.ex(ng)
    g = cfg_of(ng)
    grads = ctx.calls(ng, 'np.gradient(*_)')
    if len(grads) != 1:
        raise AnchorMissing('np.gradient call in numgrad')
    gc = grads[0]
    a0 = gc.args[0]
    if not isinstance(a0, ast.Name):
        ctx.undecided('np.gradient is not applied to a named array')
    fname = a0.id
    # the values come from one batched call of the function on the stencil
    defs = [n for n in own_nodes(ng.node) if isinstance(n, ast.Assign) and
            isinstance(n.targets[0], ast.Name) and n.targets[0].id == fname]
    ok = bool(defs) and any(match(ex.raw(d.value), pattern('{}(_X)'.format(ng.params[0])))
                            is not None for d in defs)
    ctx.check(ok, ng, 'values are fn evaluated on the stencil', 'f = fn(X)',
              'the differentiated values are not fn(stencil)', fn=ng, node=defs[0] if defs else gc)
    # no element of the value array is overwritten before it is differentiated
    writes = [n for n in own_nodes(ng.node)
              if isinstance(n, (ast.Assign, ast.AugAssign)) and
              any(isinstance(t, ast.Subscript) and isinstance(t.value, ast.Name) and
                  t.value.id == fname
                  for t in (n.targets if isinstance(n, ast.Assign) else [n.target]))]
    ctx.check(not writes, ng, 'function values are not altered before differencing',
              'no store into the value array',
              'elements of the value array are overwritten before np.gradient: the difference '
              'quotient is taken over altered values', fn=ng, node=writes[0] if writes else gc)
    # -inf anywhere on the stencil -> zero gradient, returned before differencing
    zr = [r for r in returns(ng) if match_any(ex.term(r.value), ('np.zeros(_d)',
                                                                   'np.zeros_like(_d)'))
          is not None and not ctx.must_precede(ng, [ctx_stmt(gc)], r)]
    okz = False
    for r in zr:
        gs = ctx.guards(ng, r)
        has_flag = any(pol and t in (('param', 'replace_neg_inf'), ('name', 'replace_neg_inf'))
                       for (t, pol, _) in gs)
        has_inf = any(pol and match_any(t, ('np.any(np.isneginf(_f))', 'np.isneginf(_f).any()',
                                            'np.any(np.isinf(_f))', 'np.isinf(_f).any()'))
                      is not None for (t, pol, _) in gs)
        okz = okz or (has_flag and has_inf)
    ctx.check(okz, ng, '-inf on the stencil gives a zero gradient',
              'if replace_neg_inf and any(isneginf(f)): return zeros',
              'a stencil value of -inf does not lead to a zero gradient before differencing',
              fn=ng, node=zr[0] if zr else gc)
    # central stencil: offsets (i - 1) * h for i in range(3), middle row returned
    loops = [n for n in own_nodes(ng.node) if isinstance(n, ast.For) and
             match(ex.raw(n.iter), pattern('range(3)')) is not None]
    okc = False
    if loops:
        iv = loops[0].target.id if isinstance(loops[0].target, ast.Name) else None
        for n in ast.walk(loops[0]):
            if isinstance(n, ast.BinOp) and isinstance(n.op, ast.Mult):
                t = ex.raw(n)
                if match_any(t, ('({} - 1) * _h'.format(iv),)) is not None:
                    okc = True
    ctx.check(okc, ng, 'symmetric three-point stencil', 'offsets (i - 1) * h, i = 0, 1, 2',
              'the stencil offsets are not -h, 0, +h', fn=ng, node=loops[0] if loops else gc)
    rr = [r for r in returns(ng) if r not in zr]
    okm = len(rr) == 1 and match(ex.term(rr[0].value), pattern('_g[1, :]')) is not None and \
        contains(ex.term(rr[0].value), 'np.gradient(*_)')
    ctx.check(okm, ng, 'derivative read at the centre point', 'np.gradient(f, h, axis=0)[1, :]',
              'the returned row of np.gradient is not the centre of the stencil', fn=ng,
              node=rr[0] if rr else gc)
    kw = dict((k.arg, ex.raw(k.value)) for k in gc.keywords)
    ctx.check(kw.get('axis') == ('const', 0), ng, 'differences along the stencil axis', 'axis=0',
              'np.gradient does not difference along the stencil axis', fn=ng, node=gc)


def ctx_stmt(node):
    n = node
    while n is not None and not isinstance(n, ast.stmt):
        n = getattr(n, '_parent', None)
    return n


# The density nodes are wired with node.parents: the order in which the graph reports positional
# parents is part of "the density given its parents' values" (= C14-g).
@obligation('C08-j', 'T5 T8', 'the graph reports positional parents in declaration order (shared '
            'with C14-g)', floor=4,
            necessary='parents reported in insertion order after become() / copy() evaluate the '
                      'conditional density with swapped distribution arguments')
def c08_j(ctx):
    from . import C14 as _C14
    return _C14.c14_g(ctx)


@obligation('C08-k', 'T7', 'the gradient of row i is computed from row i alone, for every row',
            floor=3,
            necessary='a test over the whole batch (one row outside the support) that skips or '
                      'zeroes the differentiation makes matrix input disagree with the same '
                      'points evaluated one by one')
def c08_k(ctx):
    mp = ctx.cls(MP)
    g = ctx.own_method(mp, 'gradient_logpdf')
    ex = ctx.ex(g)
    cs = ctx.calls(g, 'numgrad(*_)')
    if len(cs) != 1:
        raise AnchorMissing('numgrad call in gradient_logpdf')
    c = cs[0]
    lp = enclosing_loop(c)
    st = c
    while not isinstance(st, ast.stmt):
        st = st._parent
    # the loop runs over all rows and is entered unconditionally
    ok = isinstance(lp, ast.For) and match_any(ex.term(lp.iter), (
        'range(len(_g))', 'range(_x.shape[0])', 'range(len(_x))')) is not None
    ctx.check(ok, g, 'one differentiation per row', 'for i in range(len(grads))',
              'the numerical differentiation does not run once per row', fn=g, node=lp or c)
    conds = [t for (t, pol, tast) in ctx.guards(g, st)
             if lp is None or not _inside(tast, lp)]
    conds = [t for t in conds if t[0] != 'bool']
    ctx.check(not conds, g, 'every row is differentiated, whatever the other rows are',
              'the row loop is not under a batch-level condition',
              'the per-row differentiation is skipped under the batch-level condition {}: one row '
              'changes the gradient of all others'.format([show(t)[:50] for t in conds][:2]),
              fn=g, node=st)
    # row i: point x[i], result grads[i]
    tgt = st.targets[0] if isinstance(st, ast.Assign) else None
    a1 = ex.term(c.args[1]) if len(c.args) > 1 else None
    ok = tgt is not None and isinstance(tgt, ast.Subscript) and a1 is not None and \
        a1[0] == 'sub' and a1[2] == ex.term(tgt.slice) and a1[2][0] == 'elem'
    ctx.check(ok, g, 'row i of the result from row i of the input', 'grads[i] = numgrad(.., x[i])',
              'the gradient stored in row i is not computed at row i of the input', fn=g, node=st)


@obligation('C08-l', 'T12', 'a returned result buffer does not inherit the dtype of the caller\'s '
            'array (package sweep; shared with C10-k)', floor=1,
            necessary='the gradient of the log density written into an integer buffer is '
                      'truncated towards zero: it is not the derivative for integer-typed input')
def c08_l(ctx):
    from .base import inherited_dtype_obligation
    inherited_dtype_obligation(ctx)


@obligation('C08-m', 'T3', 'the density operation receives the node value and its parents\' values '
            'in declared order at execution time (shared with C03-d)', floor=3,
            necessary='pdf(x, mu, sigma) called with its positional arguments in another order '
                      'is the density of another distribution (location and scale swapped)')
def c08_m(ctx):
    from .C03 import c03_d
    c03_d(ctx)
