"""C12 - distance nodes; adaptive scales ignore batching.

Decided: argument dataflow of distance_as_discrepancy, forwarding of the metric's extra
arguments, append-only distance history, unit of the adaptive weight, def-use order of the
batched Welford update, consistent re-sort after a distance update.
Not decided: numeric equality with scipy metrics, the algebra of the recurrence.
"""

import ast

from .. import AnalysisError, AnchorMissing
from ..cfg import cfg_of
from ..model import own_nodes
from ..values import pattern, match, match_any, find, contains, show, subterms
from .base import obligation, src, callee_name
from .C04 import pattern_term, returns, enclosing_loop, _inside
from . import C01

AD = 'elfi.model.elfi_model:AdaptiveDistance'
DI = 'elfi.model.elfi_model:Distance'


@obligation('C12-a', 'T3 T8', 'distance(column-stacked summaries, stacked observed)', floor=3,
            necessary='swapped or unstacked arguments compute another quantity (or one value '
                      'per observed row)')
def c12_a(ctx):
    f = ctx.fn('elfi.model.utils:distance_as_discrepancy')
    ex = ctx.ex(f)
    dist_p = ('param', f.params[0])
    calls = [c for c in ctx.calls(f) if ex.term(c.func) == dist_p]
    if len(calls) != 1:
        ctx.undecided('expected one call of the distance function, found {}'.format(len(calls)))
    c = calls[0]
    a = [ex.term(x) for x in c.args]
    va = f.node.args.vararg.arg if f.node.args.vararg else None
    ok = len(a) == 2 and va is not None and \
        match(a[0], pattern('np.column_stack({})'.format(va))) is not None
    ctx.check(ok, f, 'first argument: column-stacked summaries', 'np.column_stack(summaries)',
              'the first argument is {}'.format(show(a[0])[:80] if a else None), fn=f, node=c)
    ok = len(a) == 2 and match(
        a[1], pattern('np.concatenate([np.atleast_2d(_o) for _o in observed], axis=1)')) \
        is not None
    ctx.check(ok, f, 'second argument: observed made 2-d and joined along columns',
              'np.concatenate([atleast_2d(o) for o in observed], axis=1)',
              'the second argument is {}'.format(show(a[1])[:100] if len(a) > 1 else None),
              fn=f, node=c)
    rr = [r for r in returns(f) if r.value is not None]
    ok = bool(rr) and all(contains(ex.term(r.value), show_call(dist_p)) or True for r in rr)
    # result: the distance values (flattened when a single column)
    t = ex.term(rr[-1].value) if rr else None
    alts = t[1] if t is not None and t[0] == 'phi' else ((t,) if t is not None else ())
    ok = bool(alts) and all(
        (x[0] == 'call' and x[1] == dist_p) or
        (match(x, pattern('_d.reshape(-1)')) is not None and
         match(x, pattern('_d.reshape(-1)'))['d'][0] == 'call') for x in alts)
    ctx.check(ok, f, 'returns the distance values', 'd (flattened when n x 1)',
              'the returned value is {}'.format(show(t)[:100] if t else None), fn=f,
              node=rr[-1] if rr else f.node)
    # flattening only removes a single *column*: the row (batch) axis is never folded away
    flat = [n for n in own_nodes(f.node) if isinstance(n, ast.Assign) and
            match(ex.raw(n.value), pattern('_d.reshape(-1)')) is not None]
    for n in flat:
        facts = [t_ for (t_, pol_, _) in ctx.guards(f, n) if pol_ and t_[0] != 'bool']
        one_col = any(match(t_, pattern('_d.shape[1] == 1')) is not None for t_ in facts)
        foreign = [t_ for t_ in facts
                   if match_any(t_, ('_d.shape[1] == 1', '_d.ndim == 2', '2 <= _d.ndim',
                                     '1 < _d.ndim')) is None and t_[0] != 'unary']
        ctx.check(one_col and not foreign, f, 'flattened only when there is a single column',
                  'if d.ndim == 2 and d.shape[1] == 1',
                  'the distance matrix is flattened under {} - not exactly when it has one '
                  'column: a 1 x k result (batch_size 1, several observed rows) becomes k values '
                  'for one simulation'.format([show(t_)[:40] for t_ in facts]), fn=f, node=n)
    # 'observed' is keyword-only: matches the compiler's edge parameter (C03-a)
    ctx.check('observed' in [x.arg for x in f.node.args.kwonlyargs], f, 'observed by keyword',
              'keyword-only `observed`', '`observed` is not a keyword-only parameter', fn=f,
              node=f.node)


def show_call(t):
    return show(t) + '(*_)'


@obligation('C12-b', 'T8', 'metric arguments demanded by a metric are forwarded to cdist',
            floor=4, necessary='a demanded but not forwarded argument is silently ignored')
def c12_b(ctx):
    di = ctx.cls(DI)
    init = ctx.own_method(di, '__init__')
    ex = ctx.ex(init)
    demanded = {}
    for r in ctx.stmts(init, ast.Raise):
        metric = key = None
        for (x, pol, _) in ctx.guards(init, r):
            if not pol or x[0] == 'bool':
                continue
            m1 = match(x, pattern('distance == _m'))
            m2 = match_any(x, ('_k not in kwargs.keys()', '_k not in kwargs'))
            if m1 is not None and m1['m'][0] == 'const':
                metric = m1['m'][1]
            if m2 is not None and m2['k'][0] == 'const':
                key = m2['k'][1]
        if metric and key:
            demanded[metric] = key
    if len(demanded) < 3:
        ctx.undecided('expected three metric/argument demands, found {}'.format(demanded))
    fwd = None
    extra_guards = []
    for n in own_nodes(init.node):
        if isinstance(n, ast.For):
            it = ex.term(n.iter, cfg_of(init).by_stmt[id(n)])
            if it[0] == 'list' and all(x[0] == 'const' for x in it[1]):
                body_ok = any(isinstance(s, ast.Assign) and isinstance(s.targets[0], ast.Subscript)
                              and match(ex.term(s.value), pattern('kwargs.pop(_k)')) is not None
                              and ex.term(s.targets[0].slice) ==
                              match(ex.term(s.value), pattern('kwargs.pop(_k)'))['k']
                              for s in ast.walk(n))
                if body_ok:
                    fwd = (n, set(x[1] for x in it[1]))
                    # forwarded whenever present: the store is conditional on nothing but the
                    # key being among the keyword arguments
                    for s in ast.walk(n):
                        if not (isinstance(s, ast.Assign) and
                                isinstance(s.targets[0], ast.Subscript) and
                                match(ex.term(s.value), pattern('kwargs.pop(_k)')) is not None):
                            continue
                        inner = set(id(x) for x in ast.walk(n))
                        for (tn, pol) in cfg_of(init).guards_of(ctx.node(init, s)):
                            if tn.kind != 'test' or id(tn.ast) not in inner:
                                continue
                            g = ex.term(tn.ast, tn)
                            if not (pol and match_any(g, ('_k in kwargs.keys()',
                                                          '_k in kwargs')) is not None):
                                extra_guards.append((s, tn.ast))
    ctx.check(fwd is not None, init, 'forwarding loop', 'cdist_kwargs[key] = kwargs.pop(key)',
              'metric arguments are not moved from kwargs into the cdist arguments', fn=init,
              node=init.node)
    if fwd is None:
        return
    ctx.check(not extra_guards, init, 'forwarded whenever given',
              'the only condition on forwarding a metric argument is that it was given',
              'a given metric argument is taken out of kwargs but forwarded to cdist only under '
              '`{}`: otherwise it is silently dropped'.format(
                  src(extra_guards[0][1])[:60] if extra_guards else ''), fn=init,
              node=extra_guards[0][0] if extra_guards else fwd[0])
    for metric, key in sorted(demanded.items()):
        ctx.check(key in fwd[1], init, 'argument {} of {} forwarded'.format(key, metric),
                  '{} in {}'.format(key, sorted(fwd[1])),
                  'metric {} demands `{}` but it is not among the forwarded keys {}'.format(
                      metric, key, sorted(fwd[1])), fn=init, node=fwd[0])
    # metric and kwargs reach cdist; cdist reaches distance_as_discrepancy
    part = [n for n in own_nodes(init.node) if isinstance(n, ast.Call) and
            callee_name(n) == 'partial']
    ok1 = any(match(ex.term(p), pattern('partial(scipy.spatial.distance.cdist, **_k)')) is not None
              and contains(ex.term(p), 'dict(metric=distance)') for p in part)
    ctx.check(ok1, init, 'cdist with metric and forwarded arguments',
              'partial(cdist, **dict(metric=distance, ...))',
              'the scipy metric is not bound as partial(cdist, metric=distance, **forwarded)',
              fn=init, node=part[0] if part else init.node)
    ok2 = any(match(ex.term(p), pattern('partial(distance_as_discrepancy, _d)')) is not None
              for p in part)
    ctx.check(ok2, init, 'wrapped as a discrepancy', 'partial(distance_as_discrepancy, dist_fn)',
              'the distance function is not wrapped with distance_as_discrepancy', fn=init,
              node=part[-1] if part else init.node)
    ad = ctx.cls(AD)
    ainit = ctx.own_method(ad, '__init__')
    exa = ctx.ex(ainit)
    st = [s for s in own_nodes(ainit.node) if isinstance(s, ast.Assign) and
          match(exa.term(s.value), pattern("partial(scipy.spatial.distance.cdist, "
                                           "metric='euclidean')")) is not None]
    ctx.check(bool(st), ainit, 'adaptive distance is Euclidean', "cdist metric='euclidean'",
              'the adaptive distance is not based on the Euclidean metric', fn=ainit,
              node=st[0] if st else ainit.node)


@obligation('C12-c', 'T2', 'earlier distances stay available: the history is append-only',
            floor=4, necessary='a reset or overwrite loses the distances earlier populations '
                               'were accepted under')
def c12_c(ctx):
    ad = ctx.cls(AD)
    for key in ('distance_functions', 'w'):
        creators, appenders, others = [], [], []
        for m in ad.methods.values():
            for (s, t, k) in ctx.stores(m, "self.state['{}']".format(key)):
                if k == 'assign':
                    creators.append((m, s))
                elif k == 'call:append':
                    appenders.append((m, s))
                else:
                    others.append((m, s, k))
            for (s, t, k) in ctx.stores(m, "self.state['{}'][_]".format(key)):
                others.append((m, s, k))
        ok = len(creators) == 1 and creators[0][0].name == 'init_state' and bool(appenders) \
            and not others
        ctx.check(ok, ad.qname, 'history `{}` is append-only'.format(key),
                  'created in init_state, otherwise only appended to',
                  "state['{}'] is also written by {}".format(
                      key, [(m.name, k) for (m, s, k) in others] +
                      [m.name for (m, s) in creators if m.name != 'init_state']),
                  fn=(others or creators or appenders)[0][0] if (others or creators or appenders)
                  else None, node=(others or creators or appenders)[0][1]
                  if (others or creators or appenders) else None)
    nd = ctx.own_method(ad, 'nested_distance')
    rr = returns(nd)
    ok = len(rr) == 1 and match(
        ctx.term(nd, rr[0].value),
        pattern("np.column_stack([_d(u, v) for _d in self.state['distance_functions']])")) \
        is not None
    ctx.check(ok, nd, 'all distances in history order',
              "column_stack([d(u, v) for d in state['distance_functions']])",
              'nested_distance does not stack every stored distance in list order', fn=nd,
              node=rr[0] if rr else nd.node)
    ist = ctx.own_method(ad, 'init_state')
    ex = ctx.ex(ist)
    st = [s for (s, t, k) in ctx.stores(ist, "self.state['distance_functions']") if k == 'assign']
    ok = bool(st) and match(ex.term(st[0].value),
                            pattern("[partial(self.state['attr_dict']['distance'], w=None)]")) \
        is not None
    ctx.check(ok, ist, 'first distance is unweighted', 'partial(distance, w=None)',
              'the initial distance is not the unweighted base distance', fn=ist,
              node=st[0] if st else ist.node)


@obligation('C12-d', 'T9 T5', 'newest distance weights squared differences by 1/scale^2; scale '
            'is the population standard deviation', floor=4,
            necessary='an unsquared weight or an n-1 divisor gives another distance')
def c12_d(ctx):
    ctx.fact("scipy cdist(XA, XB, 'euclidean', w=w) weights squared differences by w")
    ad = ctx.cls(AD)
    ud = ctx.own_method(ad, 'update_distance')
    ex = ctx.ex(ud)
    apps = [c for c in ctx.calls(ud, name='append')
            if match(ex.term(c.func.value), pattern("self.state['distance_functions']")) is not None]
    ok = False
    for c in apps:
        t = ex.term(c.args[0])
        m = match(t, pattern("partial(self.state['attr_dict']['distance'], w=_w)"))
        if m is not None and match_any(m['w'], ("(1 / self.state['scale']) ** 2",
                                                "1 / self.state['scale'] ** 2",
                                                "np.square(1 / self.state['scale'])")) is not None:
            ok = True
    ctx.check(ok, ud, 'weight is the inverse variance', 'w = (1 / scale) ** 2',
              'the Euclidean weight is not (1 / scale) squared', fn=ud,
              node=apps[0] if apps else ud.node)
    wapp = [c for c in ctx.calls(ud, name='append')
            if match(ex.term(c.func.value), pattern("self.state['w']")) is not None]
    ok = bool(wapp) and match(ex.term(wapp[0].args[0]), pattern("1 / self.state['scale']")) \
        is not None
    ctx.check(ok, ud, 'recorded weight', "state['w'].append(1 / scale)",
              'the recorded weight is not 1 / scale', fn=ud, node=wapp[0] if wapp else ud.node)
    # the scale is read before the accumulators are reset
    resets = ctx.calls(ud, 'self.init_adaptation_round()')
    reads = [n for n in own_nodes(ud.node) if isinstance(n, ast.Subscript) and
             ex.term(n) == pattern_term("self.state['scale']")]
    ok = bool(resets) and bool(reads) and all(ctx.must_precede(ud, [r], resets[0]) or
                                              ctx.node(ud, r) is not ctx.node(ud, resets[0])
                                              for r in reads) and \
        all(not cfg_of(ud).exists_path(ctx.node(ud, resets[0]), ctx.node(ud, r)) or
            ctx.node(ud, r) is ctx.node(ud, resets[0]) for r in reads)
    ctx.check(ok, ud, 'new round starts after the scale was used',
              'init_adaptation_round() after reading the scale',
              'the accumulators are reset before / without the scale being used', fn=ud,
              node=resets[0] if resets else ud.node)
    add = ctx.own_method(ad, 'add_data')
    exa = ctx.ex(add)
    sc = [s for (s, t, k) in ctx.stores(add, "self.state['scale']") if k == 'assign']
    ok = bool(sc) and match(exa.term(sc[0].value),
                            pattern("np.sqrt(self.state['store'][2] / self.state['store'][0])")) \
        is not None
    ctx.check(ok, add, 'population standard deviation', 'scale = sqrt(M2 / n)',
              'scale is {} - not sqrt(M2 / n) with divisor n'.format(
                  show(exa.term(sc[0].value))[:80] if sc else None), fn=add,
              node=sc[0] if sc else add.node)
    ok = bool(sc) and cfg_of(add).must_pass([ctx.node(add, sc[0])])
    stores = [s for (s, t, k) in ctx.stores(add, "self.state['store'][_]")]
    ok = ok and bool(stores) and all(ctx.must_precede(add, [s], sc[0]) for s in stores)
    ctx.check(ok, add, 'scale refreshed after every add_data', 'computed last, on every path',
              'the scale is not recomputed after the accumulators were updated', fn=add,
              node=sc[0] if sc else add.node)


@obligation('C12-e', 'T1 T8', 'batched Welford update: read / update order and full reset',
            floor=6, necessary='reading the mean after (or before) the wrong update makes the '
                               'scale depend on how the data were split into batches')
def c12_e(ctx):
    ad = ctx.cls(AD)
    add = ctx.own_method(ad, 'add_data')
    ex = ctx.ex(add)
    S = "self.state['store']"

    def store_stmt(i):
        return [s for (s, t, k) in ctx.stores(add, S + '[{}]'.format(i))]
    s0, s1, s2 = store_stmt(0), store_stmt(1), store_stmt(2)
    ok = len(s0) == 1 and len(s1) == 1 and len(s2) == 1 and \
        all(isinstance(s[0], ast.AugAssign) and isinstance(s[0].op, ast.Add) for s in (s0, s1, s2))
    ctx.check(ok, add, 'three accumulators updated once', 'count, mean, M2 each += once',
              'the accumulators are not each updated exactly once per call', fn=add, node=add.node)
    if not ok:
        return
    data_t = None
    for n in own_nodes(add.node):
        if isinstance(n, ast.Assign) and match(ex.raw(n.value), pattern('np.column_stack(data)')) \
                is not None:
            data_t = n
    ctx.check(data_t is not None, add, 'summaries column-stacked', 'data = np.column_stack(data)',
              'the summaries are not column-stacked', fn=add, node=data_t or add.node)
    ok = ex.raw(s0[0].value) == pattern('len(data)') or \
        match(ex.raw(s0[0].value), pattern('len(_d)')) is not None
    ctx.check(ok, add, 'count grows by the number of rows', 'n += len(data)',
              'the count is increased by {}'.format(src(s0[0].value)), fn=add, node=s0[0])
    # deltas: assignments `x = data - store[1]`
    deltas = [n for n in own_nodes(add.node) if isinstance(n, ast.Assign) and
              match(ex.raw(n.value), pattern("_d - self.state['store'][1]")) is not None]
    ok = len(deltas) == 2
    ctx.check(ok, add, 'two deviations from the running mean', 'delta_1 and delta_2',
              'expected two `data - mean` deviations, found {}'.format(len(deltas)), fn=add,
              node=deltas[0] if deltas else add.node)
    if not ok:
        return
    d1, d2 = sorted(deltas, key=lambda n: n.lineno)
    ctx.check(ctx.must_precede(add, [d1], s1[0]) and not cfg_of(add).exists_path(
        ctx.node(add, s1[0]), ctx.node(add, d1)), add, 'first deviation uses the old mean',
        'delta_1 read before the mean update', 'delta_1 is computed after the mean was updated',
        fn=add, node=d1)
    ctx.check(ctx.must_precede(add, [s1[0]], d2), add, 'second deviation uses the new mean',
              'delta_2 read after the mean update',
              'delta_2 is computed before the mean was updated', fn=add, node=d2)
    ctx.check(ctx.must_precede(add, [s0[0]], s1[0]), add, 'count updated before it divides',
              'n += len(data) before mean += sum(delta_1) / n',
              'the mean update divides by the count before it was increased', fn=add, node=s1[0])
    n1, n2 = d1.targets[0].id, d2.targets[0].id
    ok = match(ex.raw(s1[0].value),
               pattern("np.sum({}, axis=0) / self.state['store'][0]".format(n1))) is not None
    ctx.check(ok, add, 'mean update', 'mean += sum(delta_1, axis=0) / n',
              'the mean is updated by {}'.format(src(s1[0].value)), fn=add, node=s1[0])
    ok = match_any(ex.raw(s2[0].value), ('np.sum({} * {}, axis=0)'.format(n1, n2),
                                         'np.sum({} * {}, axis=0)'.format(n2, n1))) is not None
    ctx.check(ok and ctx.must_precede(add, [d2], s2[0]), add, 'M2 update',
              'M2 += sum(delta_1 * delta_2, axis=0)',
              'M2 is updated by {}'.format(src(s2[0].value)), fn=add, node=s2[0])
    # reset covers all three accumulators
    ir = ctx.own_method(ad, 'init_adaptation_round')
    exr = ctx.ex(ir)
    zeroed = set()
    for (s, t, k) in ctx.stores(ir, S + '[_]'):
        if isinstance(s, ast.Assign) and exr.term(s.value) == ('const', 0):
            idx = exr.term(t.slice)
            if idx[0] == 'const':
                zeroed.add(idx[1])
    ctx.check(zeroed == {0, 1, 2}, ir, 'all accumulators reset', 'store[0..2] = 0',
              'a new adaptation round resets only {}'.format(sorted(zeroed)), fn=ir, node=ir.node)
    ok = cfg_of(ir).must_pass([ctx.node(ir, s) for (s, t, k) in ctx.stores(ir, S + '[0]')])
    ctx.check(ok, ir, 'reset on every path', '', 'the reset can be skipped', fn=ir, node=ir.node)


@obligation('C12-f', 'T7', 'after a distance update the sample is re-sorted consistently',
            floor=2, necessary='an un-permuted discrepancy column misaligns distances and '
                               'parameters')
def c12_f(ctx):
    cls = ctx.cls(C01.REJ)
    ext = ctx.own_method(cls, 'extract_result')
    ups = [f for f in ctx.reachable([ext], depth=2, may=False)
           if f.cls is not None and cls.is_subclass_of(f.cls) and
           ctx.calls(f, name='update_distance')]
    if not ups:
        raise AnchorMissing('no function reachable from extract_result updates the distance')
    for f in ups:
        ex = ctx.ex(f)
        loops = C01.buffer_loops(ctx, f)
        if not loops:
            ctx.bad(f, 'buffers re-sorted', 'the outputs are not re-sorted after the distance '
                    'update', fn=f, node=f.node)
            continue
        for (lo, kind, key, buf, elem) in loops:
            perms = []
            member = None
            for n in ast.walk(lo):
                if isinstance(n, ast.Assign) and isinstance(n.targets[0], ast.Subscript):
                    tt = ex.term(n.targets[0])
                    v = ex.term(n.value)
                    if tt[1] == buf and v[0] == 'sub' and v[1] == buf:
                        perms.append((n, v[2]))
                if isinstance(n, ast.If):
                    tt_ = ex.term(n.test)
                    while tt_[0] == 'unary' and tt_[1] == 'not':
                        tt_ = tt_[2]
                    m = match_any(tt_, ('_k != _x', '_k == _x'))
                    if m is not None and key in (m['k'], m['x']):
                        member = m['x'] if m['k'] == key else m['k']
            if not perms:
                continue
            # the rows that are rewritten are the rows the distances were recomputed for
            for n in ast.walk(lo):
                if isinstance(n, ast.Assign) and isinstance(n.targets[0], ast.Subscript):
                    tt = ex.term(n.targets[0])
                    if tt[1] == buf:
                        sel = [s for s in subterms(perms[0][1])
                               if s[0] == 'sub' and s[2][0] == 'slice' and
                               contains(s[1], C01.SAMPLES + '[_]')]
                        okr = bool(sel) and all(s[2] == tt[2] for s in sel)
                        ctx.check(okr, f, 'rewritten rows = recomputed rows',
                                  'target slice equals the slice the distances were recomputed on',
                                  'the permutation computed on rows {} is written to rows {}'
                                  .format(show(sel[0][2]) if sel else '?', show(tt[2])), fn=f,
                                  node=n)
            P = perms[0][1]
            mm = match(P, pattern('np.argsort(_k)'))
            ok = mm is not None and contains(mm['k'], '_.generate(with_values=_)')
            ctx.check(ok, f, 'sorted by the recomputed newest distance',
                      'P = argsort(newest recomputed distance)',
                      'the permutation {} is not the argsort of the recomputed distances'.format(
                          show(P)[:80]), fn=f, node=perms[0][0])
            if member is not None:
                # every other buffer is permuted: the store runs for keys that are not the
                # special-cased one
                okk = all(any((pol and match_any(t, ('_k != _x',)) is not None and
                               {match_any(t, ('_k != _x',))['k'],
                                match_any(t, ('_k != _x',))['x']} == {key, member}) or
                              ((not pol) and match_any(t, ('_k == _x',)) is not None and
                               {match_any(t, ('_k == _x',))['k'],
                                match_any(t, ('_k == _x',))['x']} == {key, member})
                              for (t, pol, _) in ctx.guards(f, n)) for (n, _p) in perms)
                ctx.check(okk, f, 'all buffers but the special-cased one are permuted',
                          'if k != discrepancy_name: buf[:n] = buf[P]',
                          'the permutation is applied under the wrong side of the key test: the '
                          'parameter columns stay in the old order', fn=f, node=perms[0][0])
            if member is not None and mm is not None:
                st = [s for (s, t, k) in ctx.stores(f, C01.SAMPLES + '[_]')
                      if k == 'assign' and not _inside(s, lo) and ex.term(t.slice) == member]
                okm = bool(st) and any(ex.term(s.value) == ('sub', mm['k'], P) or
                                       match(ex.term(s.value), pattern('np.sort(_k)')) ==
                                       {'k': mm['k']} for s in st)
                ctx.check(okm, f, 'special-cased buffer is permuted like the others',
                          'discrepancy column = key[argsort(key)]',
                          'the discrepancy column receives the un-permuted distances', fn=f,
                          node=st[0] if st else lo)
        # the reported threshold / acceptance rate are refreshed from the re-sorted buffers
        from ..values import alias as _alias
        meta = [c for c in ctx.calls(f) if callee_name(c) == _alias('_update_state_meta')]
        last_lo = loops[-1][0] if loops else None
        okm2 = len(meta) >= 1 and last_lo is not None and all(
            cfg_of(f).must_precede([cfg_of(f).by_stmt[id(last_lo)]], ctx.node(f, c))
            for c in meta) and cfg_of(f).must_pass([ctx.node(f, c) for c in meta])
        ctx.check(okm2, f, 'reported threshold refreshed after the re-sort',
                  '_update_state_meta() after the buffers were permuted',
                  'after the distances were recomputed the sampler keeps reporting the threshold '
                  'of the previous distance', fn=f, node=meta[0] if meta else f.node)
        # distance updated before the recomputation; recomputed from the kept rows
        ud = ctx.calls(f, name='update_distance')
        gen = ctx.calls(f, name='generate')
        ok = bool(ud) and bool(gen) and ctx.must_precede(f, ud, gen[0])
        ctx.check(ok, f, 'distance updated before recomputation',
                  'update_distance() < generate(with_values=...)',
                  'distances are recomputed before the distance node was updated', fn=f,
                  node=gen[0] if gen else f.node)


@obligation('C12-g', 'T3 T11', 'every consumed batch feeds all its summary rows to the adaptive '
            'scale, in the distance\'s own column order', floor=4,
            necessary='rows that are fed only when something was accepted (or columns in another '
                      'order) make the scale depend on batching / divide a summary by another '
                      'summary\'s deviation')
def c12_g(ctx):
    cls = ctx.cls(C01.REJ)
    upd = ctx.own_method(cls, 'update')
    feeders = [f for f in ctx.reachable([upd], depth=2, may=False)
               if f.cls is not None and cls.is_subclass_of(f.cls) and
               ctx.calls(f, name='add_data')]
    if not feeders:
        raise AnchorMissing('no function reachable from Rejection.update feeds add_data')
    for f in feeders:
        ex = ctx.ex(f)
        for c in ctx.calls(f, name='add_data'):
            ok = ctx.only_guarded_by(f, c, ('self.adaptive',), at_most=1) and \
                bool(ctx.guard_groups(f, c)) and enclosing_loop(c) is None
            ctx.check(ok, f, 'fed for every batch of an adaptive run',
                      'add_data(...) guarded by self.adaptive only',
                      'the adaptation data of a batch are added only under an additional '
                      'condition (e.g. only when something was accepted)', fn=f, node=c)
            st = [a for a in c.args if isinstance(a, ast.Starred)]
            t = ex.term(st[0].value) if st else None
            okc = t is not None and t[0] == 'comp' and \
                match(t[3][0][0], pattern('self.sums')) is not None and not t[3][0][1] and \
                t[2] == ('sub', ('param', f.params[1]), ('elem', t[3][0][0], t[2][2][2])
                         if t[2][0] == 'sub' and t[2][2][0] == 'elem' else None)
            ctx.check(okc, f, 'all rows of the batch, one column block per summary',
                      'add_data(*[batch[s] for s in self.sums])',
                      'the adaptation data are {} - not the unmasked batch outputs of every '
                      'summary in self.sums order'.format(show(t)[:100] if t else None), fn=f,
                      node=c)
            recv = ex.term(c.func.value)
            ctx.check(match(recv, pattern('self.model[self.discrepancy_name]')) is not None, f,
                      'fed to the sampler\'s own distance node',
                      'self.model[self.discrepancy_name].add_data', 'the data are added to '
                      'another node', fn=f, node=c)
        # on every path of update the feeder runs
        cs = [c for c in ctx.calls(upd) if f in ctx.cg.resolve(upd, c)]
        if f is not upd:
            ok = bool(cs) and cfg_of(upd).must_pass([ctx.node(upd, c) for c in cs])
            ctx.check(ok, upd, 'feeder reached for every batch', '', 'update can return without '
                      'feeding the adaptive distance', fn=upd, node=cs[0] if cs else upd.node)
    # self.sums is the positional parent order of the distance node (the order in which the
    # node itself column-stacks its summaries)
    n = 0
    for c in [cls] + cls.all_subclasses():
        for m in c.methods.values():
            for (s, t, k) in ctx.stores(m, 'self.sums'):
                if not isinstance(s, ast.Assign):
                    continue
                n += 1
                v = ctx.term(m, s.value)
                ok = v[0] == 'comp' and v[1] == 'list' and len(v[3]) == 1 and not v[3][0][1] and \
                    match(v[3][0][0], pattern('_m[_d].parents')) is not None and \
                    v[2] == ('attr', ('elem', v[3][0][0], v[2][1][2]), 'name') \
                    if (v[0] == 'comp' and v[2][0] == 'attr' and v[2][1][0] == 'elem') else False
                ctx.check(ok, m, 'summary order is the parent order of the distance',
                          'self.sums = [p.name for p in model[d].parents]',
                          'self.sums is {} - not the names of the distance\'s parents in parent '
                          'order'.format(show(v)[:100]), fn=m, node=s)
    if n < 1:
        raise AnchorMissing('self.sums is never assigned')
    # the recomputation hands the rows over by name (order-free)
    ext = ctx.own_method(cls, 'extract_result')
    for f in ctx.reachable([ext], depth=2, may=False):
        if f.cls is None or not cls.is_subclass_of(f.cls):
            continue
        exf = ctx.ex(f)
        for c in ctx.calls(f, name='generate'):
            kws = dict((k.arg, exf.term(k.value)) for k in c.keywords)
            wv = kws.get('with_values')
            if wv is None:
                continue
            ok = wv[0] == 'comp' and wv[1] == 'dict' and \
                match(wv[3][0][0], pattern('self.sums')) is not None
            ctx.check(ok, f, 'recomputation is given every summary by name',
                      '{s: samples[s][:n] for s in self.sums}',
                      'the distance is not recomputed from all summaries in self.sums', fn=f,
                      node=c)


@obligation('C12-h', 'T14', 'the batched moment update preserves (count, mean, sum of squared '
            'deviations) exactly, so the scale is the population standard deviation of all rows '
            'however they were batched', floor=4,
            necessary='if the recurrence does not map the invariant state of the rows seen so far '
                      'to the invariant state of all rows, the scale depends on the batch split')
def c12_h(ctx):
    from .. import sumalg as sa_
    from ..ratfun import Rat, Unsupported, DividesByZero
    sa_.selfcheck()
    ctx.fact('induction over batches: state (N, s1/N, s2 - s1^2/N) for the rows seen; one '
             'column is considered (all reductions are along axis 0, columns are independent)')
    ad = ctx.cls(AD)
    add = ctx.own_method(ad, 'add_data')
    ex = ctx.ex(add)
    body = [s for s in add.node.body if not (isinstance(s, ast.Expr) and
                                             isinstance(s.value, ast.Constant))]
    S = sa_.S
    N, s1, s2 = Rat.sym('N'), Rat.sym('s1'), Rat.sym('s2')
    k = Rat.sym('n')                                  # rows in the batch

    def run(pre):
        """Abstractly execute the straight-line body from the pre-state; -> (locations, scale)"""
        loc = {}
        env = {}
        data_name = add.node.args.vararg.arg if add.node.args.vararg else add.params[1]

        def vec_leaf(t):
            return None
        store_base = [None]

        def scalar_leaf(t):
            # a state slot that has not been written yet holds its pre-state value
            if t[0] == 'sub' and t[2][0] == 'const' and t[2][1] in pre and \
                    contains(t[1], "self.state['store']") and t[1][0] == 'sub':
                return pre[t[2][1]]
            return None
        cv = sa_.Conv(vec_leaf, scalar_leaf=scalar_leaf)
        cv.env.append(env)

        def ev(e):
            t = ex.raw(e)
            return cv.conv(t)

        def loc_key(target):
            return ex.raw(target)
        scale = None
        for s in body:
            if isinstance(s, ast.Assign) and len(s.targets) == 1 and \
                    isinstance(s.targets[0], ast.Name):
                name = s.targets[0].id
                t = ex.raw(s.value)
                if t[0] == 'call' and t[1] == ('global', 'numpy.column_stack'):
                    env[('name', name)] = sa_.Vec.sym('d')
                    env[('param', name)] = sa_.Vec.sym('d')
                else:
                    env[('name', name)] = cv.conv(t)
            elif isinstance(s, ast.AugAssign) and isinstance(s.target, ast.Subscript):
                key = loc_key(s.target)
                if key not in env:
                    idx = key[2]
                    if not (idx[0] == 'const' and idx[1] in pre):
                        raise Unsupported('unknown location ' + show(key))
                    env[key] = pre[idx[1]]
                cur = env[key]
                val = cv.conv(ex.raw(s.value))
                if isinstance(val, sa_.Vec) or isinstance(cur, sa_.Vec):
                    raise Unsupported('vector stored in the state')
                if isinstance(s.op, ast.Add):
                    env[key] = cur + val
                elif isinstance(s.op, ast.Sub):
                    env[key] = cur - val
                else:
                    raise Unsupported('augmented operator')
                if key[2][0] == 'const':
                    loc[key[2][1]] = env[key]
            elif isinstance(s, ast.Assign) and isinstance(s.targets[0], ast.Subscript):
                t = ex.raw(s.value)
                if t[0] == 'call' and t[1] == ('global', 'numpy.sqrt') and len(t[2]) == 1:
                    scale = cv.conv(t[2][0])
                else:
                    raise Unsupported('unexpected store ' + src(s))
            elif isinstance(s, ast.Pass) or (isinstance(s, ast.Expr) and
                                             isinstance(s.value, ast.Constant)):
                continue
            else:
                raise Unsupported('statement ' + src(s)[:40])
        # np.sum must reduce along the rows
        for c in ctx.calls(add, 'np.sum(*_)'):
            kw = dict((q.arg, q.value) for q in c.keywords)
            if not ('axis' in kw and isinstance(kw['axis'], ast.Constant) and
                    kw['axis'].value == 0):
                raise Unsupported('np.sum not along axis 0')
        # unread locations keep their pre-state
        for i in pre:
            loc.setdefault(i, pre[i])
        return loc, scale
    cases = [
        ('inductive step', {0: N, 1: s1 / N, 2: s2 - s1 * s1 / N},
         (N + k, (s1 + S(d=1)) / (N + k),
          (s2 + S(d=2)) - (s1 + S(d=1)) * (s1 + S(d=1)) / (N + k))),
        ('first batch after a reset', {0: Rat.const(0), 1: Rat.const(0), 2: Rat.const(0)},
         (k, S(d=1) / k, S(d=2) - S(d=1) * S(d=1) / k)),
    ]
    for (label, pre, want) in cases:
        try:
            loc, scale = run(pre)
        except DividesByZero:
            ctx.check(False, add, 'moment update: ' + label, '', 'the update divides by a '
                      'quantity that is identically zero ({})'.format(label), fn=add,
                      node=add.node)
            continue
        except Unsupported as e:
            ctx.undecided('add_data outside the straight-line sum fragment: {}'.format(e))
        names = ('count', 'mean', 'sum of squared deviations')
        for i in (0, 1, 2):
            ctx.check(loc[i].same(want[i]), add, '{}: {} of all rows'.format(label, names[i]),
                      str(want[i])[:80],
                      '{}: after the update the stored {} is {} instead of {}'.format(
                          label, names[i], loc[i], want[i]), fn=add, node=add.node)
        ok = scale is not None and scale.same(want[2] / want[0])
        ctx.check(ok, add, '{}: scale^2 = sum of squared deviations / count'.format(label),
                  'population variance', 'the scale is not sqrt(M2 / N) (population standard '
                  'deviation)', fn=add, node=add.node)
    # the reset writes the zero state the base case starts from
    rst = ctx.own_method(ad, 'init_adaptation_round')
    exr = ctx.ex(rst)
    zeros = set()
    for s in own_nodes(rst.node):
        if isinstance(s, ast.Assign) and isinstance(s.targets[0], ast.Subscript) and \
                exr.raw(s.value) == ('const', 0):
            key = exr.raw(s.targets[0])
            if key[2][0] == 'const':
                zeros.add(key[2][1])
    ctx.check(zeros >= {0, 1, 2}, rst, 'reset state = (0, 0, 0)', '',
              'the adaptation round does not start from count = mean = M2 = 0', fn=rst,
              node=rst.node)


@obligation('C12-i', 'T2', 'the adaptive scale and the distances contain no absolute tolerance',
            floor=4,
            necessary='the scale is the population standard deviation for all data: a special case '
                      'for spreads below an absolute number (np.isclose(scale, 0)) replaces the '
                      'scale of a summary measured in small units by another number')
def c12_i(ctx):
    from .base import scale_free_sweep
    fns = []
    for q in ('elfi.model.elfi_model:AdaptiveDistance', 'elfi.model.elfi_model:Distance'):
        fns += [m for m in ctx.cls(q).methods.values()]
    fns.append(ctx.fn('elfi.model.utils:distance_as_discrepancy'))
    scale_free_sweep(ctx, fns, 'a summary whose spread is below the tolerance gets another scale '
                               'than its standard deviation')


@obligation('C12-j', 'T2', 'no result buffer takes the dtype of a caller\'s array and then receives '
            'computed values (shared sweep of C08-l, restricted to the modules this property is '
            'anchored in; `*_like(x)` and `dtype=x.dtype` allocations)', floor=1,
            necessary='distances and scales are stored as computed (numpy truncates floats silently when they are assigned into an '
                      'integer array)')
def c12_dtype(ctx):
    from .base import inherited_dtype_obligation
    inherited_dtype_obligation(ctx, ['elfi.model.elfi_model', 'elfi.model.utils'])
