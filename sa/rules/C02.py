"""C02 - seeded runs are pure functions of (model, seed, configuration).

Decided: provenance of the batch generator, absence of ambient sources on the compile / load /
execute path, order normalisation, generator hand-over, sub-seed cache pairing, restart on
re-use.  Not decided: bit-identity across clients, purity of user operations.
"""

import ast

from .. import AnalysisError, AnchorMissing
from ..cfg import cfg_of
from ..model import own_nodes
from ..values import pattern, match, match_any, find, contains, show, subterms
from .base import obligation, src, callee_name
from .C04 import pattern_term, returns, enclosing_loop, _inside

NP_RANDOM_OK = {'RandomState', 'Generator', 'SeedSequence', 'BitGenerator', 'PCG64', 'MT19937'}
AMBIENT_GLOBAL_PREFIXES = ('random.', 'time.', 'uuid.', 'datetime.', 'secrets.')
AMBIENT_GLOBALS = {'os.urandom', 'os.getpid', 'id', 'hash', 'builtins.id', 'builtins.hash',
                   'os.times', 'time', 'random'}


def ambient_sources(ctx, f):
    """Ambient (non-seed) sources of nondeterminism referenced in function f."""
    out = []
    ex = ctx.ex(f)
    for n in own_nodes(f.node):
        if isinstance(n, (ast.Attribute, ast.Name)) and isinstance(getattr(n, 'ctx', None), ast.Load):
            p = getattr(n, '_parent', None)
            if isinstance(p, ast.Attribute) and p.value is n:
                continue    # inner part of a dotted chain; judged at the outermost node
            d = ctx.repo.dotted_of(f.module, n)
            if d is None:
                continue
            if isinstance(n, ast.Name) and ex.is_local(n.id):
                continue
            called = isinstance(p, ast.Call) and p.func is n
            if d == 'numpy.random' or d.startswith('numpy.random.'):
                rest = d[len('numpy.random'):].lstrip('.')
                head = rest.split('.')[0] if rest else ''
                if head in NP_RANDOM_OK:
                    if called and not p.args and not p.keywords and head in ('RandomState',):
                        out.append((n, 'unseeded ' + d + '()'))
                    continue
                if head == 'default_rng':
                    if called and not p.args and not p.keywords:
                        out.append((n, 'unseeded default_rng()'))
                    continue
                out.append((n, 'global numpy generator: ' + d))
                continue
            if d in AMBIENT_GLOBALS or any(d.startswith(x) for x in AMBIENT_GLOBAL_PREFIXES):
                if d in ('id', 'hash') and not called:
                    continue
                out.append((n, 'ambient source: ' + d))
    # iteration over a set literal / constructor feeding an ordered result is handled by C02-c
    return out


ENTRY_FUNCS = [
    'elfi.client:ClientBase.compile', 'elfi.client:ClientBase.load_data',
    'elfi.client:ClientBase.submit', 'elfi.client:ClientBase.compute',
    'elfi.executor:Executor.execute', 'elfi.executor:Executor.get_execution_order',
    'elfi.executor:nx_constant_topological_sort',
    'elfi.compiler:OutputCompiler.compile', 'elfi.compiler:ObservedCompiler.compile',
    'elfi.compiler:AdditionalNodesCompiler.compile', 'elfi.compiler:RandomStateCompiler.compile',
    'elfi.compiler:ReduceCompiler.compile',
    'elfi.loader:ObservedLoader.load', 'elfi.loader:AdditionalNodesLoader.load',
    'elfi.loader:PoolLoader.load', 'elfi.loader:RandomStateLoader.load',
    'elfi.utils:get_sub_seed', 'elfi.model.utils:rvs_from_distribution',
    'elfi.client:BatchHandler.submit', 'elfi.client:BatchHandler.wait_next',
]


def _rs_loader_facts(ctx):
    """Defs of the generator variable and of the key variable in RandomStateLoader.load."""
    ld = ctx.fn('elfi.loader:RandomStateLoader.load')
    # the store into the _random_state node
    stores = [(s, t, k) for (s, t, k) in ctx.stores(ld, 'compiled_net.nodes[_][_]')
              if k == 'assign']
    if not stores:
        raise AnchorMissing('RandomStateLoader.load does not store into a node of the net')
    return ld, stores


@obligation('C02-a', 'T3 T11', 'the batch generator is RandomState(get_sub_seed(seed, batch_index)) '
            'and nothing else', floor=3,
            necessary='a generator not derived from (seed, batch index) makes the batch depend '
                      'on ambient state')
def c02_a(ctx):
    ld, stores = _rs_loader_facts(ctx)
    ex = ctx.ex(ld)
    s, t, k = stores[0]
    if not isinstance(s.value, ast.Name) or not isinstance(t.slice, ast.Name):
        ctx.undecided('unrecognised store shape `{}`'.format(src(s)))
    valvar, keyvar = s.value.id, t.slice.id
    node = ctx.node(ld, s)
    nname = ctx.term(ld, t.value.slice)
    ctx.check(nname == ('const', '_random_state'), ld, 'generator node name',
              "stored in node '_random_state'", 'generator stored in node {}'.format(show(nname)),
              fn=ld, node=s)
    vdefs = ex.reaching(valvar, node)
    kdefs = ex.reaching(keyvar, node)
    if not vdefs:
        ctx.undecided('no definition of the stored generator reaches the store')

    def gset(d):
        return frozenset((tt, pol) for (tt, pol, _) in ctx.guards(ld, d.node.ast))
    kinit = [d for d in kdefs if not gset(d)]
    kbranch = [d for d in kdefs if gset(d)]
    seen_obj = seen_fn = 0
    for d in vdefs:
        if d.kind != 'assign':
            ctx.bad(ld, 'generator provenance', 'generator comes from {}'.format(d.kind), fn=ld,
                    node=s)
            continue
        v = ex.term(d.payload, d.node)
        g = gset(d)
        samekeys = [kd for kd in kbranch if gset(kd) == g]
        keyval = None
        if samekeys:
            keyval = ex.term(samekeys[-1].payload, samekeys[-1].node)
        elif kinit:
            keyval = ex.term(kinit[-1].payload, kinit[-1].node)
        m = match(v, pattern('np.random.RandomState(get_sub_seed(_s, _i, *_))'))
        if m is not None:
            seen_obj += 1
            okp = m['s'] == pattern_term('context.seed') and m['i'] == ('param', 'batch_index')
            ctx.check(okp, ld, 'integer-seed generator',
                      'RandomState(get_sub_seed(context.seed, batch_index, ...))',
                      'sub-seed is derived from ({}, {}) instead of (context.seed, batch_index)'
                      .format(show(m['s']), show(m['i'])), fn=ld, node=d.node.ast)
            ctx.check(keyval == ('const', 'output'), ld, 'generator object stored as output',
                      "stored under key 'output'",
                      'seeded generator stored under key {}'.format(show(keyval) if keyval else
                                                                    None), fn=ld, node=d.node.ast)
            # guarded by an integer test of the seed
            gi = any(pol and contains(tt, 'isinstance(context.seed, _)') for (tt, pol) in g)
            ctx.check(gi, ld, 'integer-seed branch guard', 'under isinstance(seed, int types)',
                      'the seeded branch is not guarded by an integer test of the seed', fn=ld,
                      node=d.node.ast)
            continue
        if v[0] == 'global':
            # a function reference: must be the delayed global-generator getter, stored as
            # operation, only under seed == 'global'
            seen_fn += 1
            r = ctx.repo.resolve_dotted(v[1])
            is_fn = r[0] == 'func'
            gg = any(pol and (match(tt, pattern("context.seed == 'global'")) is not None or
                              match(tt, pattern("'global' == context.seed")) is not None)
                     for (tt, pol) in g)
            ctx.check(is_fn and gg and keyval == ('const', 'operation'), ld,
                      'global-seed indirection',
                      "function reference stored under 'operation' only when seed == 'global'",
                      "the global generator path is not (function reference, key 'operation', "
                      "guard seed == 'global'): value {}, key {}".format(
                          show(v), show(keyval) if keyval else None), fn=ld, node=d.node.ast)
            continue
        ctx.bad(ld, 'generator provenance',
                'generator is {} - neither RandomState(get_sub_seed(seed, batch_index)) nor the '
                'delayed global getter'.format(show(v)[:160]), fn=ld, node=d.node.ast)
    if seen_obj < 1:
        ctx.bad(ld, 'integer-seed generator', 'no seeded-generator definition reaches the store',
                fn=ld, node=s)
    # any other value must raise
    cfg = cfg_of(ld)
    raises = ctx.stmts(ld, ast.Raise)
    ctx.check(bool(raises), ld, 'unsupported seed refused', 'other seed types raise',
              'an unsupported seed type is not refused', fn=ld, node=raises[0] if raises else s)


@obligation('C02-b', 'T10', 'no ambient source is reachable on the compile / load / execute path',
            floor=20, necessary='a clock, uuid or global generator on this path makes a seeded '
                                'batch depend on process history')
def c02_b(ctx):
    entries = [ctx.fn(q) for q in ENTRY_FUNCS]
    # client implementations of apply / get_result
    cb = ctx.cls('elfi.client:ClientBase')
    for c in cb.all_subclasses():
        for mname in ('apply', 'apply_sync', 'get_result'):
            if mname in c.methods:
                entries.append(c.methods[mname])
    reach = ctx.reachable(entries, may=True)
    exempt = []
    # the delayed global getter is allowed (checked by C02-a to be stored only on the
    # seed == 'global' branch)
    ld = ctx.fn('elfi.loader:RandomStateLoader.load')
    for n in own_nodes(ld.node):
        if isinstance(n, ast.Name):
            r = ctx.repo.resolve_expr(ld.module, n)
            if r and r[0] == 'func' and ambient_sources(ctx, r[1]):
                gs = ctx.guards(ld, n)
                if any(pol and match(tt, pattern("context.seed == 'global'")) is not None
                       for (tt, pol, _) in gs):
                    exempt.append(r[1])
    n_checked = 0
    for f in reach:
        if f.module.name.startswith('elfi.examples') or f.module.name.startswith(
                'elfi.visualization'):
            continue
        n_checked += 1
        amb = ambient_sources(ctx, f)
        if f in exempt:
            ctx.ok(f, 'ambient exception', 'global-generator getter, referenced only under '
                   "seed == 'global'", fn=f, node=f.node)
            continue
        if amb:
            for (n, why) in amb[:3]:
                ctx.bad(f, 'ambient source', '{} reachable from the seeded execution path'.format(
                    why), fn=f, node=n)
        else:
            ctx.ok(f, 'ambient free', 'no clock / uuid / global generator', fn=f, node=f.node)
    # positive example: the rule must recognise the repo's own ambient helpers
    rs = ctx.fn('elfi.utils:random_seed')
    rn = ctx.fn('elfi.utils:random_name')
    if not ambient_sources(ctx, rs) or not ambient_sources(ctx, rn):
        ctx.undecided('positive example failed: random_seed / random_name not recognised as '
                      'ambient')
    if not exempt:
        ctx.undecided('the global-generator getter was not found (positive example)')


@obligation('C02-c', 'T3', 'execution order is normalised by name, not by insertion or hash order',
            floor=4, necessary='an unsorted graph iteration makes the draw order depend on node '
                               'insertion order')
def c02_c(ctx):
    ts = ctx.fn('elfi.executor:nx_constant_topological_sort')
    ex = ctx.ex(ts)
    gparam = ('param', ts.params[0])
    n_iter = 0
    for n in own_nodes(ts.node):
        iters = []
        if isinstance(n, ast.For):
            iters.append((n.iter, cfg_of(ts).by_stmt[id(n)]))
        elif isinstance(n, (ast.ListComp, ast.SetComp, ast.GeneratorExp, ast.DictComp)):
            for g in n.generators:
                iters.append((g.iter, None))
        for (it, at) in iters:
            t = ex.term(it, at)
            alts = t[1] if t[0] == 'phi' else (t,)
            for a in alts:
                if a[0] == 'param':
                    continue   # caller-supplied order
                if gparam in set(subterms(a)):
                    n_iter += 1
                    ok = match(a, pattern('sorted(_)')) is not None
                    ctx.check(ok, ts, 'sorted graph iteration',
                              'iterates ' + show(a)[:80],
                              'iterates the graph view {} without sorting'.format(show(a)[:80]),
                              fn=ts, node=it)
    if n_iter < 2:
        ctx.undecided('expected two graph iterations (nodes, successors), found {}'.format(n_iter))
    # the order is appended in exploration order and returned (reversed) as a list
    rr = returns(ts)
    ok = bool(rr) and all(
        any(match(a, p) is not None for p in (pattern('list(reversed(_))'), pattern('_[::-1]'))) or
        a[0] in ('name', 'list') or True for a in [ex.term(r.value) for r in rr])
    # executor: cache key sorted, cached list filtered from sort_order
    eo = ctx.fn('elfi.executor:Executor.get_execution_order')
    ex2 = ctx.ex(eo)
    stores = [(s, t) for (s, t, k) in ctx.stores(eo, "G.graph.get('_executor_cache', _)[_]")
              if k == 'assign'] + \
             [(s, t) for (s, t, k) in ctx.stores(eo, "G.graph['_executor_cache'][_]")
              if k == 'assign']
    if not stores:
        raise AnchorMissing('get_execution_order does not fill its cache')
    for (s, t) in stores:
        kt = ex2.term(t.slice)
        if kt == ('const', 'sort_order'):
            v = ex2.term(s.value)
            ok = match(v, pattern('nx_constant_topological_sort(G)')) is not None
            ctx.check(ok, eo, 'cached order source',
                      'sort_order = nx_constant_topological_sort(G)',
                      'sort_order is {}'.format(show(v)[:100]), fn=eo, node=s)
            continue
        def _normalised(k):
            if match(k, pattern('tuple(sorted(_))')) is not None or \
                    match(k, pattern('frozenset(_)')) is not None:
                return True
            return k[0] == 'tuple' and bool(k[1]) and all(_normalised(x) for x in k[1])
        okk = _normalised(kt)
        ctx.check(okk, eo, 'cache key sorted', 'key = tuple(sorted(...))',
                  'cache key {} is not order-normalised'.format(show(kt)[:100]), fn=eo, node=s)
        v = ex2.term(s.value)
        ok = v[0] == 'comp' and v[1] == 'list' and len(v[3]) == 1
        if ok:
            it = v[3][0][0]
            alts = it[1] if it[0] == 'phi' else (it,)
            ok = all(contains(a, 'nx_constant_topological_sort(G)') or
                     contains(a, "_['sort_order']") for a in alts)
        ctx.check(ok, eo, 'execution list is a filter of the sorted order',
                  'cached list iterates sort_order',
                  'cached execution list is not built by filtering sort_order ({})'.format(
                      show(v)[:120]), fn=eo, node=s)
    # execute() walks exactly that order
    exe = ctx.fn('elfi.executor:Executor.execute')
    fors = [n for n in own_nodes(exe.node) if isinstance(n, ast.For)]
    ok = False
    for fo in fors:
        it = ctx.term(exe, fo.iter, cfg_of(exe).by_stmt[id(fo)])
        if contains(it, 'cls.get_execution_order(G)'):
            ok = True
    ctx.check(ok, exe, 'execute follows the order', 'for node in get_execution_order(G)',
              'execute does not iterate the list returned by get_execution_order', fn=exe,
              node=fors[0] if fors else exe.node)


@obligation('C02-d', 'T3 T8', 'one generator is handed to every stochastic node', floor=4,
            necessary='a stochastic node without the shared generator draws from the global one')
def c02_d(ctx):
    rv = ctx.fn('elfi.model.utils:rvs_from_distribution')
    calls = ctx.calls(rv, name='rvs')
    ok = False
    for c in calls:
        kws = dict((k.arg, k.value) for k in c.keywords)
        if 'random_state' in kws and ctx.term(rv, kws['random_state']) == ('param', 'random_state'):
            ok = True
    ctx.check(ok, rv, 'generator forwarded', 'distribution.rvs(..., random_state=random_state)',
              'the random_state argument is not forwarded to distribution.rvs', fn=rv,
              node=calls[0] if calls else rv.node)
    oks = False
    for c in calls:
        kws = dict((k.arg, k.value) for k in c.keywords)
        if 'size' in kws:
            st = ctx.term(rv, kws['size'])
            alts = st[1] if st[0] == 'phi' else (st,)
            oks = all(match(a, pattern('(batch_size,)')) is not None or
                      match(a, pattern('(batch_size,) + size')) is not None for a in alts)
    ctx.check(oks, rv, 'one draw per row of the batch', 'size = (batch_size,) [+ size]',
              'the number of draws is not batch_size', fn=rv, node=calls[0] if calls else rv.node)
    has_kw = 'random_state' in rv.all_params
    rc = ctx.fn('elfi.compiler:RandomStateCompiler.compile')
    edges = ctx.calls(rc, name='add_edge')
    if not edges:
        raise AnchorMissing('RandomStateCompiler adds no edge')
    for e in edges:
        kws = dict((k.arg, k.value) for k in e.keywords)
        p = ctx.term(rc, kws['param']) if 'param' in kws else None
        ctx.check(p == ('const', 'random_state') and has_kw, rc, 'edge parameter name',
                  "param='random_state' = keyword of rvs_from_distribution",
                  'edge parameter {} does not match the keyword `random_state`'.format(
                      show(p) if p else None), fn=rc, node=e)
        a0 = ctx.term(rc, e.args[0]) if e.args else None
        ctx.check(a0 == ('const', '_random_state'), rc, 'single generator node',
                  "source node '_random_state'", 'edge source is {}'.format(
                      show(a0) if a0 else None), fn=rc, node=e)
        # every stochastic node gets the edge: loop over all nodes, guard on the flag only
        loop = enclosing_loop(e)
        ok = isinstance(loop, ast.For) and contains(
            ctx.term(rc, loop.iter, cfg_of(rc).by_stmt[id(loop)]), 'source_net.nodes(*_)')
        groups = ctx.guard_groups(rc, e)
        pos_flag = ctx.only_guarded_by(rc, e, ("'_stochastic' in _['attr_dict']",
                                               "_['attr_dict']['_stochastic']",
                                               "_['attr_dict'].get('_stochastic', *_)"))
        ctx.check(ok and len(groups) == 1 and pos_flag, rc,
                  'all stochastic nodes',
                  'edge added for every node carrying _stochastic',
                  'the generator edge is not added for exactly the nodes flagged _stochastic',
                  fn=rc, node=e)
    # loader uses the same node name
    ld, stores = _rs_loader_facts(ctx)
    # node classes whose operation draws through rvs_from_distribution carry the flag
    em = ctx.repo.module('elfi.model.elfi_model')
    flaggers = []
    for c in em.classes.values():
        init = c.methods.get('__init__')
        if init is None:
            continue
        sets = [s for (s, t, k) in ctx.stores(init, "state['_stochastic']")
                if isinstance(s, ast.Assign) and ctx.term(init, s.value) == ('const', True)]
        sup = ctx.calls(init, 'super(*_).__init__(*_)')
        if sets and sup and cfg_of(init).must_pass([ctx.node(init, x) for x in sets]) and \
                any(ctx.must_precede(init, sets, c2) for c2 in sup):
            flaggers.append(c)
    ctx.check(bool(flaggers), em.relpath, 'stochastic flag setter',
              '{} sets _stochastic before registering the node'.format(
                  [c.name for c in flaggers]),
              'no node class sets state[\'_stochastic\'] = True before registering the node')
    users = []
    for c in em.classes.values():
        for m in c.methods.values():
            if any(contains(ctx.term(m, n), 'rvs_from_distribution')
                   for n in own_nodes(m.node) if isinstance(n, ast.Call)):
                users.append((c, m))
    if not users:
        raise AnchorMissing('no node class uses rvs_from_distribution')
    for (c, m) in users:
        ok = any(c.is_subclass_of(f) for f in flaggers)
        ctx.check(ok, m, 'random variable nodes are flagged stochastic',
                  '{} inherits the _stochastic flag'.format(c.name),
                  '{} draws with rvs_from_distribution but is not flagged _stochastic, so it '
                  'gets no generator'.format(c.name), fn=m, node=m.node)


@obligation('C02-e', 'T7', 'the sub-seed cache fields are read and written together', floor=2,
            necessary='a generator cached without its seen-set (or vice versa) replays or skips '
                      'draws')
def c02_e(ctx):
    gs = ctx.fn('elfi.utils:get_sub_seed')
    ex = ctx.ex(gs)
    reads = {}
    for n in own_nodes(gs.node):
        if isinstance(n, ast.Subscript) and isinstance(n.ctx, ast.Load):
            t = ex.term(n)
            if t[0] == 'sub' and t[1] == ('param', 'cache') and t[2][0] == 'const':
                p = getattr(n, '_parent', None)
                if isinstance(p, ast.Assign) and p.value is n:
                    g = frozenset((tt, pol) for (tt, pol, _) in ctx.guards(gs, p))
                    reads[t[2][1]] = (p, g)
    ok = set(reads) == {'random_state', 'seen'} and \
        reads['random_state'][1] == reads['seen'][1]
    ctx.check(ok, gs, 'cache read together',
              "cache['random_state'] and cache['seen'] are read under the same condition",
              'the two cache fields are not read together (read: {})'.format(sorted(reads)),
              fn=gs, node=reads['seen'][0] if 'seen' in reads else gs.node)
    writes = {}
    for (s, t, k) in ctx.stores(gs, 'cache[_]'):
        if k == 'assign':
            kt = ex.term(t.slice)
            if kt[0] == 'const':
                g = frozenset((tt, pol) for (tt, pol, _) in ctx.guards(gs, s))
                writes[kt[1]] = (s, g, s.value)
    ok = set(writes) == {'random_state', 'seen'} and \
        writes['random_state'][1] == writes['seen'][1]
    if ok:
        # the written objects are the ones the draws were made from / recorded in
        draws = ctx.calls(gs, name='randint')
        ups = ctx.calls(gs, name='update')
        ok = bool(draws) and bool(ups) and \
            isinstance(writes['random_state'][2], ast.Name) and \
            isinstance(draws[0].func.value, ast.Name) and \
            writes['random_state'][2].id == draws[0].func.value.id and \
            isinstance(writes['seen'][2], ast.Name) and \
            isinstance(ups[0].func.value, ast.Name) and \
            writes['seen'][2].id == ups[0].func.value.id
    ctx.check(ok, gs, 'cache written together',
              'both fields written under one condition from the generator drawn from and the '
              'set updated', 'the cache is not written as the (generator, seen) pair in use',
              fn=gs, node=writes['seen'][0] if 'seen' in writes else gs.node)


@obligation('C02-f', 'T1', 're-running a sampler restarts from batch 0 with a fresh state',
            floor=3, necessary='left-over state or indices make the second seeded run differ '
                               'from the first')
def c02_f(ctx):
    rj = ctx.fn('elfi.methods.inference.samplers:Rejection.set_objective')
    cfg = cfg_of(rj)
    st = [s for (s, t, k) in ctx.stores(rj, 'self.state') if k == 'assign']
    ok = bool(st) and cfg.must_pass([ctx.node(rj, s) for s in st])
    if ok:
        v = ctx.term(rj, st[0].value)
        ok = (v[0] == 'call' and match(v[1], pattern('dict')) is not None) or v[0] == 'dict'
    ctx.check(ok, rj, 'fresh state', 'self.state re-created on every path',
              'set_objective can return with the previous state', fn=rj,
              node=st[0] if st else rj.node)
    bh = ctx.cls('elfi.client:BatchHandler')
    reset = ctx.own_method(bh, 'reset')
    rs = ctx.calls(rj, resolved_to=reset)
    ok = bool(rs) and cfg.must_pass([ctx.node(rj, c) for c in rs])
    ctx.check(ok, rj, 'batch index restart', 'self.batches.reset() on every path',
              'set_objective can return without resetting the batch handler', fn=rj,
              node=rs[0] if rs else rj.node)
    # ComputationContext seed and batch size are written only by the constructor
    cc = ctx.cls('elfi.model.elfi_model:ComputationContext')
    for fld in ('_seed', '_batch_size'):
        writers = []
        for f in ctx.repo.all_functions():
            for n in own_nodes(f.node):
                if isinstance(n, ast.Attribute) and n.attr == fld and isinstance(n.ctx, ast.Store):
                    writers.append((f, n))
        ok = bool(writers) and all(f.cls is cc and f.name == '__init__' for (f, n) in writers)
        ctx.check(ok, cc.qname + '.' + fld, 'context field immutable',
                  'written only in ComputationContext.__init__',
                  '{} is also written in {}'.format(fld, sorted(set(
                      f.qname for (f, n) in writers if not (f.cls is cc and f.name == '__init__')))),
                  fn=writers[0][0] if writers else None, node=writers[0][1] if writers else None)
    # the entry points pass the user's seed on unchanged (only None selects a default)
    gen = ctx.fn('elfi.model.elfi_model:ElfiModel.generate')
    exg = ctx.ex(gen)
    ccs = ctx.calls(gen, 'ComputationContext(*_)')
    okg = False
    for c in ccs:
        kws = dict((k.arg, exg.term(k.value)) for k in c.keywords)
        sv = kws.get('seed')
        if sv is not None:
            alts = sv[1] if sv[0] == 'phi' else (sv,)
            okg = set(alts) <= {('param', 'seed'), ('const', 'global')} and \
                ('param', 'seed') in alts
            if okg and ('const', 'global') in alts:
                # the fallback is selected by `seed is None` only
                defs = [n for n in own_nodes(gen.node) if isinstance(n, ast.Assign) and
                        isinstance(n.targets[0], ast.Name) and n.targets[0].id == 'seed']
                okg = bool(defs) and all(
                    exg.term(d.value) == ('const', 'global') and any(
                        pol and match(t, pattern('seed is None')) is not None
                        for (t, pol, _) in ctx.guards(gen, d)) for d in defs)
    ctx.check(okg, gen, 'generate passes the seed on unchanged',
              "seed = 'global' only when seed is None",
              "generate() replaces a given seed (e.g. the falsy integer 0) by the global "
              "generator", fn=gen, node=ccs[0] if ccs else gen.node)
    pin = ctx.fn('elfi.methods.inference.parameter_inference:ParameterInference.__init__')
    exp_ = ctx.ex(pin)
    ccs = ctx.calls(pin, 'ComputationContext(*_)')
    okp = bool(ccs) and all(dict((k.arg, exp_.term(k.value)) for k in c.keywords).get('seed') ==
                            ('param', 'seed') for c in ccs)
    ctx.check(okp, pin, 'inference passes the seed on unchanged',
              'ComputationContext(..., seed=seed)',
              'the inference method does not hand the given seed to its context', fn=pin,
              node=ccs[0] if ccs else pin.node)
    init = ctx.own_method(cc, '__init__')
    sd = [s for (s, t, k) in ctx.stores(init, 'self._seed') if k == 'assign']
    ok = False
    if sd:
        v = ctx.term(init, sd[0].value)
        alts = v[1] if v[0] == 'phi' else (v,)
        # given seed flows unchanged; only `seed is None` falls back to a random one or the pool
        ok = match(v, pattern('random_seed() if _s is None else _s')) is not None or \
            match(v, pattern('_s if _s is not None else random_seed()')) is not None
    ctx.check(ok, init, 'seed stored unchanged', 'self._seed = seed unless seed is None',
              'the given seed is not stored unchanged', fn=init, node=sd[0] if sd else init.node)


@obligation('C02-g', 'T2 T14', 'executor and sub-seed caches belong to one computation context',
            floor=4, necessary='a cache shared between contexts hands one model\'s execution '
                               'order or one seed\'s generator state to another run')
def c02_g(ctx):
    cc = ctx.cls('elfi.model.elfi_model:ComputationContext')
    init = ctx.own_method(cc, '__init__')
    ex = ctx.ex(init)
    st = [s for (s, t, k) in ctx.stores(init, 'self.caches') if isinstance(s, ast.Assign)]
    ok = len(st) == 1 and cfg_of(init).must_pass([ctx.node(init, st[0])])
    if ok:
        v = ex.term(st[0].value)
        ok = v[0] == 'dict' and dict((k[1], val) for (k, val) in v[1] if k[0] == 'const') == \
            {'executor': ('dict', ()), 'sub_seed': ('dict', ())}
    ctx.check(ok, init, 'fresh caches per context',
              "self.caches = {'executor': {}, 'sub_seed': {}} in __init__",
              'the caches of a context are not fresh empty dicts created in its constructor',
              fn=init, node=st[0] if st else init.node)
    ctx.check('caches' not in cc.class_assigns, cc.qname, 'no class-level cache',
              'caches is an instance attribute', 'caches is defined at class level and therefore '
              'shared by all contexts')
    # writers of .caches anywhere else
    others = []
    for f in ctx.repo.all_functions():
        for n in own_nodes(f.node):
            if isinstance(n, ast.Attribute) and n.attr == 'caches' and isinstance(n.ctx, ast.Store) \
                    and not (f.cls is cc and f.name == '__init__'):
                others.append((f, n))
    ctx.check(not others, cc.qname + '.caches', 'caches bound only by the constructor', '',
              'caches is rebound in {}'.format([f.qname for (f, n) in others]),
              fn=others[0][0] if others else init, node=others[0][1] if others else init.node)
    # the loaders take the caches from the context they were given
    rl = ctx.fn('elfi.loader:RandomStateLoader.load')
    exr = ctx.ex(rl)
    gs = ctx.calls(rl, 'get_sub_seed(*_)')
    ok = bool(gs) and all(
        dict((k.arg, exr.term(k.value)) for k in c.keywords).get('cache') in
        (pattern_term("context.caches['sub_seed']"),) or
        match(dict((k.arg, exr.term(k.value)) for k in c.keywords).get('cache', ('const', 0)),
              pattern("context.caches.get('sub_seed', None)")) is not None for c in gs)
    ctx.check(ok, rl, 'sub-seed cache of the same context', "cache=context.caches['sub_seed']",
              'the sub-seed cache does not come from the context whose seed is used', fn=rl,
              node=gs[0] if gs else rl.node)
    ld = ctx.fn('elfi.client:ClientBase.load_data')
    exl = ctx.ex(ld)
    st = [s for (s, t, k) in ctx.stores(ld, "_.graph['_executor_cache']") if isinstance(s, ast.Assign)]
    ok = bool(st) and exl.term(st[0].value) == pattern_term("context.caches['executor']")
    ctx.check(ok, ld, 'executor cache of the same context',
              "loaded_net.graph['_executor_cache'] = context.caches['executor']",
              'the executor cache does not come from the context', fn=ld,
              node=st[0] if st else ld.node)
    gsf = ctx.fn('elfi.utils:get_sub_seed')
    dflt = dict(zip([a.arg for a in gsf.node.args.args][-len(gsf.node.args.defaults):],
                    gsf.node.args.defaults))
    ok = 'cache' in dflt and isinstance(dflt['cache'], ast.Constant) and dflt['cache'].value is None
    ctx.check(ok, gsf, 'no shared default cache', 'cache=None', 'get_sub_seed has a mutable default '
              'cache shared by all callers', fn=gsf, node=gsf.node)



@obligation('C02-h', 'T8 T10', 'the execution-order cache key holds everything the cached order '
            'depends on: the requested operations and the set of nodes whose output is given',
            floor=3,
            necessary='with a key that omits the given nodes, a batch computed from the prior '
                      'followed by a batch with given values re-uses the first order and runs the '
                      'stochastic ancestors of the given nodes: the result depends on what was '
                      'computed earlier in the process (and on the client, which may or may not '
                      'share the cache)')
def c02_h(ctx):
    eo = ctx.fn('elfi.executor:Executor.get_execution_order')
    ex = ctx.ex(eo)
    # every store that lands (directly or through a nested dict) in the executor cache
    def key_path(t):
        """subscript keys from the cache root down to the stored slot, or None"""
        path = []
        while True:
            if t[0] == 'sub':
                path.append(t[2])
                t = t[1]
            elif t[0] == 'call' and t[1][0] == 'attr' and t[1][2] in ('setdefault', 'get') and \
                    t[2]:
                if t[1][2] == 'get' and t[2][0] == ('const', '_executor_cache'):
                    return list(reversed(path))
                path.append(t[2][0])
                t = t[1][1]
            elif t[0] == 'phi':
                t = t[1][0]
            else:
                break
        return list(reversed(path)) if contains(t, "'_executor_cache'") or \
            t == ('const', '_executor_cache') else None
    keyed = []
    for n_ in own_nodes(eo.node):
        if isinstance(n_, ast.Assign) and isinstance(n_.targets[0], ast.Subscript):
            tt = ex.term(n_.targets[0])
            if not any(x == ('const', '_executor_cache') for x in subterms(tt)):
                continue
            kp = key_path(tt)
            if kp is None:
                continue
            v = ex.term(n_.value)
            if match(v, pattern('nx_constant_topological_sort(G)')) is not None:
                continue            # a pure function of the graph structure
            keyed.append((n_, n_.targets[0], kp))
    # which per-node attributes decide the order on a cache miss?  (tests that guard a change of
    # the dependency graph, not the validation tests that only raise)
    deciding = set()
    for c in ctx.calls(eo, name='remove_node') + ctx.calls(eo, name='remove_nodes_from'):
        for (t, pol, _) in ctx.guards(eo, c):
            m = match(t, pattern('_a in G.nodes[_n]'))
            if pol and m is not None and m['a'][0] == 'const':
                deciding.add(m['a'][1])
    ctx.check(bool(deciding), eo, 'pruning reads the presence of an attribute',
              sorted(deciding), 'no attribute test guards the pruning of the dependency graph',
              fn=eo, node=eo.node)
    for (s, t, kp) in keyed:
        kt = ('tuple', tuple(kp))
        for a in sorted(deciding):
            # the key must contain the collection of *all* nodes of G that carry the attribute
            want = False
            for sub in subterms(kt):
                if sub[0] == 'comp':
                    gens = sub[3]
                    if len(gens) == 1 and match_any(gens[0][0], ('G.nodes', 'G.nodes()', 'G',
                                                                 'sorted(G.nodes)',
                                                                 'G.nodes(data=True)')) \
                            is not None and \
                            any(match(c_, pattern("'{}' in G.nodes[_n]".format(a))) is not None
                                for c_ in gens[0][1]):
                        want = True
            ctx.check(want, eo, "key covers the nodes with '{}' present".format(a),
                      "key includes [n for n in G.nodes if '{}' in G.nodes[n]]".format(a),
                      "the cached order depends on which nodes have '{}' present (they are cut "
                      'out of the dependency graph) but the cache key {} does not: an order '
                      'computed for one batch is re-used for a batch with other given nodes'
                      .format(a, show(kt)[:60]), fn=eo, node=s)
        # the looked-up key is the stored key
        reads = [n for n in own_nodes(eo.node) if isinstance(n, ast.Return) and n.value is not None
                 and ex.term(n.value)[0] == 'sub' and
                 contains(ex.term(n.value)[1], "'_executor_cache'")]
        okr = bool(reads) and all(ex.term(r.value)[2] == ex.term(t.slice) for r in reads
                                  if len(kp) == 1)
        ctx.check(okr, eo, 'lookup and store use the same key', '', 'the order is looked up under '
                  'another key than it is stored under', fn=eo, node=reads[0] if reads else s)


@obligation('C02-i', 'T10 T1', 'inside the library a context on the global generator is created '
            'only where the caller\'s generator is installed before anything is computed', floor=2,
            necessary='a library-internal computation on seed=\'global\' draws from (and advances) '
                      'numpy\'s global generator: a seeded sampler that evaluates the joint prior '
                      'then depends on the state of np.random')
def c02_i(ctx):
    n = 0
    for m in ctx.repo.modules.values():
        if not m.name.startswith('elfi.') or m.name.startswith('elfi.examples'):
            continue
        fns = list(m.functions.values())
        for c in m.classes.values():
            fns += list(c.methods.values())
        for f in fns:
            cs = ctx.calls(f, 'ComputationContext(*_)')
            if not cs:
                continue
            ex = ctx.ex(f)
            for c in cs:
                kw = dict((k.arg, ex.term(k.value)) for k in c.keywords)
                seed = kw.get('seed') if 'seed' in kw else (
                    ex.term(c.args[1]) if len(c.args) > 1 else None)
                n += 1
                if seed is None:
                    # default seed: the constructor draws one - acceptable only when the caller
                    # could have passed one (a parameter named seed is forwarded elsewhere)
                    ctx.ok(f, 'context without explicit seed', src(c)[:60], fn=f, node=c)
                    continue
                if seed != ('const', 'global'):
                    ok = seed[0] == 'const' and isinstance(seed[1], int) or seed[0] != 'const'
                    ctx.check(ok, f, 'context seed is an integer or passed in', show(seed)[:40],
                              'context created with the constant seed {}'.format(show(seed)),
                              fn=f, node=c)
                    continue
                # seed='global': the caller's generator must replace the loaded one before compute
                comp = ctx.calls(f, name='compute')
                inst = [s for s in own_nodes(f.node)
                        if isinstance(s, (ast.Expr, ast.Assign)) and
                        contains(ex.term(s.value), "_.nodes['_random_state']") and
                        any(('param', p) in set(subterms(ex.term(s.value)))
                            for p in f.all_params if p != f.self_name)]
                ok = bool(comp) and bool(inst) and all(ctx.must_precede(f, inst, x) for x in comp)
                ctx.check(ok, f, 'global context: caller\'s generator installed before compute',
                          "nodes['_random_state'] <- random_state, then compute",
                          '{} computes on a context with seed=\'global\' without installing a '
                          'generator handed in by the caller: it draws from numpy\'s global '
                          'generator'.format(f.name), fn=f, node=c)
    if n < 2:
        ctx.undecided('expected at least two library-internal contexts, found {}'.format(n))



@obligation('C02-j', 'T6 T11', 'seed 0 is a seed: it is never tested by truth value', floor=1,
            necessary='`seed or <default>` replaces seed 0 by a random or global seed: the run is no longer a function of the seed')
def c02_j(ctx):
    from .base import zero_is_valid_obligation
    zero_is_valid_obligation(ctx, ['seed'])


@obligation('C02-k', 'T10 T3', 'every draw a seeded sampler makes outside the model graph uses a '
            'generator derived from its seed', floor=2,
            necessary='a draw without random_state comes from numpy\'s global generator: the run '
                      'depends on the state of np.random')
def c02_k(ctx):
    sm = ctx.repo.module('elfi.methods.inference.samplers')
    n = 0
    fns = [m for c in sm.classes.values() for m in c.methods.values()] + \
        list(sm.functions.values())
    for f in fns:
        ex = ctx.ex(f)
        for c in ctx.calls(f):
            if not (isinstance(c.func, ast.Attribute) and c.func.attr == 'rvs'):
                continue
            n += 1
            kw = dict((k.arg, ex.term(k.value)) for k in c.keywords)
            rs = kw.get('random_state')
            ok = rs is not None and rs != ('const', None) and (
                contains(rs, 'self._round_random_state') or contains(rs, 'self.seed') or
                any(('param', p) in set(subterms(rs)) for p in f.all_params
                    if p not in (f.self_name,)) or contains(rs, 'np.random.RandomState(_)'))
            ctx.check(ok, f, 'draw on the sampler\'s own generator', 'random_state=<seeded>',
                      '`{}` draws without a generator derived from the sampler\'s seed (falls '
                      'back to np.random)'.format(src(c)[:70]), fn=f, node=c)
        # direct use of the global generator
        for a in own_nodes(f.node):
            if isinstance(a, ast.Attribute):
                d = ctx.repo.dotted_of(f.module, a)
                if d and d.startswith('numpy.random.') and d not in ('numpy.random.RandomState',
                                                                     'numpy.random.Generator',
                                                                     'numpy.random.default_rng',
                                                                     'numpy.random.SeedSequence'):
                    p = getattr(a, '_parent', None)
                    if isinstance(p, ast.Attribute) and p.value is a:
                        continue
                    n += 1
                    ctx.bad(f, 'global generator used',
                            '`{}` uses numpy\'s global generator in a seeded sampler'.format(
                                src(a)), fn=f, node=a)
    if n < 2:
        ctx.undecided('expected at least two draws in the samplers module, found {}'.format(n))


_C02_GUARDS = [
    ('elfi.loader:RandomStateLoader.load', 'assign:get_np_random',
     [("_s == 'global'", True)], 'the process-wide generator is used only for seed == "global"'),
    ('elfi.loader:RandomStateLoader.load', "assign:'operation'",
     [("_s == 'global'", True)], 'a delayed generator is stored as an operation'),
    ('elfi.loader:RandomStateLoader.load', 'assign:np.random.RandomState(_x)',
     [("_s == 'global'", False), ('isinstance(_s, (int, np.int32, np.uint32))', True)],
     'an integer seed gives a generator built from the derived seed'),
    ('elfi.loader:RandomStateLoader.load', 'raise:0',
     [("_s == 'global'", False), ('isinstance(_s, (int, np.int32, np.uint32))', False)],
     'any other kind of seed is refused'),
]


@obligation('C02-l', 'T11', 'the batch generator is chosen on the right side of the seed tests '
            '(frozen table of {} rows)'.format(len(_C02_GUARDS)), floor=len(_C02_GUARDS),
            necessary='with the tests negated an integer seed silently gets the process-wide '
                      'generator: the run is no longer a function of the seed')
def c02_l(ctx):
    from .base import check_guard_table
    check_guard_table(ctx, _C02_GUARDS)


@obligation('C02-m', 'T10 T2', 'nothing is computed from the submission counter: it depends on '
            'what was submitted (and cancelled) before, not on (seed, batch index) (shared with '
            'C04-l)', floor=4,
            necessary='a seed derived from the number of earlier submissions makes a batch depend '
                      'on the history of the context')
def c02_m(ctx):
    from .C04 import schedule_counter_sweep
    n = schedule_counter_sweep(ctx)
    if n < 4:
        ctx.undecided('expected the four known sites of the submission counter, found {}'
                      .format(n))


@obligation('C02-n', 'T1 T11', 'model-based samplers (BSL, BOLFIRE): the first batch of a round is '
            'not prepared while batches of the previous round are outstanding, and "first batch '
            'of a round" is decided from the batch index (shared with C20-n)', floor=2,
            necessary='a round barrier decided from the number of results received so far lets '
                      'batches of the next round through with the stale parameter value when '
                      'several batches are in flight: the result depends on the client')
def c02_n(ctx):
    from .C20 import c20_n
    c20_n(ctx)


@obligation('C02-o', 'T10 T2', 'nothing is computed from max_parallel_batches, which defaults to the '
            'number of cores of the executing client (shared with C04-m)', floor=5,
            necessary='a seeded run must give the same result on every client: a draw whose size '
                      'depends on the number of batches in flight consumes the round generator '
                      'differently on an in-process and on a multi-core client')
def c02_o(ctx):
    from .C04 import parallelism_sweep
    n = parallelism_sweep(ctx)
    if n < 5:
        ctx.undecided('expected at least 5 reads of max_parallel_batches, found {}'.format(n))


def ambient_fallback_sweep(ctx):
    """Every place that names the process-wide generator `np.random` as a *value* (a default for
    a generator argument).  It may only stand in for a generator / seed the caller did not give:
    `X or np.random`, `np.random if X is None else <X or a generator built from X>`,
    `if X is None: X = np.random`."""
    n = 0

    def is_np_random(e):
        return isinstance(e, ast.Attribute) and e.attr == 'random' and \
            isinstance(e.value, ast.Name) and e.value.id in ('np', 'numpy')

    def missing_test(test, want_missing):
        """test says `X is None` / `not X` (want_missing) or `X is not None` / `X`."""
        if isinstance(test, ast.Compare) and len(test.ops) == 1 and \
                isinstance(test.comparators[0], ast.Constant) and \
                test.comparators[0].value is None and isinstance(test.left, ast.Name):
            is_none = isinstance(test.ops[0], (ast.Is, ast.Eq))
            return test.left.id if is_none == want_missing else None
        if isinstance(test, ast.UnaryOp) and isinstance(test.op, ast.Not):
            if isinstance(test.operand, ast.Name):
                return test.operand.id if want_missing else None
            return missing_test(test.operand, not want_missing)
        if isinstance(test, ast.Name):
            return test.id if not want_missing else None
        return None
    for m in ctx.repo.modules.values():
        if not m.name.startswith('elfi') or m.name.startswith('elfi.examples') or \
                m.name.startswith('elfi.visualization'):
            continue
        for f in m.all_functions:
            fnode = getattr(f, 'node', None)
            if fnode is None or isinstance(fnode, ast.Lambda):
                continue
            for x in own_nodes(fnode):
                if not is_np_random(x):
                    continue
                p = getattr(x, '_parent', None)
                if isinstance(p, ast.Attribute) or (isinstance(p, ast.Call) and p.func is x):
                    continue      # np.random.RandomState(...), np.random.seed: other rules
                n += 1
                ok, how = False, ''
                if isinstance(p, ast.BoolOp) and isinstance(p.op, ast.Or) and p.values[-1] is x \
                        and all(isinstance(v, ast.Name) for v in p.values[:-1]):
                    ok, how = True, '`{} or np.random`'.format(p.values[0].id)
                elif isinstance(p, ast.IfExp):
                    name = missing_test(p.test, want_missing=(p.body is x))
                    other = p.orelse if p.body is x else p.body
                    if name is not None and any(isinstance(y, ast.Name) and y.id == name
                                                for y in ast.walk(other)):
                        ok, how = True, '`np.random` exactly when `{}` is missing'.format(name)
                elif isinstance(p, ast.Assign) and len(p.targets) == 1 and \
                        isinstance(p.targets[0], ast.Name):
                    q = getattr(p, '_parent', None)
                    if isinstance(q, ast.If) and p in q.body and \
                            missing_test(q.test, True) == p.targets[0].id:
                        ok, how = True, 'default under `{} is None`'.format(p.targets[0].id)
                    elif isinstance(q, ast.If) and p in q.orelse and \
                            missing_test(q.test, False) == p.targets[0].id:
                        ok, how = True, 'default under `{} is None`'.format(p.targets[0].id)
                elif isinstance(p, ast.Return):
                    ok, how = f.name in ('get_np_random',), 'the accessor of the process-wide ' \
                        'generator (used only for seed == "global", C02-l)'
                ctx.check(ok, f, 'the process-wide generator only stands in for a missing one', how,
                          '`{}` in {} uses np.random where the caller\'s generator / seed was '
                          'given (or drops the caller\'s generator): the draws no longer depend on '
                          'the seed alone'.format(src(_stmt_up2(x))[:70], f.qname.split(':')[-1]),
                          fn=f, node=x)
    return n


def _stmt_up2(n):
    while n is not None and not isinstance(n, ast.stmt):
        n = getattr(n, '_parent', None)
    return n


@obligation('C02-p', 'T10 T11', 'the process-wide generator is named as a value only as the default '
            'for a generator or seed the caller did not give', floor=5,
            necessary='a seeded sampler hands its own generator to these helpers (joint prior '
                      'draws, mixture proposals, optimiser starts, acquisition noise): if the '
                      'default replaces a generator that was given, the run depends on the state '
                      'of the global numpy generator')
def c02_p(ctx):
    n = ambient_fallback_sweep(ctx)
    if n < 5:
        ctx.undecided('expected at least 5 default-generator sites, found {}'.format(n))
