"""C15 - batch sub-seeds.

Decided: the range guard precedes any draw, draws are bounded by `high`, generator provenance,
the loop bookkeeping (required = index + 1, draws requested = missing distinct values, seen
updated with every draw, last draw returned), cache use condition, argument order at every
call site.  Not decided: distinctness for all seeds (an argument about the PRNG stream).
"""

import ast

from .. import AnalysisError, AnchorMissing
from ..cfg import cfg_of
from ..model import own_nodes
from ..values import pattern, match, match_any, find, contains, show, subterms
from .base import obligation, src, callee_name, if_branches, split_if
from .C04 import pattern_term, returns, enclosing_loop, _inside
from .C02 import ambient_sources

GS = 'elfi.utils:get_sub_seed'


@obligation('C15-a', 'T11 T3', 'an index that cannot be served is refused before any draw; '
            'draws lie in [0, high)', floor=3,
            necessary='with index >= high the loop can never collect index + 1 distinct values')
def c15_a(ctx):
    f = ctx.fn(GS)
    ex = ctx.ex(f)
    seed_p, idx_p, high_p = f.params[0], f.params[1], f.params[2]
    g = None
    for r in ctx.stmts(f, ast.Raise):
        for (t, pol, _) in ctx.guards(f, r):
            if pol and match_any(t, ('{h} <= {i}'.format(h=high_p, i=idx_p),)) is not None:
                g = r
    ctx.check(g is not None, f, 'range guard', 'raise when sub_seed_index >= high',
              'an index >= high is not refused', fn=f, node=g or f.node)
    draws = ctx.calls(f, name='randint')
    if not draws:
        raise AnchorMissing('no randint draw in get_sub_seed')
    if g is not None:
        ok = all(not cfg_of(f).exists_path(ctx.node(f, d), ctx.node(f, g)) for d in draws) and \
            enclosing_loop(g) is None
        ctx.check(ok, f, 'guard before any draw', '', 'a draw can happen before the range check',
                  fn=f, node=g)
    for d in draws:
        a0 = ex.term(d.args[0]) if d.args else None
        kws = dict((k.arg, ex.term(k.value)) for k in d.keywords)
        ok = a0 == ('param', high_p) and 'low' not in kws and len(d.args) == 1
        ctx.check(ok, f, 'draws bounded by high', 'randint(high, size=...)',
                  'draws are not taken from [0, high)', fn=f, node=d)
    rs = [r for r in ctx.stmts(f, ast.Raise) if any(
        pol and contains(t, 'isinstance({}, np.random.RandomState)'.format(seed_p))
        for (t, pol, _) in ctx.guards(f, r))]
    ctx.check(bool(rs), f, 'generator as seed refused', 'raise for a RandomState seed',
              'a RandomState passed as seed is not refused', fn=f, node=rs[0] if rs else f.node)


@obligation('C15-b', 'T3 T10', 'the generator is RandomState(seed) or the cached continuation of '
            'it', floor=2, necessary='any other generator makes the sub-seed depend on ambient '
                                     'state')
def c15_b(ctx):
    f = ctx.fn(GS)
    ex = ctx.ex(f)
    draws = ctx.calls(f, name='randint')
    for d in draws:
        recv = ex.term(d.func.value)
        alts = recv[1] if recv[0] == 'phi' else (recv,)
        ok = all(match(a, pattern('np.random.RandomState({})'.format(f.params[0]))) is not None or
                 match(a, pattern("cache['random_state']")) is not None for a in alts) and \
            any(match(a, pattern('np.random.RandomState({})'.format(f.params[0]))) is not None
                for a in alts)
        ctx.check(ok, f, 'generator provenance', 'RandomState(seed) | cache[random_state]',
                  'draws come from {}'.format(show(recv)[:100]), fn=f, node=d)
    amb = ambient_sources(ctx, f)
    ctx.check(not amb, f, 'no ambient source', '', 'get_sub_seed uses {}'.format(
        amb[0][1] if amb else ''), fn=f, node=amb[0][0] if amb else f.node)


@obligation('C15-c', 'T5', 'draw until index + 1 distinct values were seen; return the last draw',
            floor=5, necessary='the first draw of a chunk, or a stale `seen`, aliases two indices')
def c15_c(ctx):
    f = ctx.fn(GS)
    ex = ctx.ex(f)
    idx_p = f.params[1]
    loops = [n for n in own_nodes(f.node) if isinstance(n, ast.While)]
    if len(loops) != 1:
        ctx.undecided('expected one while loop, found {}'.format(len(loops)))
    lo = loops[0]
    tt = ex.raw(lo.test)
    m = match(tt, pattern('_u != _r'))
    if m is None or m['u'][0] != 'name' or m['r'][0] != 'name':
        ctx.bad(f, 'loop until enough distinct values', 'the loop test is `{}`'.format(
            src(lo.test)), fn=f, node=lo)
        return
    uniq, req = m['u'][1], m['r'][1]
    # which one is "required"?  the one defined as index + 1 before the loop
    def defs(name):
        return [n for n in own_nodes(f.node) if isinstance(n, ast.Assign) and
                isinstance(n.targets[0], ast.Name) and n.targets[0].id == name]
    if not any(match_any(ex.raw(d.value), ('{} + 1'.format(idx_p), '1 + {}'.format(idx_p)))
               is not None for d in defs(req)):
        uniq, req = req, uniq
    rd = defs(req)
    ok = len(rd) == 1 and match_any(ex.raw(rd[0].value), ('{} + 1'.format(idx_p),
                                                          '1 + {}'.format(idx_p))) is not None \
        and not _inside(rd[0], lo)
    ctx.check(ok, f, 'required distinct values', 'n_unique_required = index + 1',
              'the required number of distinct values is not index + 1', fn=f,
              node=rd[0] if rd else lo)
    ctx.check(True, f, 'loop until enough distinct values', 'while n_unique != required',
              fn=f, node=lo)
    draws = [c for c in ast.walk(lo) if isinstance(c, ast.Call) and callee_name(c) == 'randint']
    if len(draws) != 1:
        ctx.bad(f, 'one draw per round', 'expected one randint in the loop', fn=f, node=lo)
        return
    d = draws[0]
    kws = dict((k.arg, ex.raw(k.value)) for k in d.keywords)
    size = kws.get('size')
    nd = None
    if size is not None and size[0] == 'name':
        sd = [n for n in ast.walk(lo) if isinstance(n, ast.Assign) and
              isinstance(n.targets[0], ast.Name) and n.targets[0].id == size[1]]
        if len(sd) == 1:
            nd = ex.raw(sd[0].value)
    else:
        nd = size
    ok = nd == ('binop', '-', ('name', req), ('name', uniq))
    ctx.check(ok, f, 'draws requested = missing distinct values', 'size = required - seen so far',
              'the number of draws per round is {}'.format(show(nd) if nd else None), fn=f, node=d)
    # seen updated with the draws, count refreshed from it
    dv = getattr(d, '_parent', None)
    dname = dv.targets[0].id if isinstance(dv, ast.Assign) and \
        isinstance(dv.targets[0], ast.Name) else None
    ups = [c for c in ast.walk(lo) if isinstance(c, ast.Call) and callee_name(c) == 'update' and
           c.args and dname and ex.raw(c.args[0]) == ('name', dname)]
    ok = len(ups) == 1 and isinstance(ups[0].func.value, ast.Name)
    seen = ups[0].func.value.id if ok else None
    ctx.check(ok and ctx.must_precede(f, [dv], ups[0]), f, 'seen updated with every draw',
              'seen.update(sub_seeds)', 'the set of seen values is not updated with the draws',
              fn=f, node=ups[0] if ups else d)
    cnt = [n for n in ast.walk(lo) if isinstance(n, ast.Assign) and
           isinstance(n.targets[0], ast.Name) and n.targets[0].id == uniq]
    ok = len(cnt) == 1 and seen is not None and \
        ex.raw(cnt[0].value) == pattern('len({})'.format(seen)) or \
        (len(cnt) == 1 and seen is not None and
         match(ex.raw(cnt[0].value), pattern('len(_s)')) is not None and
         match(ex.raw(cnt[0].value), pattern('len(_s)'))['s'] == ('name', seen))
    ctx.check(ok and bool(ups) and ctx.must_precede(f, [ups[0]], cnt[0]), f,
              'distinct count refreshed after the update', 'n_unique = len(seen)',
              'the distinct count is not recomputed from the updated set', fn=f,
              node=cnt[0] if cnt else lo)
    pre = [n for n in defs(uniq) if not _inside(n, lo)]
    ok = len(pre) == 1 and seen is not None and \
        match(ex.raw(pre[0].value), pattern('len(_s)')) is not None and \
        match(ex.raw(pre[0].value), pattern('len(_s)'))['s'] == ('name', seen)
    ctx.check(ok, f, 'count starts from the (cached) set', 'n_unique = len(seen) before the loop',
              'the initial distinct count is not len(seen)', fn=f, node=pre[0] if pre else lo)
    rr = returns(f)
    ok = len(rr) == 1 and dname is not None and \
        ex.raw1(rr[0].value) == ('sub', ('name', dname), ('const', -1))
    ctx.check(ok, f, 'last draw returned', 'sub_seeds[-1]',
              'the returned value is `{}` - not the last draw of the last round'.format(
                  src(rr[0].value) if rr else None), fn=f, node=rr[0] if rr else f.node)


@obligation('C15-d', 'T6 T5', 'the cache is used only when it holds fewer values than needed',
            floor=2, necessary='a cache that already passed the index cannot reproduce an '
                               'earlier draw')
def c15_d(ctx):
    f = ctx.fn(GS)
    ex = ctx.ex(f)
    idx_p = f.params[1]
    reads = [n for n in own_nodes(f.node) if isinstance(n, ast.Assign) and
             match(ex.raw(n.value), pattern("cache['random_state']")) is not None]
    if not reads:
        raise AnchorMissing('cache read')
    ok = False
    for (t, pol, ta) in ctx.guards(f, reads[0]):
        r = t
        if pol and r[0] == 'bool' and r[1] == 'and':
            a = [x for x in r[2] if x == ('name', 'cache') or x == ('param', 'cache') or
                 match(x, pattern('cache is not None')) is not None or
                 match(x, pattern('cache')) is not None]
            b = [x for x in r[2] if match_any(x, ("len(cache['seen']) < {} + 1".format(idx_p),
                                                   "len(cache['seen']) <= {}".format(idx_p),
                                                   "len(cache['seen']) < 1 + {}".format(idx_p)))
                 is not None]
            if a and b:
                ok = True
    ctx.check(ok, f, 'cache use condition', "cache and len(cache['seen']) < index + 1",
              'the cache is not used exactly when it holds fewer than index + 1 values', fn=f,
              node=reads[0])
    fresh = [n for n in own_nodes(f.node) if isinstance(n, ast.Assign) and
             match(ex.raw(n.value), pattern('set()')) is not None]
    ok = bool(fresh) and bool(ctx.guard_groups(f, fresh[0])) and not any(
        pol and t[0] == 'bool' and t[1] == 'and' and contains(t, "len(cache['seen'])")
        for (t, pol, _) in ctx.guards(f, fresh[0]))
    ctx.check(ok, f, 'fresh start otherwise', 'seen = set(), RandomState(seed)',
              'without a usable cache the search does not start from an empty set', fn=f,
              node=fresh[0] if fresh else f.node)


@obligation('C15-e', 'T8', 'every caller passes (master seed, index) in this order', floor=5,
            necessary='swapped arguments derive the sub-seed of another (seed, index) pair')
def c15_e(ctx):
    f = ctx.fn(GS)
    sites = ctx.cg.callers_of(f)
    if len(sites) < 5:
        ctx.undecided('expected >= 5 call sites of get_sub_seed, found {}'.format(len(sites)))
    seedish = ('seed', 'get_state()')
    for (g, c) in sites:
        if g.module.name.startswith('elfi.examples'):
            continue
        ex = ctx.ex(g)
        kws = dict((k.arg, k.value) for k in c.keywords)
        a0 = c.args[0] if c.args else kws.get('seed')
        a1 = c.args[1] if len(c.args) > 1 else kws.get('sub_seed_index')
        if a0 is None or a1 is None:
            ctx.bad(g, 'call shape', 'get_sub_seed is not given (seed, index)', fn=g, node=c)
            continue
        s0, s1 = src(a0), src(a1)
        t0, t1 = ex.term(a0), ex.term(a1)
        is_seed0 = 'seed' in show(t0) or 'get_state' in show(t0)
        is_seed1 = ('seed' in show(t1) and 'sub_seed' not in show(t1)) or 'get_state' in show(t1)
        ctx.check(is_seed0 and not is_seed1, g, 'argument order',
                  'get_sub_seed({}, {})'.format(s0, s1),
                  'get_sub_seed({}, {}): the master seed is not the first argument'.format(
                      s0, s1), fn=g, node=c)


# The per-row index of external operations reaches get_sub_seed only if the meta data are
# unpacked before the seed is prepared: same obligation as C18-c.
from . import C18 as _C18   # noqa: E402

obligation('C15-f', 'T1 T3', 'the row index is available when the per-row sub-seed is derived '
           '(shared with C18-c)', floor=5,
           necessary='otherwise every row of a batch is given index 0 and the same derived '
                     'seed')(_C18.c18_c)



@obligation('C15-g', 'T6 T11', 'seed 0, batch index 0 and row index 0 are never tested by truth value', floor=3,
            necessary='a falsy row or batch index falls through to another index: two indices receive the same derived seed')
def c15_g(ctx):
    from .base import zero_is_valid_obligation
    zero_is_valid_obligation(ctx, ['batch_index', 'index_in_batch', 'seed'])


@obligation('C15-h', 'T7 T3', 'at every call site the index is the index of the unit being seeded '
            '(batch, row, round, chain)', floor=5,
            necessary='another counter as index makes two units share a derived seed, or makes '
                      'the seed of unit i depend on something other than (seed, i)')
def c15_h(ctx):
    f = ctx.fn(GS)
    sites = [(g, c) for (g, c) in ctx.cg.callers_of(f)
             if not g.module.name.startswith('elfi.examples')]
    if len(sites) < 5:
        ctx.undecided('expected >= 5 call sites of get_sub_seed, found {}'.format(len(sites)))
    for (g, c) in sites:
        ex = ctx.ex(g)
        kws = dict((k.arg, k.value) for k in c.keywords)
        a1 = c.args[1] if len(c.args) > 1 else kws.get('sub_seed_index')
        if a1 is None:
            continue
        t = ex.term(a1)
        lp = enclosing_loop(c)
        role = why = None
        ok = False
        # (a) per-chain seeds: the variable of the enclosing loop over the chains
        if isinstance(lp, ast.For) and isinstance(lp.target, ast.Name) and \
                match(ex.term(lp.iter), pattern('range(_n)')) is not None:
            role = 'loop index of the seeded unit'
            ok = t[0] == 'elem' and t[1] == ex.term(lp.iter)
            why = 'the index is {} instead of the loop variable `{}` of the units being ' \
                  'seeded'.format(src(a1), lp.target.id)
        # (b) a parameter of the function that names the unit
        elif t[0] == 'param':
            role = 'index parameter'
            # the same parameter identifies the unit elsewhere in the function (state / compare)
            ok = t[1] in g.params
            why = ''
        # (c) the row index unpacked from the meta data (phi of the lookup and its 0 fallback)
        elif contains(t, "_.get('index_in_batch')") or contains(t, "_['index_in_batch']"):
            role = 'row index from the meta data'
            ok = True
        else:
            role = 'index of the seeded unit'
            why = 'the index {} is neither a parameter of {}, the loop variable of the seeded ' \
                  'units nor the row index'.format(src(a1), g.name)
        ctx.check(ok, g, role, src(a1)[:40], why, fn=g, node=c)
        # the round / batch parameter must not be shadowed by a lookup of another field
        if role == 'index of the seeded unit' and not ok:
            continue


@obligation('C15-i', 'T2 T14', 'the sub-seed cache belongs to one computation context: no default '
            'cache shared by all callers (shared with C02-g)', floor=4,
            necessary='a cache shared between seeds continues one seed\'s stream for another: the '
                      'derived seed depends on what was requested before')
def c15_i(ctx):
    from . import C02 as _C02
    return _C02.c02_g(ctx)


@obligation('C15-j', 'T1 T7', 'the cache is written back as a pair: the generator and the set of '
            'values it has produced so far, both, after the search', floor=3,
            necessary='a generator stored without its set (or the other way round) makes the next '
                      'request continue a stream whose position does not match the recorded '
                      'values: the derived seed then depends on what was requested before')
def c15_j(ctx):
    f = ctx.fn(GS)
    ex = ctx.ex(f)
    cfg = cfg_of(f)
    loops = [n for n in own_nodes(f.node) if isinstance(n, ast.While)]
    if len(loops) != 1:
        ctx.undecided('search loop not found')
    lp = loops[0]
    # the generator that draws and the set that is updated in the loop
    draws = [c for c in ast.walk(lp) if isinstance(c, ast.Call) and callee_name(c) == 'randint'
             and isinstance(c.func.value, ast.Name)]
    upd = [c for c in ast.walk(lp) if isinstance(c, ast.Call) and callee_name(c) == 'update'
           and isinstance(c.func.value, ast.Name)]
    if len(draws) != 1 or len(upd) != 1:
        ctx.undecided('draw / update in the search loop not found')
    gen, seen = draws[0].func.value.id, upd[0].func.value.id
    w_gen = [s for (s, t, k) in ctx.stores(f, "cache['random_state']") if isinstance(s, ast.Assign)]
    w_seen = [s for (s, t, k) in ctx.stores(f, "cache['seen']") if isinstance(s, ast.Assign)]
    ok = len(w_gen) == 1 and len(w_seen) == 1 and \
        ex.raw(w_gen[0].value) == ('name', gen) and ex.raw(w_seen[0].value) == ('name', seen)
    ctx.check(ok, f, 'both fields written from the search state',
              "cache['random_state'] = random_state; cache['seen'] = seen",
              'the cache is not given both the generator and the set the search used', fn=f,
              node=(w_gen or w_seen or [lp])[0])
    if not ok:
        return
    hdr = cfg.by_stmt[id(lp)]
    after = all(cfg.must_precede([hdr], ctx.node(f, s)) and not cfg.in_loop(ctx.node(f, s))
                for s in (w_gen[0], w_seen[0]))
    ctx.check(after, f, 'written after the search', 'after the while loop',
              'the cache is written before the search has advanced the generator', fn=f,
              node=w_gen[0])
    # together: the same dominating tests, and exactly `cache is not None` (a falsy empty dict
    # is a cache too: it must be filled)
    g1 = [sorted(map(repr, grp)) for grp in ctx.guard_groups(f, w_gen[0])]
    g2 = [sorted(map(repr, grp)) for grp in ctx.guard_groups(f, w_seen[0])]
    cond = [(t, p) for grp in ctx.guard_groups(f, w_gen[0]) for (t, p) in grp]
    about_cache = [(tn, pol) for (tn, pol) in cfg.guards_of(ctx.node(f, w_gen[0]))
                   if tn.kind == 'test' and isinstance(tn.stmt, ast.If) and
                   any(isinstance(x, ast.Name) and x.id == 'cache' for x in ast.walk(tn.ast))]
    okc = g1 == g2 and len(about_cache) == 1
    if okc:
        (tn, pol) = about_cache[0]
        t = ex.term(tn.ast, tn)
        okc = (pol and match(t, pattern('cache is not None')) is not None) or \
            ((not pol) and match(t, pattern('cache is None')) is not None)
    ctx.check(okc, f, 'written together whenever a cache was given',
              'if cache is not None: both stores',
              'the two cache fields are not written under the same single test `cache is not '
              'None` (an empty dict is a cache that must be filled)', fn=f, node=w_gen[0])
    # every normal exit passes the write-back when a cache is given: no return between the
    # loop and the stores
    rr = returns(f)
    okr = all(cfg.must_precede([ctx.node(f, w_gen[0])], ctx.node(f, r)) or
              not cfg.exists_path_assuming(
                  cfg.entry, ctx.node(f, r), avoiding=[ctx.node(f, w_gen[0])],
                  assumed=[(tn, True) for tn in cfg.nodes if tn.kind == 'test' and
                           match(ex.term(tn.ast, tn), pattern('cache is not None')) is not None])
              for r in rr)
    ctx.check(okr and bool(rr), f, 'no exit skips the write-back',
              'return only after the cache was updated',
              'a return is reachable with a cache given but not updated', fn=f,
              node=rr[0] if rr else f.node)


@obligation('C15-k', 'T7', 'the search starts from a matching pair: the cached generator with the '
            'cached set, or a fresh generator with an empty set', floor=2,
            necessary='a continued generator with an empty set (or a fresh one with the cached '
                      'set) counts draws that do not belong to its stream')
def c15_k(ctx):
    f = ctx.fn(GS)
    ex = ctx.ex(f)
    cfg = cfg_of(f)
    loops = [n for n in own_nodes(f.node) if isinstance(n, ast.While)]
    if len(loops) != 1:
        ctx.undecided('search loop not found')
    lp = loops[0]
    draws = [c for c in ast.walk(lp) if isinstance(c, ast.Call) and callee_name(c) == 'randint'
             and isinstance(c.func.value, ast.Name)]
    upd = [c for c in ast.walk(lp) if isinstance(c, ast.Call) and callee_name(c) == 'update'
           and isinstance(c.func.value, ast.Name)]
    if len(draws) != 1 or len(upd) != 1:
        ctx.undecided('draw / update in the search loop not found')
    gen, seen = draws[0].func.value.id, upd[0].func.value.id
    hdr = cfg.by_stmt[id(lp)]

    def defs(name):
        out = []
        for n in own_nodes(f.node):
            if isinstance(n, ast.Assign) and isinstance(n.targets[0], ast.Name) and \
                    n.targets[0].id == name and not cfg.in_loop(ctx.node(f, n)):
                out.append(n)
        return out
    gd, sd_ = defs(gen), defs(seen)

    def key(n):
        return sorted(sorted(map(repr, grp)) for grp in ctx.guard_groups(f, n))
    cached_g = [n for n in gd if match(ex.raw(n.value), pattern("cache['random_state']"))
                is not None]
    fresh_g = [n for n in gd if match(ex.term(n.value), pattern('np.random.RandomState(seed)'))
               is not None]
    cached_s = [n for n in sd_ if match(ex.raw(n.value), pattern("cache['seen']")) is not None]
    fresh_s = [n for n in sd_ if match_any(ex.raw(n.value), ('set()',)) is not None]
    ok = len(gd) == 2 and len(sd_) == 2 and len(cached_g) == 1 and len(fresh_g) == 1 and \
        len(cached_s) == 1 and len(fresh_s) == 1
    ctx.check(ok, f, 'two starting states', 'cached (generator, set) | fresh (RandomState(seed), '
              'set())', 'the search does not start from either the cached pair or a fresh pair',
              fn=f, node=(gd or sd_ or [lp])[0])
    if not ok:
        return
    ctx.check(key(cached_g[0]) == key(cached_s[0]) and key(fresh_g[0]) == key(fresh_s[0]) and
              key(cached_g[0]) != key(fresh_g[0]), f, 'generator and set come from the same source',
              'same branch for both members of the pair',
              'the generator and the set of seen values are taken from different sources on '
              'some path', fn=f, node=cached_s[0])
