"""C16 - result objects report what the sampler produced.

Decided: parameter columns in parameter_names order, one weight vector in every summary
statistic, the warm-up slice / chain-major flattening of BOLFI samples, symmetry of the
pickling state, the save dispatch.  Not decided: ESS / R-hat formulas, JSON / CSV round-trip
values.
"""

import ast

from .. import AnalysisError, AnchorMissing
from ..cfg import cfg_of
from ..model import own_nodes
from ..values import pattern, match, match_any, find, contains, show, subterms
from .base import obligation, src, callee_name, if_branches, split_if
from .C04 import pattern_term, returns, enclosing_loop, _inside

S = 'elfi.methods.results:Sample'
BS = 'elfi.methods.results:BolfiSample'


@obligation('C16-a', 'T3', 'parameter columns are exposed in parameter_names order', floor=3,
            necessary='another order mislabels the columns of samples_array')
def c16_a(ctx):
    s = ctx.cls(S)
    init = ctx.own_method(s, '__init__')
    ex = ctx.ex(init)
    cre = [x for (x, t, k) in ctx.stores(init, 'self.samples') if isinstance(x, ast.Assign)]
    ok = bool(cre) and match_any(ex.term(cre[0].value), ('OrderedDict()', 'dict()')) is not None \
        or (bool(cre) and ex.term(cre[0].value) == ('dict', ()))
    ctx.check(ok, init, 'ordered container', 'samples = OrderedDict()',
              'samples is not an insertion-ordered mapping', fn=init,
              node=cre[0] if cre else init.node)
    fills = [x for (x, t, k) in ctx.stores(init, 'self.samples[_]') if isinstance(x, ast.Assign)]
    ok = False
    for x in fills:
        lo = enclosing_loop(x)
        if isinstance(lo, ast.For) and match(ex.term(lo.iter, cfg_of(init).by_stmt[id(lo)]),
                                             pattern('self.parameter_names')) is not None:
            k = ex.term(x.targets[0].slice)
            v = ex.term(x.value)
            if k[0] == 'elem' and v == ('sub', pattern_term('self.outputs'), k):
                ok = True
    ctx.check(ok, init, 'filled in parameter order',
              'for n in parameter_names: samples[n] = outputs[n]',
              'samples is not filled with outputs[n] by iterating parameter_names', fn=init,
              node=fills[0] if fills else init.node)
    sup = ctx.calls(init, 'super(*_).__init__(*_)')
    ok = bool(sup) and bool(fills) and ctx.must_precede(init, sup, fills[0])
    ctx.check(ok, init, 'outputs stored first', 'base __init__ before the samples are filled',
              '', fn=init, node=sup[0] if sup else init.node)
    sa = s.methods.get('samples_array')
    if sa is None:
        raise AnchorMissing('samples_array')
    ctx.touch(sa)
    rr = returns(sa)
    ok = len(rr) == 1 and match_any(
        ctx.term(sa, rr[0].value),
        ('np.column_stack(tuple(self.samples.values()))',
         'np.column_stack(list(self.samples.values()))',
         'np.column_stack([self.samples[_n] for _n in self.parameter_names])')) is not None
    ctx.check(ok, sa, 'columns stacked in container order', 'column_stack(samples.values())',
              'samples_array does not stack the sample columns in their stored order', fn=sa,
              node=rr[0] if rr else sa.node)
    base = ctx.cls('elfi.methods.results:ParameterInferenceResult')
    bi = ctx.own_method(base, '__init__')
    st = [x for (x, t, k) in ctx.stores(bi, 'self.outputs') if isinstance(x, ast.Assign)]
    ok = bool(st) and match_any(ctx.term(bi, st[0].value), ('outputs.copy()', 'dict(outputs)')) \
        is not None
    ctx.check(ok, bi, 'outputs dict owned by the result', 'outputs.copy()',
              'the result shares the caller\'s outputs dict', fn=bi, node=st[0] if st else bi.node)
    ns = s.methods.get('n_samples')
    if ns is not None:
        ctx.touch(ns)
        rr = returns(ns)
        ok = len(rr) == 1 and match(ctx.term(ns, rr[0].value),
                                    pattern('len(self.outputs[self.parameter_names[0]])')) \
            is not None
        ctx.check(ok, ns, 'n_samples', 'len(outputs[first parameter])', 'n_samples is not the '
                  'length of a parameter column', fn=ns, node=rr[0] if rr else ns.node)


@obligation('C16-b', 'T7', 'every summary statistic uses the stored samples and the one weight '
            'vector', floor=4,
            necessary='a statistic computed without (or with other) weights disagrees with the '
                      'others')
def c16_b(ctx):
    s = ctx.cls(S)
    n = 0
    for m in s.methods.values():
        ex = ctx.ex(m)
        calls = [c for c in ctx.calls(m) if callee_name(c) in ('average', 'weighted_sample_quantile')
                 and (match(ex.term(c.func), pattern('np.average')) is not None or
                      match(ex.term(c.func), pattern('weighted_sample_quantile')) is not None)]
        for c in calls:
            n += 1
            kws = dict((k.arg, ex.term(k.value)) for k in c.keywords)
            ok = kws.get('weights') == pattern_term('self.weights')
            ctx.check(ok, m, 'weights passed', src(c)[:60],
                      '`{}` does not use weights=self.weights'.format(src(c)[:70]), fn=m, node=c)
            x = ex.term(c.args[0]) if c.args else kws.get('x')
            ok = x is not None and (contains(x, 'self.samples.items()') or
                                    contains(x, 'self.samples[_]') or
                                    contains(x, 'self.samples.values()'))
            ctx.check(ok, m, 'statistic of the stored samples', 'iterates self.samples',
                      '`{}` is not computed from self.samples'.format(src(c)[:70]), fn=m, node=c)
    if n < 4:
        ctx.undecided('expected >= 4 weighted statistics, found {}'.format(n))
    ci = s.methods.get('sample_means_and_95CIs')
    if ci is not None:
        ex = ctx.ex(ci)
        qs = [c for c in ctx.calls(ci, 'weighted_sample_quantile(*_)')]
        al = sorted(ex.term(k.value)[1] for c in qs for k in c.keywords
                    if k.arg == 'alpha' and ex.term(k.value)[0] == 'const')
        ctx.check(al == [0.025, 0.975], ci, '95% interval', 'alpha = 0.025 and 0.975',
                  'interval quantiles are {}'.format(al), fn=ci, node=qs[0] if qs else ci.node)
    w = ctx.own_method(s, '__init__')
    st = [x for (x, t, k) in ctx.stores(w, 'self.weights') if isinstance(x, ast.Assign)]
    ok = bool(st) and ctx.term(w, st[0].value) == ('param', 'weights')
    ctx.check(ok, w, 'weights stored as given', 'self.weights = weights', '', fn=w,
              node=st[0] if st else w.node)


@obligation('C16-c', 'T5 T8', 'a BOLFI sample is every chain minus its warm-up prefix, chain by '
            'chain', floor=4,
            necessary='a slice on another axis removes chains or parameters; column-major '
                      'flattening interleaves the chains')
def c16_c(ctx):
    bs = ctx.cls(BS)
    init = ctx.own_method(bs, '__init__')
    ex = ctx.ex(init)
    sup = ctx.calls(init, 'super(*_).__init__(*_)')
    if not sup:
        raise AnchorMissing('BolfiSample does not call the base constructor')
    kws = dict((k.arg, ex.term(k.value)) for k in sup[0].keywords)
    out = kws.get('outputs')
    m = match(out, pattern('dict(zip(parameter_names, _c.T))')) if out is not None else None
    if m is None and out is not None:
        m = match(out, pattern('dict(zip(parameter_names, np.transpose(_c)))'))
    ctx.check(m is not None, init, 'names zipped with transposed columns',
              'dict(zip(parameter_names, concatenated.T))',
              'outputs are {}'.format(show(out)[:100] if out else None), fn=init, node=sup[0])
    if m is None:
        return
    c = m['c']
    mr = match(c, pattern('_w.reshape((-1,) + _s[2:])'))
    ok = mr is not None and c[0] == 'call' and not any(k == 'order' for (k, v) in c[3])
    ctx.check(ok, init, 'chain-major flattening', 'reshape((-1,) + shape[2:]) in C order',
              'the chains are flattened as {}'.format(show(c)[:100]), fn=init, node=sup[0])
    if mr is not None:
        w = mr['w']
        mw = match(w, pattern('_ch[:, warmup:, :]'))
        ctx.check(mw is not None, init, 'warm-up removed along the sample axis',
                  'chains[:, warmup:, :]',
                  'the warm-up slice is {}'.format(show(w)[:80]), fn=init, node=sup[0])
        if mw is not None:
            ch = mw['ch']
            ok = match(ch, pattern('chains.copy()')) is not None
            ctx.check(ok, init, 'chains copied', 'chains = chains.copy()',
                      'the sample keeps a reference to the caller\'s chain array', fn=init,
                      node=sup[0])
            ok = mr['s'] == ('attr', ch, 'shape')
            ctx.check(ok, init, 'trailing shape of the same array', 'shape = chains.shape',
                      'the trailing shape is taken from another array', fn=init, node=sup[0])
    ok = kws.get('warmup') == ('param', 'warmup') and kws.get('parameter_names') == \
        ('param', 'parameter_names')
    ctx.check(ok, init, 'meta data passed on', 'warmup and parameter_names forwarded',
              'warmup / parameter_names are not forwarded to the base class', fn=init,
              node=sup[0])


@obligation('C16-d', 'T8', '__getstate__ and __setstate__ use the same tuple order', floor=1,
            necessary='a swapped order restores meta as __dict__ and vice versa')
def c16_d(ctx):
    s = ctx.cls(S)
    gs = ctx.own_method(s, '__getstate__')
    ss = ctx.own_method(s, '__setstate__')
    rr = returns(gs)
    gt = ctx.term(gs, rr[0].value) if rr else None
    st = [n for n in own_nodes(ss.node) if isinstance(n, ast.Assign) and
          isinstance(n.targets[0], ast.Tuple)]
    if gt is None or gt[0] != 'tuple' or not st:
        ctx.undecided('state is not a tuple on both sides')
    tg = [ctx.ex(ss).term(e) for e in st[0].targets[0].elts]
    ok = list(gt[1]) == tg and ctx.term(ss, st[0].value) == ('param', ss.params[1])
    ctx.check(ok, gs, 'state tuple order', '{} on both sides'.format([show(x) for x in gt[1]]),
              '__getstate__ returns {} but __setstate__ unpacks into {}'.format(
                  [show(x) for x in gt[1]], [show(x) for x in tg]), fn=gs, node=rr[0])


@obligation('C16-e', 'T8', 'save handles csv, json and pkl; csv header and rows come from the '
            'same mapping', floor=3,
            necessary='a header from another mapping mislabels the saved columns')
def c16_e(ctx):
    s = ctx.cls(S)
    sv = ctx.own_method(s, 'save')
    ex = ctx.ex(sv)
    kinds = set()
    from .base import negate_term
    for n in own_nodes(sv.node):
        if isinstance(n, ast.If):
            t0, _b, _o = split_if(ex, n)
            for cand in (t0, negate_term(t0)):
                m = match(cand, pattern('_k == _c')) if cand is not None else None
                if m is not None:
                    for side in (m['c'], m['k']):
                        if side[0] == 'const' and isinstance(side[1], str):
                            kinds.add(side[1])
    ctx.check(kinds >= {'csv', 'json', 'pkl'}, sv, 'three kinds handled', sorted(kinds),
              'save handles {} (expected csv, json, pkl)'.format(sorted(kinds)), fn=sv,
              node=sv.node)
    hdr = ctx.calls(sv, name='writerow')
    rows = ctx.calls(sv, name='writerows')
    ok = bool(hdr) and bool(rows) and \
        match(ex.term(hdr[0].args[0]), pattern('self.samples.keys()')) is not None and \
        contains(ex.term(rows[0].args[0]), 'self.samples.values()') and \
        ctx.must_precede(sv, hdr, rows[0])
    ctx.check(ok, sv, 'csv header and rows from one mapping',
              'writerow(samples.keys()); writerows(zip(*samples.values()))',
              'csv header and rows are not taken from self.samples in this order', fn=sv,
              node=hdr[0] if hdr else sv.node)
    pk = ctx.calls(sv, 'pickle.dump(self, *_)')
    ok = bool(pk) and any(pol and contains(t, "_ == 'pkl'") for (t, pol, _) in ctx.guards(sv, pk[0]))
    ctx.check(ok, sv, 'pickle saves the whole object', 'pickle.dump(self, f, ...)',
              'the pkl branch does not pickle the sample object', fn=sv,
              node=pk[0] if pk else sv.node)
    ext = [n for n in own_nodes(sv.node) if isinstance(n, ast.Assign) and
           match(ex.term(n.value), pattern('os.path.splitext(fname)[1][1:]')) is not None]
    ctx.check(bool(ext), sv, 'kind from the file extension', 'splitext(fname)[1][1:]',
              'the kind is not derived from the file extension', fn=sv,
              node=ext[0] if ext else sv.node)


# The intervals a sample reports are computed by weighted_sample_quantile: its partition
# structure (one permutation for values and weights) is part of this property too (= C13-a).
from . import C13 as _C13   # noqa: E402

obligation('C16-f', 'T6 T7 T5', 'the quantile helper behind the reported intervals permutes values '
           'and weights together (shared with C13-a)', floor=6,
           necessary='weights accumulated in stored order give intervals that depend on the '
                     'storage order of the sample')(_C13.c13_a)
